"""Translator for C11: reads the generated protocol modules under <repo>/nintendo/nex with `ast`
(never imports them) and extracts, per generated server class, the dispatch table that
`NxModel/Nex/RmcServer.lean` `generatedHandle` is driven by.

For every class that defines `handle` and whose hierarchy (inside the module) defines PROTOCOL_ID:
  protocol id, NORESPONSE, the `self.methods = {self.METHOD_X: self.handle_x, ...}` literal
  (keys resolved through the METHOD_* constants of the protocol class), and per handler:
  supported?, number of request parameters, response kind (n none / s single / o single typed
  `object` / m multi + field names), the user method name, and whether the class still has the
  generated stub for it. The shape of `handle()` and of every stub is compared with the generator's
  template; any deviation is reported in `shape_problems` (the model's dispatch is then not the code's).
"""
import ast, os


def _const_int(node):
    if isinstance(node, ast.Constant) and isinstance(node.value, int) and not isinstance(node.value, bool):
        return node.value
    return None


def _is_not_implemented_raise(stmt):
    # raise common.RMCError("Core::NotImplemented")
    return (isinstance(stmt, ast.Raise) and isinstance(stmt.exc, ast.Call)
            and ast.unparse(stmt.exc.func) == "common.RMCError" and len(stmt.exc.args) == 1
            and isinstance(stmt.exc.args[0], ast.Constant) and stmt.exc.args[0].value == "Core::NotImplemented")


def _is_log(stmt, level):
    return (isinstance(stmt, ast.Expr) and isinstance(stmt.value, ast.Call)
            and ast.unparse(stmt.value.func) == "logger." + level)


HANDLE_TEMPLATE = (
    "async def handle(self, client, method_id, input, output):\n"
    "    if method_id in self.methods:\n"
    "        await self.methods[method_id](client, input, output)\n"
    "    else:\n"
    "        logger.warning('Unknown method called on %s: %%i', method_id)\n"
    "        raise common.RMCError('Core::NotImplemented')")


def _analyse_handler(fn, problems, where):
    """fn: AsyncFunctionDef handle_<name>. returns dict"""
    info = {"supported": True, "nreq": 0, "resp": "n", "fields": [], "user": fn.name[len("handle_"):], "req_exprs": [], "expected": None,
            "enc_exprs": []}   # enc_exprs: source of the `output.<type>(response[.field], …)` statements, in order
    body = fn.body
    if [a.arg for a in fn.args.args] != ["self", "client", "input", "output"]:
        problems.append("%s: unexpected signature" % where)
    if len(body) == 2 and _is_log(body[0], "warning") and _is_not_implemented_raise(body[1]):
        info["supported"] = False
        return info
    i = 0
    if body and _is_log(body[0], "info"): i = 1
    else: problems.append("%s: no logger.info first" % where)
    params = []
    # request extraction: `<name> = input.<...>(...)`
    while i < len(body) and isinstance(body[i], ast.Assign) and len(body[i].targets) == 1 and isinstance(body[i].targets[0], ast.Name) \
            and isinstance(body[i].value, ast.Call) and ast.unparse(body[i].value.func).startswith("input."):
        params.append(body[i].targets[0].id)
        info["req_exprs"].append(ast.unparse(body[i].value))
        i += 1
    info["nreq"] = len(params)
    if i >= len(body):
        problems.append("%s: no call of the user method" % where); return info
    st = body[i]
    call = None
    has_resp = False
    if isinstance(st, ast.Expr) and isinstance(st.value, ast.Await):
        call = st.value.value
    elif isinstance(st, ast.Assign) and isinstance(st.value, ast.Await) and ast.unparse(st.targets[0]) == "response":
        call = st.value.value; has_resp = True
    want = "self.%s(%s)" % (info["user"], ", ".join(["client"] + params))
    if call is None or ast.unparse(call) != want:
        problems.append("%s: user call is %r, expected %r" % (where, ast.unparse(st), want))
    i += 1
    rest = body[i:]
    if not has_resp:
        if rest: problems.append("%s: statements after a response-less user call" % where)
        return info
    # `if not isinstance(response, T): raise RuntimeError(...)`
    if not rest or not isinstance(rest[0], ast.If):
        problems.append("%s: no isinstance validation" % where); return info
    test = ast.unparse(rest[0].test)
    if not (test.startswith("not isinstance(response, ") and len(rest[0].body) == 1 and isinstance(rest[0].body[0], ast.Raise)
            and ast.unparse(rest[0].body[0].exc.func) == "RuntimeError"):
        problems.append("%s: unexpected validation %r" % (where, test)); return info
    expected = test[len("not isinstance(response, "):-1]
    info["expected"] = expected
    if expected == "rmc.RMCResponse":
        info["resp"] = "m"
        if len(rest) >= 2 and isinstance(rest[1], ast.For) and isinstance(rest[1].iter, ast.List):
            info["fields"] = [e.value for e in rest[1].iter.elts]
            inner = rest[1].body
            if not (len(inner) == 1 and isinstance(inner[0], ast.If) and ast.unparse(inner[0].test) == "not hasattr(response, field)"
                    and isinstance(inner[0].body[0], ast.Raise) and ast.unparse(inner[0].body[0].exc.func) == "RuntimeError"):
                problems.append("%s: unexpected field validation" % where)
        else:
            problems.append("%s: multi response without field loop" % where)
        enc = rest[2:]
        if len(enc) != len(info["fields"]): problems.append("%s: %d encode statements for %d fields" % (where, len(enc), len(info["fields"])))
    else:
        info["resp"] = "o" if expected == "object" else "s"
        enc = rest[1:]
        if len(enc) != 1: problems.append("%s: %d encode statements for a single response" % (where, len(enc)))
    for e in enc:
        if not (isinstance(e, ast.Expr) and isinstance(e.value, ast.Call) and ast.unparse(e.value.func).startswith("output.")):
            problems.append("%s: unexpected response statement %r" % (where, ast.unparse(e)))
        else:
            info["enc_exprs"].append(ast.unparse(e.value))
    # every encode statement writes the response (single) / its own field, in the order of the field list (multi)
    want_args = ["response"] if info["resp"] != "m" else ["response." + f for f in info["fields"]]
    got_args = [ast.unparse(e.value.args[0]) if isinstance(e, ast.Expr) and isinstance(e.value, ast.Call) and e.value.args else None for e in enc]
    if got_args != want_args:
        problems.append("%s: response statements write %r, expected %r" % (where, got_args, want_args))
    return info


def extract_module(path, modname):
    """-> (servers, problems) for one module"""
    tree = ast.parse(open(path).read(), path)
    classes = {n.name: n for n in tree.body if isinstance(n, ast.ClassDef)}
    problems = []

    def class_consts(cls):
        consts, dup = {}, []
        for st in cls.body:
            if isinstance(st, ast.Assign) and len(st.targets) == 1 and isinstance(st.targets[0], ast.Name):
                name = st.targets[0].id
                if name in consts: dup.append(name)
                v = _const_int(st.value)
                if v is not None: consts[name] = v
                elif isinstance(st.value, ast.Constant): consts[name] = st.value.value
        return consts, dup

    def hierarchy_consts(cls):
        res = {}
        chain = []
        c = cls
        while c is not None:
            chain.append(c)
            nxt = None
            for b in c.bases:
                if isinstance(b, ast.Name) and b.id in classes:
                    nxt = classes[b.id]; break
            c = nxt
        for c in reversed(chain):
            consts, dup = class_consts(c)
            for d in dup: problems.append("%s.%s: constant %s assigned twice" % (modname, c.name, d))
            res.update(consts)
        return res

    servers = []
    for cls in classes.values():
        fns = {n.name: n for n in cls.body if isinstance(n, (ast.FunctionDef, ast.AsyncFunctionDef))}
        if "handle" not in fns: continue
        consts = hierarchy_consts(cls)
        if "PROTOCOL_ID" not in consts: continue
        where = "%s.%s" % (modname, cls.name)
        srv = {"module": modname, "class": cls.name, "protocol": consts["PROTOCOL_ID"], "noresponse": bool(consts.get("NORESPONSE", False)),
               "methods": [], "raw_keys": []}
        # handle() is the template
        want = ast.dump(ast.parse(HANDLE_TEMPLATE % cls.name).body[0])
        if ast.dump(fns["handle"]) != want:
            problems.append("%s.handle differs from the generator's dispatch template" % where)
        # self.methods literal
        init = fns.get("__init__")
        lit = None
        if init:
            for st in init.body:
                if isinstance(st, ast.Assign) and ast.unparse(st.targets[0]) == "self.methods" and isinstance(st.value, ast.Dict):
                    lit = st.value
        if lit is None:
            problems.append("%s: no `self.methods = {...}` literal" % where); servers.append(srv); continue
        if init and len(init.body) != 1: problems.append("%s.__init__ does more than build the table" % where)
        for k, v in zip(lit.keys, lit.values):
            ks, vs = ast.unparse(k), ast.unparse(v)
            if not (ks.startswith("self.METHOD_") and vs.startswith("self.handle_")):
                problems.append("%s: table entry %s: %s" % (where, ks, vs)); continue
            cname = ks[5:]
            if cname not in consts or not isinstance(consts[cname], int):
                problems.append("%s: %s is not an int constant" % (where, cname)); continue
            hname = vs[5:]
            if hname not in fns:
                problems.append("%s: handler %s missing" % (where, hname)); continue
            if cname != "METHOD_" + hname[len("handle_"):].upper():
                problems.append("%s: %s dispatches to %s" % (where, cname, hname))
            info = _analyse_handler(fns[hname], problems, where + "." + hname)
            info["id"] = consts[cname]
            info["const"] = cname
            # the generated stub of a supported method
            stub = fns.get(info["user"])
            info["has_stub"] = bool(stub is not None and isinstance(stub, ast.AsyncFunctionDef) and len(stub.body) == 2
                                    and _is_log(stub.body[0], "warning") and _is_not_implemented_raise(stub.body[1])
                                    and stub.args.vararg is not None and [a.arg for a in stub.args.args] == ["self"])
            if info["supported"] and not info["has_stub"]:
                problems.append("%s: supported method %s has no generated stub" % (where, info["user"]))
            srv["methods"].append(info)
            srv["raw_keys"].append(consts[cname])
        servers.append(srv)
    return servers, problems


def extract_all(repo):
    d = os.path.join(repo, "nintendo", "nex")
    servers, problems = [], []
    for f in sorted(os.listdir(d)):
        if not f.endswith(".py") or f == "__init__.py": continue
        src = open(os.path.join(d, f)).read()
        if "async def handle(self, client, method_id, input, output)" not in src: continue
        s, p = extract_module(os.path.join(d, f), f[:-3])
        servers += s; problems += p
    return servers, problems


def lean_table(servers):
    """Lean source with the tables and the generated obligations (Nat-coded, Bool checkers)."""
    def meth(m):
        rk = {"n": ".none", "s": ".single false", "o": ".single true", "m": ".multi"}[m["resp"]]
        return "{ id := %d, supported := %s, resp := %s }" % (m["id"], "true" if m["supported"] else "false", rk)
    L = ["import NxModel.Nex.RmcServer", "open Nx.RmcServer", "namespace NxGen.C11", ""]
    names = []
    bymod = {}
    for i, s in enumerate(servers):
        nm = "srv%d" % i
        names.append(nm)
        bymod.setdefault(s["module"], []).append(nm)
        L.append("/-- %s.%s -/" % (s["module"], s["class"]))
        L.append("def %s : Server := { protocol := %d, noresponse := %s, methods := [%s] }" % (
            nm, s["protocol"], "true" if s["noresponse"] else "false", ", ".join(meth(m) for m in s["methods"])))
    L.append("")
    L.append("def all : List Server := [%s]" % ", ".join(names))
    obligations = []
    L.append("theorem method_ids_distinct : all.all Server.methodIdsDistinct = true := by decide +kernel")
    obligations.append("method_ids_distinct")
    # (protocol ids need not be distinct inside a module: e.g. AuthenticationServer / AuthenticationServerNX are
    #  alternatives for id 10; `register_server` rejects a second server with the same id at run time)
    L.append("theorem protocol_ids_fit : all.all (fun s => decide (s.protocol < 65536)) = true := by decide +kernel")
    obligations.append("protocol_ids_fit")
    L.append("theorem method_ids_fit : all.all (fun s => s.methods.all fun m => decide (m.id < 32768)) = true := by decide +kernel")
    obligations.append("method_ids_fit")
    L += ["", "end NxGen.C11", ""]
    return "\n".join(L), obligations


if __name__ == "__main__":
    import sys, json
    servers, problems = extract_all(sys.argv[1] if len(sys.argv) > 1 else "/repo")
    print(len(servers), "servers", sum(len(s["methods"]) for s in servers), "methods", len(problems), "problems")
    for p in problems[:20]: print("  ", p)
    print(lean_table(servers)[0][:1500])
