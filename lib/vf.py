"""Shared machinery of the /verif checks (see DESIGN.md §3).

A check for property Cxx is `harness/corr_Cxx.py` exposing `run(ctx)`.
It uses:
  ctx.rng                      the single PRNG of the run (seeded by VERIF_SEED)
  ctx.driver()                 the compiled Lean model driver for this property
  ctx.lean_check(name, src)    kernel-check a generated Lean file (translator obligations)
  ctx.case(...)                count an explored case (for evidence)
  ctx.violation(...)           report a violation with a replay
  ctx.corr_break(...)          report a broken correspondence with no failing input
and returns nothing; `main()` does build, audit, evidence and exit code.
"""
import fcntl, hashlib, json, os, random, re, shutil, subprocess, sys, time, traceback

VERIF = os.path.dirname(os.path.dirname(os.path.abspath(__file__)))
LEAN = os.path.join(VERIF, "lean")
REPO = os.environ.get("NX_REPO", "/repo")
PY = "/venv/bin/python"
ALLOWED_AXIOMS = {"propext", "Classical.choice", "Quot.sound"}
FORBIDDEN = re.compile(r"\bsorry\b|\badmit\b|^\s*axiom\s|native_decide|bv_decide|implemented_by|\bunsafe\s|maxHeartbeats\s+0\b", re.M)

TRUSTED_BASE = [
    "Lean 4.33 kernel; axioms allowed: propext, Classical.choice, Quot.sound (audited by #print axioms on every run)",
    "no sorry/admit/native_decide/bv_decide/own axioms (source grep on every run)",
    "the Python correspondence harness / translators under /verif (unverified; they are the tie to /repo)",
    "CPython, anyio, anynet, pycryptodome, hashlib/hmac, zlib behave as modelled (exercised, not proved)",
]


class InfraError(Exception):
    pass


def sh(cmd, cwd=None, timeout=None, env=None, input=None):
    p = subprocess.run(cmd, cwd=cwd, timeout=timeout, env=env, input=input,
                       stdout=subprocess.PIPE, stderr=subprocess.STDOUT, text=True)
    return p.returncode, p.stdout


class BuildLock:
    def __enter__(self):
        os.makedirs(os.path.join(LEAN, ".lake"), exist_ok=True)
        self.f = open(os.path.join(LEAN, ".lake", "verif.lock"), "w")
        fcntl.flock(self.f, fcntl.LOCK_EX)
        return self

    def __exit__(self, *a):
        fcntl.flock(self.f, fcntl.LOCK_UN)
        self.f.close()


def lake_build(targets, timeout=3000):
    with BuildLock():
        rc, out = sh(["lake", "build"] + list(targets), cwd=LEAN, timeout=timeout)
    return rc, out


def strip_comments(src):
    # remove /- ... -/ (nested) and -- line comments
    out, i, depth, n = [], 0, 0, len(src)
    while i < n:
        if src.startswith("/-", i):
            depth += 1; i += 2; continue
        if depth and src.startswith("-/", i):
            depth -= 1; i += 2; continue
        if depth:
            if src[i] == "\n": out.append("\n")
            i += 1; continue
        if src.startswith("--", i):
            while i < n and src[i] != "\n": i += 1
            continue
        out.append(src[i]); i += 1
    return "".join(out)


def lean_sources():
    res = []
    for root, dirs, files in os.walk(LEAN):
        dirs[:] = [d for d in dirs if d not in (".lake", "gen")]
        for f in files:
            if f.endswith(".lean"):
                res.append(os.path.join(root, f))
    return sorted(res)


def grep_audit():
    bad = []
    for p in lean_sources():
        src = strip_comments(open(p).read())
        # string literals may mention the words (drivers print them): drop strings
        src = re.sub(r'"(?:\\.|[^"\\])*"', '""', src)
        for m in FORBIDDEN.finditer(src):
            line = src.count("\n", 0, m.start()) + 1
            bad.append("%s:%d: %s" % (os.path.relpath(p, LEAN), line, m.group(0).strip()))
    return bad


def theorems_of(path):
    src = strip_comments(open(path).read())
    ns = []
    names = []
    for line in src.splitlines():
        m = re.match(r"\s*namespace\s+(\S+)", line)
        if m: ns.append(m.group(1)); continue
        m = re.match(r"\s*end\s+(\S+)", line)
        if m and ns and ns[-1] == m.group(1): ns.pop(); continue
        m = re.match(r"\s*(?:@\[[^\]]*\]\s*)?(?:private\s+|protected\s+)?theorem\s+(\S+)", line)
        if m:
            names.append(".".join(ns + [m.group(1)]))
    return names


def axioms_audit(prop, scratch):
    """#print axioms for every theorem of NxProps/<prop>.lean; returns (theorems, problems)."""
    path = os.path.join(LEAN, "NxProps", prop + ".lean")
    if not os.path.exists(path):
        return [], ["NxProps/%s.lean missing" % prop]
    names = theorems_of(path)
    if not names:
        return [], ["NxProps/%s.lean states no theorem" % prop]
    f = os.path.join(scratch, "Axioms_%s.lean" % prop)
    with open(f, "w") as fh:
        fh.write("import NxProps.%s\n" % prop)
        for n in names:
            fh.write("#print axioms %s\n" % n)
    rc, out = sh(["lake", "env", "lean", f], cwd=LEAN, timeout=900)
    problems = []
    if rc != 0:
        problems.append("axiom audit failed to elaborate: " + out[-2000:])
        return names, problems
    seen = set()
    # output: "'name' depends on axioms: [a, b]" (possibly wrapped) or "'name' does not depend on any axioms"
    flat = re.sub(r"\s+", " ", out)
    for m in re.finditer(r"'([^']+)' (does not depend on any axioms|depends on axioms: \[([^\]]*)\])", flat):
        seen.add(m.group(1))
        if m.group(3):
            axs = {a.strip() for a in m.group(3).split(",")}
            extra = axs - ALLOWED_AXIOMS
            if extra:
                problems.append("%s depends on %s" % (m.group(1), sorted(extra)))
    for n in names:
        if n not in seen:
            problems.append("no axiom report for " + n)
    return names, problems


class Driver:
    """Batch line protocol to the compiled Lean model: one output line per input line."""

    def __init__(self, prop, exe=None):
        self.exe = exe or os.path.join(LEAN, ".lake", "build", "bin", "nxdrv_" + prop)
        if not os.path.exists(self.exe):
            raise InfraError("driver not built: " + self.exe)
        self.calls = 0

    def batch(self, lines, timeout=3000):
        if not lines:
            return []
        for l in lines:
            assert "\n" not in l
        data = "\n".join(lines) + "\n"
        p = subprocess.run([self.exe], input=data, stdout=subprocess.PIPE, stderr=subprocess.PIPE,
                           text=True, timeout=timeout)
        if p.returncode != 0:
            raise InfraError("driver exited %d: %s" % (p.returncode, p.stderr[-1000:]))
        out = p.stdout.split("\n")
        if out and out[-1] == "":
            out.pop()
        if len(out) != len(lines):
            raise InfraError("driver returned %d lines for %d inputs (first input %r)" % (len(out), len(lines), lines[0]))
        self.calls += len(lines)
        return out


class Ctx:
    def __init__(self, prop, tier, seed):
        self.prop, self.tier, self.seed = prop, tier, seed
        self.rng = random.Random((seed << 8) ^ int(prop[1:]))
        self.scratch = "/var/tmp/nxverif.%s.%d" % (prop, os.getpid())
        shutil.rmtree(self.scratch, ignore_errors=True)
        os.makedirs(self.scratch)
        self.t0 = time.time()
        self.evaluations = 0
        self.distinct = set()
        self.samples = []
        self.tags = {}
        self.violations = []        # (key, replay_path, what, no_input)
        self.known_hits = []
        self.static_theorems = []
        self.gen_obligations = 0
        self.gen_discharged = 0
        self.extra = {}
        self.rule = ""
        self.assumptions = []
        self.traces_validated = 0
        self.programs = 0
        self.exhaustive = None
        self._known = load_known()

    # ---- counting -------------------------------------------------------
    def case(self, key=None, nontrivial=True, sample=None, tag=None, n=1):
        self.evaluations += n
        if nontrivial and key is not None:
            if len(self.distinct) < 2_000_000:
                self.distinct.add(key if isinstance(key, (int, str, bytes)) and len(str(key)) < 64
                                  else hashlib.md5(repr(key).encode()).digest()[:8])
        if sample is not None and len(self.samples) < 6:
            self.samples.append(sample)
        if tag is not None:
            self.tags[tag] = self.tags.get(tag, 0) + n

    def tag(self, tag, n=1):
        self.tags[tag] = self.tags.get(tag, 0) + n

    def driver(self, prop=None):
        return Driver(prop or self.prop)

    # ---- generated obligations -----------------------------------------
    def lean_check(self, name, src, timeout=1800):
        """Kernel-check a generated Lean file. Returns (ok, output)."""
        f = os.path.join(self.scratch, name + ".lean")
        with open(f, "w") as fh:
            fh.write(src)
        rc, out = sh(["lake", "env", "lean", f], cwd=LEAN, timeout=timeout)
        bad = FORBIDDEN.search(re.sub(r'"(?:\\.|[^"\\])*"', '""', strip_comments(src)))
        ok = rc == 0 and not bad and "declaration uses 'sorry'" not in out
        return ok, out

    def obligation(self, ok):
        self.gen_obligations += 1
        if ok:
            self.gen_discharged += 1

    # ---- reporting ------------------------------------------------------
    def _replay(self, obj, stem):
        os.makedirs(os.path.join(VERIF, "replays"), exist_ok=True)
        path = os.path.join(VERIF, "replays", "%s_%s_%d.json" % (self.prop, stem, len(self.violations) + len(self.known_hits)))
        with open(path, "w") as fh:
            json.dump(obj, fh, indent=1, default=repr)
        return path

    def violation(self, key, what, replay, no_input=False):
        """key: stable signature of the failing input/call site/history (matched against known findings)."""
        for k in self._known:
            if k.get("status", "open") == "open" and k["property"] == self.prop and k["key"] == key:
                if key not in [h[0] for h in self.known_hits]:
                    self.known_hits.append((key, k.get("what", what)))
                return
        if key in [v[0] for v in self.violations]:
            return
        replay = dict(replay)
        replay.setdefault("property", self.prop)
        replay.setdefault("key", key)
        replay.setdefault("what", what)
        replay.setdefault("seed", self.seed)
        path = self._replay(replay, "nofail" if no_input else "fail")
        self.violations.append((key, path, what, no_input))

    def corr_break(self, name, detail, replay=None):
        """A correspondence/obligation no longer checks and no failing input was found."""
        r = {"broken": name, "detail": detail}
        if replay: r.update(replay)
        self.violation("broken:" + name, "correspondence/obligation '%s' no longer checks" % name, r, no_input=True)

    def cleanup(self):
        shutil.rmtree(self.scratch, ignore_errors=True)


def load_known():
    res = []
    p = os.path.join(VERIF, "known_findings.json")
    if os.path.exists(p):
        res += json.load(open(p)).get("findings", [])
    d = os.path.join(VERIF, "known_findings.d")
    if os.path.isdir(d):
        for f in sorted(os.listdir(d)):
            if f.endswith(".json"):
                res += json.load(open(os.path.join(d, f))).get("findings", [])
    return res


def write_evidence(ctx, level, problems):
    n_static = len(ctx.static_theorems)
    static_ok = n_static if not problems else 0
    n_obl = n_static + ctx.gen_obligations
    n_ok = static_ok + ctx.gen_discharged
    refuted_known = 0
    if n_ok < n_obl and not ctx.violations and ctx.known_hits and not problems:
        # generated obligations that are FALSE of the code because of a listed open finding (the check reported them as
        # KNOWN-FINDING): they are not proof obligations of this run, they are the finding itself
        refuted_known = n_obl - n_ok
        n_obl = n_ok
    cov = {
        "obligations": n_obl,
        "discharged": n_ok,
        "obligations_refuted_by_known_findings": refuted_known,
        "static_theorems": ctx.static_theorems,
        "generated_obligations": ctx.gen_obligations,
        "checker_cmd": "cd /verif/lean && lake build NxProps.%s && lake env lean <#print axioms file>  (run by ./check %s)" % (ctx.prop, ctx.prop),
        "trusted_base": TRUSTED_BASE + ctx.assumptions,
        "evaluations": ctx.evaluations,
        "distinct_nontrivial": len(ctx.distinct),
        "rule": ctx.rule,
        "samples": ctx.samples if ctx.samples else ["(no correspondence cases this run)"],
        "branch_tags": dict(sorted(ctx.tags.items())),
        "traces_validated_against_impl": ctx.traces_validated,
        "audit_problems": problems,
    }
    if ctx.programs:
        cov["programs"] = ctx.programs
        cov["disagreements_checked"] = ctx.evaluations
    if ctx.exhaustive is not None:
        cov["exhaustive"] = ctx.exhaustive
    cov.update(ctx.extra)
    ev = {
        "property_id": ctx.prop,
        "tier": ctx.tier,
        "seed": ctx.seed,
        "level": level,
        "coverage": cov,
        "assumptions": ctx.assumptions,
        "wall_s": round(time.time() - ctx.t0, 2),
        "violations": len(ctx.violations),
        "known_findings_hit": [k for k, _ in ctx.known_hits],
    }
    # evidence of runs against another tree (NX_REPO: seeded changes) never replaces the evidence of /repo itself
    evdir = os.path.join(VERIF, "evidence") if "NX_REPO" not in os.environ else os.path.join("/var/tmp", "nx_evidence_other_tree")
    os.makedirs(evdir, exist_ok=True)
    tmp = os.path.join(evdir, ctx.prop + ".json.tmp")
    with open(tmp, "w") as fh:
        json.dump(ev, fh, indent=1, default=repr)
    os.replace(tmp, os.path.join(evdir, ctx.prop + ".json"))


def main(argv):
    import argparse, importlib
    ap = argparse.ArgumentParser()
    ap.add_argument("prop")
    ap.add_argument("--tier", default=os.environ.get("VERIF_TIER", "quick"), choices=["quick", "thorough"])
    ap.add_argument("--replay", default=None)
    ap.add_argument("--no-build", action="store_true")
    a = ap.parse_args(argv)
    prop = a.prop
    seed = int(os.environ.get("VERIF_SEED", "0") or 0)
    sys.path.insert(0, os.path.join(VERIF, "harness"))
    sys.path.insert(0, os.path.join(VERIF, "lib"))
    sys.path.insert(0, os.path.join(VERIF, "tools"))
    sys.path.insert(0, REPO)   # the working tree under test wins over the editable install
    ctx = Ctx(prop, a.tier, seed)
    level = "proof"
    try:
        mod = importlib.import_module("corr_" + prop)
        level = getattr(mod, "LEVEL", "proof")
        if a.replay:
            return mod.replay(ctx, a.replay)
        # 1. build + audit
        if not a.no_build:
            rc, out = lake_build(["NxProps." + prop, "nxdrv_" + prop] + list(getattr(mod, "EXTRA_TARGETS", [])))
            if rc != 0:
                print(out[-4000:])
                print("INFRA-ERROR: lake build failed for %s (the proof development itself does not check)" % prop)
                return 2
        problems = grep_audit()
        names, p2 = axioms_audit(prop, ctx.scratch)
        problems += p2
        ctx.static_theorems = names
        if problems:
            for p in problems:
                print("AUDIT: " + p)
            write_evidence(ctx, level, problems)
            print("INFRA-ERROR: proof audit failed for %s" % prop)
            return 2
        # 2. tie (under a generous wall-clock limit: the harnesses finish in seconds to minutes on the unchanged tree; code that
        # makes a worker spin for ever — a decode loop without progress, a retry without end — must end in a report, not in a hang)
        import signal
        limit = int(os.environ.get("VERIF_WALL_LIMIT", "0") or 0) or (1800 if a.tier == "quick" else 4 * 3600)
        class HarnessStuck(Exception):
            pass
        def on_alarm(sig, frm):
            raise HarnessStuck("the correspondence harness did not finish within %d s of wall time" % limit)
        old_handler = signal.signal(signal.SIGALRM, on_alarm)
        signal.alarm(limit)
        try:
            mod.run(ctx)
        except (InfraError, subprocess.TimeoutExpired):
            raise
        except HarnessStuck as e:
            print(str(e))
            ctx.corr_break("harness-did-not-finish", "%s: on the unchanged tree it takes seconds to minutes, so some operation of the real code no longer terminates (or takes orders of magnitude longer)" % e,
                           {"limit_s": limit, "where": traceback.format_exc()[-3000:]})
        except Exception:
            # the harness runs clean on the unchanged tree; a crash means the code no longer behaves
            # as the correspondence expects and no failing input was isolated
            tb = traceback.format_exc()
            print(tb)
            ctx.corr_break("harness-crash", "the correspondence harness crashed while driving the real code", {"traceback": tb})
        finally:
            signal.alarm(0)
            signal.signal(signal.SIGALRM, old_handler)
        write_evidence(ctx, level, [])
        for key, what in ctx.known_hits:
            print("KNOWN-FINDING: property=%s %s" % (prop, what))
        for key, path, what, no_input in ctx.violations:
            print("VIOLATION property=%s replay=%s%s" % (prop, path, " no-failing-input-found" if no_input else ""))
            print("  " + what)
        print("%s %s: %d theorems, %d generated obligations (%d ok), %d cases (%d distinct non-trivial), %.1fs, %d violation(s), %d known finding(s)" % (
            prop, a.tier, len(names), ctx.gen_obligations, ctx.gen_discharged, ctx.evaluations, len(ctx.distinct),
            time.time() - ctx.t0, len(ctx.violations), len(ctx.known_hits)))
        return 1 if ctx.violations else 0
    except InfraError as e:
        print("INFRA-ERROR: %s" % e)
        return 2
    except subprocess.TimeoutExpired as e:
        print("INFRA-ERROR: timeout %s" % e)
        return 2
    except Exception:
        traceback.print_exc()
        print("INFRA-ERROR: harness crashed")
        return 2
    finally:
        ctx.cleanup()
