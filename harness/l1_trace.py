"""Turns a simulated session (prudp_session.run_session) into op lines for the Lean L1 endpoint driver
(lean/Driver/C02.lean) plus, per endpoint, the stream of datagrams the real endpoint emitted.

The model must reproduce every emitted datagram byte for byte at the same virtual instant, for the client
transport and for the server transport separately; deliveries, EOFs and handshake outcome are compared as sequences.
"""
import datetime
from sim import ticks
import prudp_session as ps


def tz_offset():
    d = datetime.datetime(2023, 11, 14, 12, 0, 0)
    return int(round((d - datetime.datetime.utcfromtimestamp(d.timestamp())).total_seconds()))


def env_line(name, cfg, s):
    tr = {"udp": 0, "lite": 2}[cfg.transport]
    return "env %s %d %d %d %d %d %s %d %d %d %d %d %d %d %d %d %d %d %d" % (
        name, tr, cfg.version, cfg.v0[0], cfg.v0[2], cfg.v0[1],
        s["prudp.access_key"].encode().hex() or "-", cfg.fragment_size,
        ticks(cfg.resend_timeout), cfg.resend_limit, ticks(cfg.ping_timeout), cfg.max_substream,
        s["prudp.supported_functions"], s["prudp.minor_version"], cfg.pid_size, cfg.key_size,
        s["kerberos.ticket_version"], int(sess_epoch[0]), tz_offset())


sess_epoch = [1_700_000_000]


def hx(b):
    return b.hex() if b else "-"


def build(sess, name="x"):
    """returns (lines, kinds, real) where kinds[i] describes line i ('setup'|'op'|'advance'), and
    real = {'c': [(tick, dest, hex)], 's': [...]} the datagrams each endpoint really emitted, in order;
    plus expected deliveries."""
    cfg = sess.cfg
    if cfg.transport != "udp":
        return None
    sess_epoch[0] = sess.epoch
    caddr, saddr = sess.addr.get("c"), sess.addr["s"]
    if caddr is None:
        return None
    E, ES = name + "envc", name + "envs"
    C, S = name + "c", name + "s"
    cfg_s = getattr(sess, "cfg_s", cfg)
    lines = [env_line(E, cfg, sess.settings), env_line(ES, cfg_s, getattr(sess, "settings_s", sess.settings)),
             "cli %s %s %s %d %s %d" % (C, E, caddr[0], caddr[1], saddr[0], saddr[1]),
             "srv %s %s %s %d 0" % (S, ES, saddr[0], saddr[1]),
             "bind %s 1 10 %s" % (S, getattr(sess, "server_key", b"server key").hex() if cfg_s.credentials else "none")]
    kinds = [("setup", None)] * 5
    real = {"c": [], "s": []}
    srv_key = "%s:%d:%d:%d" % (caddr[0], caddr[1], 15, 10)
    rc = sess.rnd.get("c")
    rs = sess.rnd.get("s", (1, 0, 0))
    creds = sess.creds
    first_connect_seen = False

    def add(line, kind):
        lines.append(line); kinds.append(kind)

    cut = None
    for e in sess.netlog:
        if e[0] == "app" and e[3] == "reconnect":
            cut = e[1]; break
    for e in sess.netlog:
        k = e[0]
        if cut is not None and k in ("tx", "rx") and e[2] >= cut:
            continue
        if k == "tx":
            _, n, t, src, dst, data, delays = e
            side = "c" if src == caddr else "s"
            real[side].append((ticks(t), "%s:%d" % dst, hx(data)))
        elif k == "rx":
            _, n, t, src, dst, data, alive = e
            if not alive:
                continue
            if dst == caddr and src != saddr:
                continue        # a connected UDP socket hands the application datagrams of its peer's address only (FakeUDPClient._deliver)
            if dst == caddr:
                # timers due strictly before t fire first; on an exact tie the datagram is handled first (shorter wake-up path)
                add("advance %s %d" % (C, ticks(t) - 1), ("advance", "c"))
                add("dgram %s %d %s %d %s" % (C, ticks(t), src[0], src[1], hx(data)), ("op", "c", ticks(t)))
            elif dst == saddr:
                add("advance %s %d" % (S, ticks(t) - 1), ("advance", "s"))
                add("dgram %s %d %s %d %s %d %d %d" % (S, ticks(t), src[0], src[1], hx(data), rs[0], rs[1], rs[2]), ("op", "s", ticks(t)))
        elif k == "inject":
            pass
        elif k == "app":
            _, t, side, op, sub, data = e
            tk = ticks(t)
            if op == "connect":
                if rc is None:
                    # the connection attempt failed before the harness could read the client's random values
                    rc = getattr(sess, "rnd_c_fallback", None)
                    if rc is None:
                        return None
                if creds is None:
                    cr = "none"
                else:
                    cr = "%d %d %s %s" % (creds.pid, creds.cid, hx(creds.ticket.session_key), hx(creds.ticket.internal))
                add("connect %s %d 1 10 %d %d %d %s" % (C, tk, rc[0], rc[1], rc[2], cr), ("op", "c", tk))
            elif op == "connected" and side == "c" and not any(x[0] == "app" and x[3] in ("send", "sendu", "preset", "close", "disconnect", "closed", "done", "raised")
                                                                 for x in sess.netlog[:sess.netlog.index(e)]):
                # the client's handshake() has returned: are the two MODEL endpoints in the state the end-to-end theorems start from?
                # (`establishedB`, both directions, every substream; the line changes nothing; only when no application call came before -
                # a server handler that greets at once has already put data on the wire, which `Established` excludes)
                add("est %s %s %s" % (C, S, srv_key), ("probe", "c", tk))
            elif op in ("send", "sendu"):
                ep, conn = (C, "c") if side == "c" else (S, srv_key)
                # an application call at instant t runs after the timers due at t (it is usually their consequence:
                # e.g. the send that follows an EOF); scripts avoid accidental coincidences with timer instants
                add("advance %s %d" % (ep, tk), ("advance", side))
                if op == "send":
                    add("send %s %d %s %d %s" % (ep, tk, conn, sub, hx(data)), ("op", side, tk))
                else:
                    add("sendu %s %d %s %s" % (ep, tk, conn, hx(data)), ("op", side, tk))
            elif op == "preset":
                # white-box preset of the sequence space (wrap tests): mirrored in the model
                ep, conn = (C, "c") if side == "c" else (S, srv_key)
                add("preset %s %s %d %d" % (ep, conn, sub, data), ("setup2", None))
            elif op == "reconnect":
                break      # a second transport from the same address: outside this trace
            elif op == "close":
                ep, conn = (C, "c") if side == "c" else (S, srv_key)
                add("advance %s %d" % (ep, tk), ("advance", side))
                add("close %s %d %s" % (ep, tk, conn), ("op", side, tk))
            elif op == "disconnect":
                add("advance %s %d" % (C, tk), ("advance", "c"))
                add("disconnect %s %d c" % (C, tk), ("op", "c", tk))
            elif op == "closed":
                add("advance %s %d" % (C, tk), ("advance", "c"))
                add("aexit %s %d c" % (C, tk), ("op", "c", tk))
            elif op == "done":
                add("advance %s %d" % (S, tk), ("advance", "s"))
                add("done %s %d %s" % (S, tk, srv_key), ("op", "s", tk))
            elif op == "raised":
                # the server application's handler ended with an exception: `async with client` runs cleanup() (no DISCONNECT is
                # sent), start_client swallows the exception and forgets the peer
                add("advance %s %d" % (S, tk), ("advance", "s"))
                add("aexit %s %d %s" % (S, tk, srv_key), ("op", "s", tk))
                add("done %s %d %s" % (S, tk, srv_key), ("op", "s", tk))
    end = ticks(cut) - 1 if cut is not None else ticks(sess.end_time)
    add("advance %s %d" % (C, end), ("advance", "c"))
    add("advance %s %d" % (S, end), ("advance", "s"))
    return lines, kinds, real


def model_stream(lines, kinds, outs):
    """model's emitted datagrams per endpoint in order: [(tick, dest, hex)], plus other events"""
    tx = {"c": [], "s": []}
    other = {"c": [], "s": []}
    errs = []
    for line, kind, out in zip(lines, kinds, outs):
        if kind[0] == "probe":
            other.setdefault("probe", []).append((kind[2], out))
            continue
        if kind[0] in ("setup", "setup2"):
            if out != "ok":
                errs.append((line, out))
            continue
        side = kind[1]
        if out in ("-", "ok"):
            continue
        if out in ("bad-op", "no-conn"):
            errs.append((line, out)); continue
        for item in out.split(" ; "):
            if kind[0] == "advance":
                at, rest = item.split(" ", 1)
                tk = int(at[1:])
            else:
                tk, rest = kind[2], item
            parts = rest.split(" ")
            if parts[0] == "tx":
                tx[side].append((tk, parts[1], parts[2]))
            else:
                other[side].append((tk, rest))
    return tx, other, errs


def build_server(sess, name="m"):
    """op lines for the SERVER transport of a multi-client session (harness/multi_session.py), datagram transports only.
    Returns (lines, kinds, real_tx_of_server)."""
    spec = sess.spec
    if spec.transport != "udp":
        return None
    sess_epoch[0] = sess.epoch
    saddr = ps.SERVER
    cfg = ps.Cfg(transport="udp", version=spec.server_version, fragment_size=spec.fragment_size, resend_timeout=spec.resend_timeout,
                 resend_limit=spec.resend_limit, ping_timeout=spec.ping_timeout)
    ES, S = name + "envs", name + "s"
    lines = [env_line(ES, cfg, sess.settings_s), "srv %s %s %s %d 0" % (S, ES, saddr[0], saddr[1])]
    for vp in spec.vports:
        lines.append("bind %s %d 10 %s" % (S, vp, spec.key.hex() if getattr(spec, "key", None) else "none"))
    kinds = [("setup", None)] * len(lines)
    real = {"c": [], "s": []}
    rnd = (0x1234, 0xABCDEF01, 0x5A)

    def add(line, kind):
        lines.append(line); kinds.append(kind)

    for e in sess.netlog:
        k = e[0]
        if k == "tx":
            _, n, t, src, dst, data, delays = e
            if src == saddr:
                real["s"].append((ticks(t), "%s:%d" % dst, hx(data)))
        elif k == "rx":
            _, n, t, src, dst, data, alive = e
            if alive and dst == saddr:
                add("advance %s %d" % (S, ticks(t) - 1), ("advance", "s"))
                add("dgram %s %d %s %d %s %d %d %d" % (S, ticks(t), src[0], src[1], hx(data), rnd[0], rnd[1], rnd[2]), ("op", "s", ticks(t)))
        elif k == "app" and e[2] == "s":
            _, t, side, op, key, data = e
            tk = ticks(t)
            conn = "%s:%d:%d:%d" % (key[0][0], key[0][1], key[1], key[2])
            add("advance %s %d" % (S, tk), ("advance", "s"))
            if op == "send":
                add("send %s %d %s 0 %s" % (S, tk, conn, hx(data)), ("op", "s", tk))
            elif op == "done":
                add("done %s %d %s" % (S, tk, conn), ("op", "s", tk))
    add("advance %s %d" % (S, ticks(sess.end_time)), ("advance", "s"))
    return lines, kinds, real
