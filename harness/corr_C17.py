"""C17 — back-end login: the real client/servers in simulation vs the Lean `Backend.plan`, plus the property oracle.

Every configuration of the finite matrix (3 version bands x extra data x key derivation 0/1 x key size 16/32 x ticket
version 0/1 x pid size 4/8 x first ticket for the secure server y/n x advertised address real/0.0.0.1 x v0/v1/lite)
is run end to end (harness/backend_sim.py over harness/sim.py), then failure scripts and datagram loss on sub-matrices.
For each run: (a) correspondence — the called authentication methods with their arguments, the Kerberos key handed
to ClientTicket.decrypt, and the connection the client asks rmc.connect for (or the exception) must equal the model's
plan; (b) oracle — the property itself on the real code: a protocol-following script yields exactly one accepted
secure connection whose server-side pid, handler-observed pid and client-side pid are the issued pid, at the right
address, with request_ticket iff needed; every failure script yields an exception and no accepted connection.
"""
import itertools, multiprocessing, os, struct, sys
from concurrent.futures import ThreadPoolExecutor

LEVEL = "proof"

BANDS = [30000, 40000, 40400]
SUCCESS = 0x00010001


def base_case(i, version, extra, kd, key_size, tv, pid_size, ffs, placeholder, transport, rng_bytes):
    c = dict(version=version, extra=extra, kd=kd, key_size=key_size, ticket_version=tv, pid_size=pid_size,
             first_for_secure=ffs, placeholder=placeholder, transport=transport, seed=i,
             username="user%d" % (i % 7), password="pw%d" % i, server_password="pw%d" % i,
             session_key=rng_bytes[:key_size], client_version=3 + i % 5, cid=i % 3,
             pid=(1000 + i) if pid_size == 4 else ((1 << 40) + i))
    # when the login path reads a source key, give one in half of the cases, an empty one (-> password) in the others
    reads = (version >= 40400) or (version >= 40000 and extra)
    if reads and i % 2 == 0:
        c["source_key"] = rng_bytes[32:48]; c["source_key_text"] = c["source_key"].hex()
        if i % 4 == 0: c["password"] = None       # no password needed
    else:
        c["source_key"] = None; c["source_key_text"] = ""
    return c


def worker(c):
    import backend_sim
    try:
        return backend_sim.run_case(c)
    except BaseException as e:      # never lose a case silently
        return {"crash": repr(e)}


def script_tokens(c, obs_tickets):
    """the model's view of what the authentication server answers in this case"""
    import backend_sim as B
    from nintendo.nex import common
    first_ticket, second_ticket = obs_tickets
    fault = c.get("fault")
    err = lambda name: common.Result.error(name).code()
    placeholder = c["placeholder"]
    sid = c.get("sid", 2 if placeholder else 1)
    addr, port = ("0.0.0.1", 1) if placeholder else (B.SECURE_HOST, B.SECURE_PORT)
    if fault == "first-rmc-error":
        first = "fail %d" % err("Authentication::UnderMaintenance")
    elif fault == "first-error-result" and c["version"] >= 40400:
        first = "fail %d" % err("Authentication::ValidationFailed")
    else:
        res = err("Authentication::ValidationFailed") if fault == "first-error-result" else SUCCESS
        first = "resp %d %d %s %s %s %d %d %d %d" % (res, c["pid"], first_ticket.hex(), c["source_key_text"] or "~", addr, port, B.SECURE_PID, c.get("cid", 0), sid)
    if fault == "second-rmc-error":
        second = "fail %d" % err("Authentication::TokenExpired")
    else:
        second = "resp %d %s" % (err("Authentication::InvalidParam") if fault == "second-error-result" else SUCCESS, second_ticket.hex())
    return first, second


def plan_line(c, tickets):
    import backend_sim as B
    first, second = script_tokens(c, tickets)
    pw = "none" if c.get("password") is None else (c["password"].encode().hex() or "-")
    return "plan %d %d %d %d %d %s %d %s %s %d %s %s" % (c["version"], c.get("client_version", 7), c["kd"], c["key_size"], c["pid_size"],
                                                       B.AUTH_HOST, B.AUTH_PORT, c["username"], pw, 1 if c["extra"] else 0, first, second)


def tickets_for(c):
    """re-create exactly the tickets run_case's authentication server hands out (same seeds, same clock)"""
    import backend_sim as B
    from sim import Sim
    with Sim(c.get("seed", 0)) as sim:
        s = B.make_settings(c)
        return B.build_tickets(c, s, sim.rng, sim.clock.time())


def canon_obs(o):
    calls = "|".join(o["calls"])
    key = o["keys"][0] if o["keys"] else "none"
    if o["attempts"]:
        a = o["attempts"][0]
        out = "connect %s %d %d %d %d %s %s" % (a[0], a[1], a[2], a[3], a[4], a[5] or "-", a[6] or "-")
    else:
        out = o["error"] or "none"
    return calls, key, out


def canon_model(line):
    parts = line.split(" ; ")
    if len(parts) != 3: return None
    calls, key, out = parts
    key = "none" if key == "none" else key.split(" ")[-1]
    return calls, key, out


FAILURES = ["wrong-password", "no-password", "first-error-result", "first-rmc-error", "second-error-result", "second-rmc-error",
            "garbled-ticket", "garbled-second", "stale", "wrong-server-key", "wrong-source", "bad-source-key-hex"]


def run(ctx):
    rng = ctx.rng
    quick = ctx.tier == "quick"
    drv = ctx.driver()
    ctx.rule = ("one case = one end-to-end login in the deterministic simulation (real backend.connect/login, real generated "
                "Authentication(NX)Server scripted per case, real secure rmc.serve with a key); the 1152-point configuration matrix is exhaustive, "
                "failure scripts (%d kinds) and first-copy datagram loss run on sub-matrices; each is compared with the Lean plan and judged by the property oracle" % len(FAILURES))
    cases = []
    i = 0
    for version, extra, kd, key_size, tv, pid_size, ffs, placeholder, transport in itertools.product(
            BANDS, [False, True], [0, 1], [16, 32], [0, 1], [4, 8], [True, False], [False, True], ["v0", "v1", "lite"]):
        i += 1
        c = base_case(i, version, extra, kd, key_size, tv, pid_size, ffs, placeholder, transport, rng.randbytes(64))
        c["kind"] = "matrix"
        cases.append(c)
    n_matrix = len(cases)
    # the exact band boundaries
    for version, extra, ffs, placeholder in itertools.product([0, 39999, 40399, 40401, 50000], [False, True], [True, False], [False, True]):
        i += 1
        c = base_case(i, version, extra, rng.choice([0, 1]), rng.choice([16, 32]), rng.choice([0, 1]), rng.choice([4, 8]), ffs, placeholder,
                      rng.choice(["v0", "v1", "lite"]), rng.randbytes(64))
        c["kind"] = "matrix"
        cases.append(c)
    # failure scripts: every kind x band x extra x first-ticket y/n (+ transports / remaining axes drawn at random)
    for fault, version, extra, ffs in itertools.product(FAILURES, BANDS, [False, True], [True, False]):
        reps = 1 if quick else 4
        for _ in range(reps):
            i += 1
            c = base_case(i, version, extra, rng.choice([0, 1]), rng.choice([16, 32]), rng.choice([0, 1]), rng.choice([4, 8]), ffs,
                          rng.random() < 0.5, rng.choice(["v0", "v1", "lite"]), rng.randbytes(64))
            reads = (version >= 40400) or (version >= 40000 and extra)
            if fault in ("second-error-result", "second-rmc-error", "garbled-second") and ffs: continue      # never asked
            if fault in ("wrong-password", "no-password") and c["source_key"]: c["source_key"] = None; c["source_key_text"] = ""
            if fault == "wrong-password": c["password"] = c["server_password"] + "x"
            elif fault == "no-password": c["password"] = None
            elif fault == "bad-source-key-hex":
                if not reads: continue
                c["source_key"] = None; c["source_key_text"] = rng.choice(["zz", "abc", "0g", "12 3"]).replace(" ", "")
            else: c["fault"] = fault
            if c.get("password") is None and not c["source_key"] and fault != "no-password": c["password"] = c["server_password"]
            c["kind"] = "fail:" + fault
            cases.append(c)
    # first copy of every datagram lost (both handshakes retransmit)
    for version, ffs, transport, placeholder in itertools.product(BANDS, [True, False], ["v0", "v1"], [False, True]):
        i += 1
        c = base_case(i, version, rng.random() < 0.5, 1, 32, 1, 4, ffs, placeholder, transport, rng.randbytes(64))
        c["loss"] = True; c["kind"] = "loss"
        cases.append(c)

    with multiprocessing.get_context("fork").Pool(min(16, os.cpu_count() or 4)) as pool:
        observations = pool.map(worker, cases, chunksize=8)
    crashes = [(c, o) for c, o in zip(cases, observations) if "crash" in o]
    if crashes:
        ctx.corr_break("simulation-crash", "the simulation harness crashed on %d cases: %s" % (len(crashes), crashes[0][1]["crash"]), {"case": _jsonable(crashes[0][0])})
        return
    lines = [plan_line(c, tuple(bytes.fromhex(t) for t in o["tickets"])) for c, o in zip(cases, observations)]
    # the Lean side does 65000+ MD5 per old-style derivation: split the batch over a few driver processes
    nchunk = 12
    chunks = [lines[k::nchunk] for k in range(nchunk)]
    with ThreadPoolExecutor(nchunk) as ex:
        outs_chunks = list(ex.map(lambda ch: drv.batch(ch) if ch else [], chunks))
    outs = [None] * len(lines)
    for k, oc in enumerate(outs_chunks):
        outs[k::nchunk] = oc

    diffs, fails = [], []
    for c, o, line, model in zip(cases, observations, lines, outs):
        kind = c["kind"]
        mc = canon_model(model)
        oc = canon_obs(o)
        ctx.case(key=(kind, c["version"], c["extra"], c["kd"], c["key_size"], c["ticket_version"], c["pid_size"], c["first_for_secure"], c["placeholder"], c["transport"], c.get("fault"), c["seed"]),
                 nontrivial=True, tag=kind + ":" + (mc[2].split(" ")[0] if mc else "bad-op") + (":second" if mc and "requestTicket" in mc[0] else ""),
                 sample={"case": {k: (v.hex() if isinstance(v, bytes) else v) for k, v in c.items() if k not in ("session_key",)}, "model": model[:200], "observed": list(oc)} if ctx.evaluations % 331 == 0 else None)
        if mc != oc:
            diffs.append((c, o, model, oc))
        # ---- the property on the real code
        why = None
        if kind in ("matrix", "loss"):
            import backend_sim as B
            exp_addr = (B.AUTH_HOST, B.AUTH_PORT) if c["placeholder"] else (B.SECURE_HOST, B.SECURE_PORT)
            sid = 2 if c["placeholder"] else 1
            if o["error"] is not None: why = "login through a protocol-following server failed: %s" % o["error"]
            elif len(o["accepts"]) != 1: why = "expected exactly one accepted secure connection, saw %r" % (o["accepts"],)
            elif o["accepts"][0][2] != c["pid"]: why = "secure server authenticated pid %r, issued %r" % (o["accepts"][0][2], c["pid"])
            elif o["handler_pids"] != [c["pid"]] or o["probe"] != c["pid"]: why = "secure server's handler observed pid %r, issued %r" % (o["handler_pids"], c["pid"])
            elif o["client_pid"] != c["pid"]: why = "client-side pid() is %r, issued %r" % (o["client_pid"], c["pid"])
            elif tuple(o["accepts"][0][0]) != exp_addr or o["accepts"][0][1] != sid: why = "connected to %r stream %r, expected %r stream %r" % (o["accepts"][0][0], o["accepts"][0][1], exp_addr, sid)
            elif any(x.startswith("requestTicket") for x in o["calls"]) != (not c["first_for_secure"]): why = "request_ticket issued=%r but first ticket for secure server=%r" % (o["calls"], c["first_for_secure"])
            elif not c["first_for_secure"] and "requestTicket %d %d" % (c["pid"], B.SECURE_PID) not in o["calls"]: why = "request_ticket called with %r" % (o["calls"],)
        else:
            if o["error"] is None or o["accepts"] or o["handler_pids"]:
                why = "failure script '%s' still produced a connection: error=%r accepts=%r" % (kind, o["error"], o["accepts"])
        if why:
            fails.append((c, o, why))
    ctx.traces_validated = len(cases)
    ctx.exhaustive = True
    ctx.extra["matrix_configurations"] = n_matrix
    ctx.extra["failure_script_runs"] = sum(1 for c in cases if c["kind"].startswith("fail"))
    ctx.extra["loss_runs"] = sum(1 for c in cases if c["kind"] == "loss")
    ctx.extra["correspondence_diffs"] = len(diffs)
    ctx.extra["oracle_failures"] = len(fails)
    for c, o, why in fails[:25]:
        key = "backend:%s:v%d:extra=%d:ffs=%d:placeholder=%d" % (c["kind"], c["version"], c["extra"], c["first_for_secure"], c["placeholder"])
        ctx.violation(key, why, {"case": _jsonable(c), "observed": _jsonable(o), "how": "harness/backend_sim.run_case(case)"})
    if diffs and not ctx.violations and not ctx.known_hits:
        c, o, model, oc = diffs[0]
        ctx.corr_break("backend-plan-correspondence", "real BackEndClient.login and Lean plan disagree on %d of %d runs" % (len(diffs), len(cases)),
                       {"case": _jsonable(c), "model": model, "observed": list(oc), "theorems_no_longer_tied": ["Nx.C17.connect_credentials", "Nx.C17.second_ticket_iff", "Nx.C17.dispatch_old"]})


def replay(ctx, path):
    import json, backend_sim
    r = json.load(open(path))
    c = r["case"]
    for k in ("session_key", "source_key"):
        if isinstance(c.get(k), str): c[k] = bytes.fromhex(c[k])
    print(backend_sim.run_case(c))
    return 0


def _jsonable(d):
    return {k: (v.hex() if isinstance(v, bytes) else v) for k, v in d.items()}
