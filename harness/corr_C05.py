"""C05 — a keyed server admits exactly holders of a valid, fresh ticket.

Tie + oracle: real client and keyed real server in the simulation, one session per case: the honest parameter matrix,
ticket ages around 120 s in three time zones, every truncation and single-byte mutation of the ticket and of the
encrypted request, wrong keys, mismatched user ids, replayed CONNECT packets, and crafted server responses.
Oracle on the real code: a server-side connection exists and the handler runs iff the case is an honest, fresh one,
the handler observes exactly the ticket's user id, and the client completes iff the response is the incremented check.
Every UDP session is replayed through the Lean L1 model (byte- and tick-exact)."""
import multiprocessing, os, random, struct, time, traceback
import prudp_session as ps
import l1_corr

LEVEL = "proof"
EXTRA_TARGETS = ["nxdrv_C02", "nxdrv_C15"]
SERVER_KEY = b"server key"


def creds_factory(case):
    from nintendo.nex import kerberos, common
    def fn(s, rng, sim):
        age = case.get("age", 0)
        pid = case.get("pid", 1000)
        sk = rng.randbytes(s["kerberos.key_size"])
        t = kerberos.ServerTicket()
        t.timestamp = common.DateTime.fromtimestamp(sim.epoch - age)
        t.source = case.get("ticket_pid", pid)
        t.session_key = sk
        internal = t.encrypt(case.get("ticket_key", SERVER_KEY), s)
        m = case.get("ticket_mut")
        if m:
            if m[0] == "trunc": internal = internal[:m[1]]
            elif m[0] == "byte":
                b = bytearray(internal); b[m[1] % len(b)] ^= m[2]; internal = bytes(b)
            elif m[0] == "append": internal = internal + bytes(m[1])
            elif m[0] == "empty": internal = b""
        ct = kerberos.ClientTicket()
        ct.session_key = sk if not case.get("client_wrong_sk") else bytes(len(sk))
        ct.target = 1001
        ct.internal = internal
        return kerberos.Credentials(ct, pid, 2000), ct.session_key
    return fn


def mitm_setup(case):
    """rewrite the CONNECT request on the wire (re-signed: a CONNECT carries no secret signature) or the CONNECT/ACK"""
    from nintendo.nex import prudp
    def setup(sim, out):
        if case.get("check_value") is not None:
            # the client's random connection check at a boundary of its 32 bits (the response is check + 1 modulo 2^32)
            sim.prudp_rand.force = {0xFFFFFFFF: case["check_value"]}
        if case.get("ack_lost") or case.get("connect_dup"):
            # the network loses the first CONNECT acknowledgement(s) (the client retransmits its CONNECT to a server that has already
            # created the connection) or delivers the CONNECT twice: a valid fresh request must still be answered with check + 1
            sel = prudp.PRUDPMessageSelector(out.settings_s)
            orig0 = sim.net.fate
            st0 = {"lost": 0, "dup": False}
            def fate0(tx):
                try:
                    pk = sel.decode(tx.data)
                except Exception:
                    pk = []
                if len(pk) == 1 and pk[0].type == 1:
                    if pk[0].flags & 1 and tx.src == ps.SERVER and st0["lost"] < case.get("ack_lost", 0):
                        st0["lost"] += 1
                        return []
                    if not pk[0].flags & 1 and tx.dst == ps.SERVER and case.get("connect_dup") and not st0["dup"]:
                        st0["dup"] = True
                        sim.net.inject(tx.src, tx.dst, tx.data, 0.006)
                return orig0(tx)
            sim.net.fate = fate0
            return
        if not (case.get("req_mut") or case.get("resp") or case.get("replay") or case.get("other_user")):
            return
        s = out.settings_s
        enc = prudp.PRUDPMessageV1(s)
        net = sim.net
        orig = net.fate
        state = {"connect": None}
        def fate(tx):
            try:
                pk = enc.decode(tx.data)
            except Exception:
                return orig(tx)
            if len(pk) != 1:
                return orig(tx)
            p = pk[0]
            if p.type == 1 and not p.flags & 1 and tx.dst == ps.SERVER:
                if state["connect"] is None:
                    state["connect"] = (tx.src, tx.data)
                    if case.get("replay"):
                        # the same CONNECT again, long after the connection is established
                        net.inject(tx.src, tx.dst, tx.data, 0.3)
                    if case.get("other_user"):
                        # long after the connection is established: a CONNECT from the same address, port and stream type that carries
                        # a VALID, fresh ticket and request of ANOTHER user (a legitimate user of the same server behind the same NAT, or
                        # the client's next login arriving while the old record still exists). It creates no connection; the
                        # established one must keep the identity of the ticket that admitted it.
                        import copy
                        from nintendo.nex import kerberos, common, streams as streams_nex
                        sk2 = bytes((i * 37 + 11) & 0xFF for i in range(s["kerberos.key_size"]))
                        t = kerberos.ServerTicket()
                        t.timestamp = common.DateTime.fromtimestamp(sim.epoch)
                        t.source = case["other_user"]
                        t.session_key = sk2
                        st = streams_nex.StreamOut(s)
                        st.buffer(t.encrypt(case.get("server_key", SERVER_KEY), s))
                        sub = streams_nex.StreamOut(s)
                        sub.pid(case["other_user"]); sub.u32(2000); sub.u32(0x1234567)
                        st.buffer(kerberos.KerberosEncryption(sk2).encrypt(sub.get()))
                        q = copy.copy(p)
                        q.payload = st.get()
                        q.signature = enc.calc_packet_signature(q, b"", enc.calc_connection_signature(tx.src))   # what the server verifies a CONNECT of this address with
                        net.inject(tx.src, tx.dst, enc.encode(q), 0.3)
                m = case.get("req_mut")
                if m:
                    l1 = struct.unpack_from("<I", p.payload)[0]
                    tick, rest = p.payload[:4 + l1], p.payload[4 + l1:]
                    l2 = struct.unpack_from("<I", rest)[0]
                    req = rest[4:4 + l2]
                    if m[0] == "trunc": req = req[:m[1]]
                    elif m[0] == "byte":
                        b = bytearray(req); b[m[1] % len(b)] ^= m[2]; req = bytes(b)
                    elif m[0] == "drop": req = None
                    elif m[0] == "identity": pass          # control: re-built and re-signed but unchanged
                    elif m[0] == "whole-trunc":
                        p.payload = p.payload[:m[1]]
                    if m[0] != "whole-trunc":
                        p.payload = tick + (struct.pack("<I", len(req)) + req if req is not None else b"")
                    p.signature = enc.calc_packet_signature(p, b"", enc.calc_connection_signature(tx.src))   # what the server verifies a CONNECT of this address with
                    net.inject(tx.src, tx.dst, enc.encode(p), 0.004)
                    return []
            if p.type == 1 and p.flags & 1 and tx.src == ps.SERVER and case.get("resp"):
                r = case["resp"]
                if r[0] == "size": p.payload = p.payload[:r[1]] if r[1] <= 8 else p.payload + bytes(r[1] - 8)
                elif r[0] == "check":
                    ln, chk = struct.unpack("<II", p.payload)
                    p.payload = struct.pack("<II", ln, (chk + r[1]) & 0xFFFFFFFF)
                elif r[0] == "len":
                    ln, chk = struct.unpack("<II", p.payload)
                    p.payload = struct.pack("<II", r[1], chk)
                p.signature = enc.calc_packet_signature(p, b"", enc.calc_connection_signature(ps.SERVER))
                net.inject(tx.src, tx.dst, enc.encode(p), 0.004)
                return []
            return orig(tx)
        net.fate = fate
    return setup


def work(args):
    idx, case, seed = args
    if case.get("history"):
        # the sub-cases run one after the other in THIS process with the same seed: the same ticket bytes, the same session key,
        # the same virtual clock — presented to differently keyed servers (what one server accepted tells another server nothing)
        allbad, last = [], None
        for j, sub in enumerate(case["history"]):
            sub = dict(sub, name="%s[%d]:%s" % (case["name"], j, sub["name"]))
            _, _, _, bad, sess, err = work((idx, sub, seed))
            if err:
                return idx, case, seed, [], None, err
            allbad += ["step %d of %d in one process — %s" % (j + 1, len(case["history"]), b) for b in bad]
            last = sess
        return idx, case, seed, allbad, last, None
    try:
        tz = case.get("tz", "UTC0")
        os.environ["TZ"] = tz
        time.tzset()
        cfg = ps.Cfg(transport=case.get("transport", "udp"), version=case.get("version", 1), credentials=True,
                     pid_size=case.get("pid_size", 4), key_size=case.get("key_size", 32), ticket_version=case.get("ticket_version", 0),
                     fragment_size=50, resend_limit=1, resend_timeout=0.5)
        script = [[("c", 0, b"hello"), ("s", 0, b"world")]]
        sess = ps.run_session(cfg, seed & 0xFFFF, script, lambda sim, r: (lambda tx: [0.004]), phases_gap=0.6,
                              creds_fn=creds_factory(case), setup=mitm_setup(case), server_key=case.get("server_key", SERVER_KEY))
        sess.server_key = case.get("server_key", SERVER_KEY)
        snap = sess.checkpoints[0]["ep"] if sess.checkpoints else {}
        connected = sess.connect_error is None and "c" in snap
        srv_conn = sess.handler_started
        want = case["expect"]
        bad = []
        if want is not None:
            if srv_conn != want["server"]:
                bad.append("server %s a connection (handler %s) for case %r" % ("created" if srv_conn else "did not create", "ran" if srv_conn else "did not run", case["name"]))
            if connected != want["client"]:
                bad.append("client handshake %s for case %r: %s" % ("completed" if connected else "failed", case["name"], sess.connect_error))
        if want is not None and not want["server"] and getattr(sess, "table_max", 0) != 0:
            bad.append("a refused request left %d entr%s in the server's client table (case %r)" % (sess.table_max, "y" if sess.table_max == 1 else "ies", case["name"]))
        if srv_conn:
            # the handler observes exactly the ticket's user id
            pid_seen = sess.server_pid
            if pid_seen != case.get("ticket_pid", case.get("pid", 1000)):
                bad.append("handler observed pid %r, ticket issued %r" % (pid_seen, case.get("ticket_pid", case.get("pid", 1000))))
            if case.get("other_user"):
                if getattr(sess, "server_pid_end", None) != pid_seen:
                    bad.append("the handler admitted for user %r observes user %r on the same connection after a CONNECT carrying another user's valid ticket arrived from the same address"
                               % (pid_seen, getattr(sess, "server_pid_end", None)))
            if (case.get("ack_lost") or case.get("connect_dup")) and connected:
                if sess.got.get(("s", 0)) != [b"hello"] or sess.got.get(("c", 0)) != [b"world"]:
                    bad.append("data did not flow after a lost CONNECT acknowledgement / a duplicated CONNECT: %r / %r" % (sess.got.get(("s", 0)), sess.got.get(("c", 0))))
            if (case.get("replay") or case.get("other_user")) and connected:
                if sess.got.get(("s", 0)) != [b"hello"] or sess.got.get(("c", 0)) != [b"world"]:
                    bad.append("data did not flow after a replayed CONNECT: %r / %r" % (sess.got.get(("s", 0)), sess.got.get(("c", 0))))
                if sess.extra_handlers:
                    bad.append("a replayed CONNECT started a second handler")
        return idx, case, seed, bad, sess, None
    except Exception:
        return idx, case, seed, [], None, traceback.format_exc()


def after_an_ended_connection(args):
    """a holder of a valid fresh ticket is admitted ALSO after an earlier connection of the same endpoint has ended in an unusual way
    (the server application's handler raised, was kicked, closed locally): the handler runs again and sees the ticket's user"""
    import crash_session as cs
    version, scenario = args
    try:
        cfg = ps.Cfg(version=version, credentials=True, fragment_size=16, resend_timeout=0.5, ping_timeout=1.0, resend_limit=2)
        se = cs.run_special(cfg, 1, scenario)
        bad = []
        ops = {o[0]: o for o in se.ops}
        if se.crash or se.timed_out:
            bad.append("the session ended abnormally (crash=%s, timed out=%s)" % (se.crash, se.timed_out))
        if ops.get("connect", [0, 0, 0, None])[3] != "ok":
            bad.append("the first connection (valid fresh ticket) was not established: %r" % (ops.get("connect"),))
        if ops.get("reconnect", [0, 0, 0, None])[3] != "ok":
            bad.append("after a connection that ended by %s, a holder of a valid fresh ticket connecting from the same endpoint got %r: the handshake must complete AND the handler must run (it echoes)" % (scenario, ops.get("reconnect", [0, 0, 0, None])[3]))
        if getattr(se, "server_table", 0) != 0:
            bad.append("the server still holds %d client entries after the connection ended by %s" % (se.server_table, scenario))
        return version, scenario, bad, None
    except Exception:
        return version, scenario, [], traceback.format_exc()


def ticket_again(args):
    """the 120 s lifetime holds every time a ticket is shown, not only the first: one server, an ordinary session with a fresh ticket,
    and the byte-identical ticket presented again `gap` seconds later — admitted while younger than 120 s, refused afterwards"""
    import crash_session as cs
    version, gap = args
    try:
        cfg = ps.Cfg(version=version, credentials=True, fragment_size=16, resend_timeout=0.5, ping_timeout=1.0, resend_limit=2)
        se = cs.run_special(cfg, 1, "ticket-again:%g" % gap)
        bad = []
        ops = {o[0]: o for o in se.ops}
        if se.crash or se.timed_out:
            bad.append("the session ended abnormally (crash=%s, timed out=%s)" % (se.crash, se.timed_out))
        if ops.get("connect", [0, 0, 0, None])[3] != "ok":
            bad.append("the first connection (valid fresh ticket) was not established: %r" % (ops.get("connect"),))
        rc = ops.get("reconnect", [0, 0, 0, None])
        age = rc[1]      # the ticket was issued at virtual time 0
        got = rc[3]
        if age < 118 and got != "ok":
            bad.append("the same ticket, %.1f s old, presented a second time to the server that admitted it before was refused: %r" % (age, got))
        if age > 121 and got == "ok":
            bad.append("the same ticket presented a second time %.1f s after it was issued (older than 120 s) was admitted: the handler ran and echoed; the lifetime was enforced only the first time" % age)
        return version, "ticket-again:%g" % gap, bad, None
    except Exception:
        return version, "ticket-again:%g" % gap, [], traceback.format_exc()


def cases(rng, quick):
    out = []
    OK = {"server": True, "client": True}
    NO = {"server": False, "client": False}
    # A. honest matrix
    for transport, version in (("udp", 1), ("udp", 0), ("lite", 1)):
        for pid_size in (4, 8):
            for key_size in (16, 32):
                for tv in (0, 1):
                    out.append(dict(name="honest", transport=transport, version=version, pid_size=pid_size, key_size=key_size,
                                    ticket_version=tv, pid=rng.choice([1, 1000, 2 ** 32 - 1] + ([2 ** 64 - 1, 2 ** 40] if pid_size == 8 else [])), expect=OK))
    # A'. honest requests whose connection check sits at the boundaries of its 32 bits
    for cv in (0, 1, 0x7FFFFFFF, 0x80000000, 0xFFFFFFFE, 0xFFFFFFFF):
        for transport, version in (("udp", 1), ("udp", 0), ("lite", 1)):
            out.append(dict(name="honest-check-value", transport=transport, version=version, check_value=cv, pid_size=rng.choice([4, 8]),
                            ticket_version=rng.choice([0, 1]), expect=OK))
    # B. ticket age x time zone
    for tz in ("UTC0", "JST-9", "EST5"):
        for age in (-5, 0, 60, 119, 120, 121, 3600, 86400):
            exp = OK if age <= 119 else (None if age == 120 else NO)
            out.append(dict(name="age", tz=tz, age=age, expect=exp, ticket_version=rng.choice([0, 1])))
    # C. wrong keys / identities
    out.append(dict(name="wrong-ticket-key", ticket_key=b"another key", expect=NO))
    out.append(dict(name="wrong-server-key", server_key=b"another key", expect=NO))
    out.append(dict(name="pid-mismatch", pid=1000, ticket_pid=1001, expect=NO))
    out.append(dict(name="client-wrong-session-key", client_wrong_sk=True, expect=NO))
    out.append(dict(name="empty-ticket", ticket_mut=("empty",), expect=NO))
    out.append(dict(name="request-missing", req_mut=("drop",), expect=NO))
    out.append(dict(name="request-rebuilt-unchanged", req_mut=("identity",), expect=OK))      # the re-signing of the mutation cases is sound
    # ticket / request mutations
    for tv in (0, 1):
        tlen = (8 + 4 + 32 + 16) if tv == 0 else (4 + 16 + 4 + 8 + 4 + 32 + 16)
        ks = range(tlen) if not quick else sorted(rng.sample(range(tlen), 14))
        for k in ks:
            out.append(dict(name="ticket-trunc", ticket_version=tv, ticket_mut=("trunc", k), expect=NO))
        for k in ks:
            out.append(dict(name="ticket-byte", ticket_version=tv, ticket_mut=("byte", k, 1 << rng.randrange(8)), expect=NO if (tv == 0 or k >= 0) else None))
        out.append(dict(name="ticket-append", ticket_version=tv, ticket_mut=("append", 3), expect=NO if tv == 0 else None))
    rlen = 4 + 8 + 16
    ks = range(rlen) if not quick else sorted(rng.sample(range(rlen), 10))
    for k in ks:
        out.append(dict(name="request-trunc", req_mut=("trunc", k), expect=NO))
        out.append(dict(name="request-byte", req_mut=("byte", k, 1 << rng.randrange(8)), expect=NO))
    # the CONNECT payload of the default configuration is 4 + 60 (ticket) + 4 + 28 (request) = 96 bytes
    for k in ([0, 3, 4, 40, 70, 95] if quick else range(0, 96)):
        out.append(dict(name="payload-trunc", req_mut=("whole-trunc", k), expect=NO))
    out.append(dict(name="payload-not-truncated", req_mut=("whole-trunc", 96), expect=OK))
    # C'. the same ticket shown to differently keyed servers of one process, in every order (also: key rotation K1 -> K2 -> K1)
    K1, K2 = dict(name="right-server", expect=OK), dict(name="other-server", server_key=b"another key", expect=NO)
    for transport, version in (("udp", 1), ("udp", 0), ("lite", 1)):
        for tv in (0, 1):
            for hist in ([K1, K2], [K2, K1], [K1, K2, K1], [K1, K1, K2, K2]):
                out.append(dict(name="same-ticket-two-servers", transport=transport, version=version, ticket_version=tv,
                                history=[dict(h, transport=transport, version=version, ticket_version=tv) for h in hist], expect=None))
    # D. replay
    for transport, version in (("udp", 1), ("udp", 0)):
        for tv in (0, 1):
            out.append(dict(name="connect-ack-lost", ack_lost=1, transport=transport, version=version, ticket_version=tv, pid_size=rng.choice([4, 8]), expect=OK))
            out.append(dict(name="connect-duplicated", connect_dup=True, transport=transport, version=version, ticket_version=tv, expect=OK))
    out.append(dict(name="replayed-connect", replay=True, expect=OK))
    for pid_size in (4, 8):
        for tv in (0, 1):
            out.append(dict(name="second-connect-other-user", other_user=rng.choice([1001, 7, 2 ** 31]), pid_size=pid_size, ticket_version=tv, expect=OK))
    # E. crafted responses: the server admits (its side is honest), the client must refuse
    SRV_ONLY = {"server": True, "client": False}
    for r in [("size", 0), ("size", 4), ("size", 7), ("size", 9), ("size", 12), ("check", 1), ("check", -1), ("check", 2 ** 31), ("len", 0), ("len", 8), ("len", 5)]:
        out.append(dict(name="response", resp=r, expect=SRV_ONLY))
    return out


def run(ctx):
    quick = ctx.tier == "quick"
    _t0 = time.time()
    cs = cases(ctx.rng, quick)
    ctx.rule = ("one real keyed session per case: honest matrix (3 encodings x pid 4/8 x key 16/32 x ticket version 0/1), honest requests with the connection check at the boundaries of its 32 bits, ticket age "
                "{-5,0,60,119,120,121,3600,86400} s x TZ {UTC, +9, -5}, wrong ticket/server/session keys, mismatched user id, "
                "every (quick: sampled) truncation and single-byte mutation of ticket and request, truncated payloads, replayed CONNECT, a later CONNECT from the same address carrying another user's valid ticket, "
                "11 crafted responses, the same ticket shown to differently keyed servers of one process in every order, and a sample of the cases re-run in a child "
                "interpreter started with -O (assertions compiled away); oracle = admission iff honest+fresh, handler pid = ticket pid, client completes iff response exact; "
                "UDP sessions replayed through the Lean L1 model; the life of one endpoint's table entry at one server in virtual time (c05_lifecycle.py, real code only): phase 1 an honest session "
                "whose CONNECT datagram is recorded, ended by {peer disconnect, dark link/timeout, server close(), handler returns} or still alive, its handler busy for {0, at+50.., 10^6} s afterwards; "
                "phase 2 at ticket age {10,60,110,118 | 122,125,200,3600,86400,3 d} the byte-identical CONNECT (optionally with the SYN, optionally twice) followed by a DATA packet keyed with the "
                "ticket's session key, or a real client with a new fresh / stale ticket of the same / another user; phase 3 a fresh ticket after the busy handler returned; 3 encodings, pid 4/8, key 16/32, "
                "ticket version 0/1, 3 zones; oracle = older than 120 s creates nothing and is not acknowledged, whatever is created observes the ticket's user and key and echoes keyed traffic; "
                "the server's time zone with daylight saving (c05_dst.py, real code only): %d zones (POSIX rule strings and tz database names; northern / southern, 30 min and 60 min shifts, "
                "offsets 0, x:30, x:45, +12/+13), virtual clock at {-2d-300 .. 2d+300} around the end (repeated hour) and the start (skipped hour) of DST of a drawn year and in the middle of each season, "
                "tickets issued {0,60,119 | 121,125, 10 min .. 2 h, d-125 .. d+600, 2d-1 .. 2d+121} s of REAL time before + random instants/ages; oracle = real age > 120 s is never admitted, "
                "a fresh ticket whose stamp is unambiguous is admitted and observed as its user; "
                "the hand-over of an endpoint's table entry (c05_handoff.py, real code only): the previous connection ended {peer disconnect, timeout, close(), client vanished}, its handler returns / raises "
                "at {-0.5 .. +0.025 s around the next handshake, 0..8 loop turns after the server read the CONNECT, 0 / 1 ms / 20 ms after the CONNECT acknowledgement's send() began, 0 .. 0.2 s after it completed, never} "
                "while the server's socket spends {0..12 loop turns, 30 ms .. 3 s} inside that send(); the next user's ticket fresh / stale, client transport reused (same local port) or new; "
                "oracle = whatever handler runs observes exactly the presented ticket's user and key, the previous handler keeps its own, stale creates nothing, a third user is admitted afterwards; "
                "steps of the system clock while the server runs (c05_clockstep.py): time.time stepped by +-{60,119,121,300,600,1800,3600,7200,86400,30 d} s and random amounts, one or several steps, monotonic clock untouched; "
                "tickets aged {0..118 | 122..600, |step|-125 .. |step|+600} s by the clock as it is, shown before, at once after and 0.5 .. 700 s after each step, tickets carried over a step; "
                "oracle = older than 120 s by the system clock as it is creates nothing, fresh is admitted and observed as its user (carried tickets whose real and clock age disagree: not judged); "
                "each CONNECT that reached a datagram server is also decided by a fresh L1 model server reading the same clock; "
                "distinct non-trivial = distinct cases" % len([z for z in __import__("c05_dst").ZONES if __import__("c05_dst").zone_usable(z)]))
    jobs = [(i, c, ctx.rng.getrandbits(32)) for i, c in enumerate(cs)]
    drv = ctx.driver("C02")
    ndiff, first = 0, None
    with multiprocessing.Pool(min(16, os.cpu_count() or 4), maxtasksperchild=50) as pool:
        for idx, case, seed, bad, sess, err in pool.imap_unordered(work, jobs, chunksize=4):
            if err:
                ctx.corr_break("c05-session-harness", "session crashed in the harness", {"traceback": err, "case": case})
                continue
            for what in bad:
                ctx.violation("c05:%s" % case["name"], what, {"case": {k: (v.hex() if isinstance(v, bytes) else v) for k, v in case.items()}, "seed": seed,
                              "how": "harness/corr_C05.py work((0, case, seed))"})
            os.environ["TZ"] = case.get("tz", "UTC0"); time.tzset()
            r = l1_corr.compare(drv, sess, "x") if sess is not None and case.get("transport", "udp") == "udp" else {"ok": True, "diffs": [], "skipped": True}
            if not r["ok"]:
                ndiff += 1
                if first is None:
                    first = {"case": {k: (v.hex() if isinstance(v, bytes) else v) for k, v in case.items()}, "seed": seed, "diff": r["diffs"][0]}
            ctx.traces_validated += 0 if r.get("skipped") else 1
            ctx.case(key=idx, nontrivial=True, tag=case["name"],
                     sample={"case": {k: (v.hex() if isinstance(v, bytes) else v) for k, v in case.items()}, "model_lines": r.get("lines")} if idx % 53 == 0 else None)
    os.environ["TZ"] = "UTC0"; time.tzset()
    with multiprocessing.Pool(8) as pool:
        for version, scenario, bad, err in pool.imap_unordered(after_an_ended_connection, [(v, sc) for v in (1, 0) for sc in
                ("handler-raises:eof", "handler-raises:reject", "local-close:s", "local-close:c")]):
            if err:
                ctx.corr_break("c05-session-harness", "session crashed in the harness", {"traceback": err, "scenario": scenario}); continue
            ctx.case(key=("after-ended", version, scenario), nontrivial=True, tag="after-ended-connection:" + scenario.split(":")[0])
            for what in bad:
                ctx.violation("c05:after-ended:%s:v%d" % (scenario, version), what, {"version": version, "scenario": scenario,
                              "how": "harness/corr_C05.py after_an_ended_connection((version, scenario))"})
        gaps = [60, 112, 125, 200] if quick else [10, 60, 100, 112, 116, 123, 125, 130, 200, 1000, 86400 + 30]
        for version, scenario, bad, err in pool.imap_unordered(ticket_again, [(v, g) for v in (1, 0) for g in gaps]):
            if err:
                ctx.corr_break("c05-session-harness", "session crashed in the harness", {"traceback": err, "scenario": scenario}); continue
            ctx.case(key=("ticket-again", version, scenario), nontrivial=True, tag="same-ticket-again-at-one-server")
            for what in bad:
                ctx.violation("c05:%s:v%d" % (scenario, version), what, {"version": version, "scenario": scenario,
                              "how": "harness/corr_C05.py ticket_again((version, gap))"})
    # the life of an endpoint's entry at one server (c05_lifecycle.py): the byte-identical CONNECT datagram again after the connection
    # it established has ended (4 ways to end) at ticket ages on both sides of 120 s, the same while the previous handler is still
    # busy / on an established connection, and a real client with a new (fresh / stale) ticket while the previous handler is busy
    _t = {"sessions": time.time() - _t0}; _t0 = time.time()
    import c05_lifecycle as lc
    specs = lc.cases(ctx.rng, quick)
    nlc = {"created": 0, "not-created": 0}
    with multiprocessing.Pool(min(16, os.cpu_count() or 4)) as pool:
        for spec, bad, facts, err in pool.imap_unordered(lc.work, specs, chunksize=4):
            if err:
                ctx.corr_break("c05-session-harness", "session crashed in the harness", {"traceback": err, "spec": spec}); continue
            made = bool(facts.get("replay_created") or facts.get("second_created"))
            nlc["created" if made else "not-created"] += 1
            ctx.case(key=("lifecycle", spec["seed"], spec["name"]), nontrivial=True,
                     tag="lifecycle:%s:%s:%s" % (spec["name"], spec["end"], "connection-created" if made else "no-connection"),
                     sample={"spec": spec, "facts": facts} if spec["seed"] % 41 == 0 else None)
            for what in bad:
                ctx.violation("c05:lifecycle:%s:%s:%s" % (spec["name"], spec["enc"], spec["end"]), what,
                              {"spec": spec, "facts": facts, "how": "PYTHONPATH=<repo>:harness /venv/bin/python -c 'import c05_lifecycle as lc; print(lc.run_case(spec))'"})
    ctx.extra["lifecycle_second_request_created_a_connection"] = nlc
    # the hand-over of an endpoint's entry from one user to the next (c05_handoff.py): the previous connection has ended, its handler has
    # not returned, another user's valid CONNECT arrives from the same endpoint (client transport reused: same local port), and the old
    # handler returns / raises at every moment relative to process_connect - in particular while the CONNECT acknowledgement is being
    # sent (the server's socket spends 0..12 event-loop turns / a controllable time inside send())
    _t["lifecycle"] = time.time() - _t0; _t0 = time.time()
    import c05_handoff as ho
    hspecs = ho.cases(ctx.rng, quick)
    nho = {"entry-vanished-during-send": 0, "handler-returned-during-send-entry-still-there": 0, "entry-there-throughout": 0, "entry-gone-before": 0, "nothing-sent": 0,
           "second-created": 0, "second-not-created": 0}
    with multiprocessing.Pool(min(16, os.cpu_count() or 4)) as pool:
        for spec, bad, facts, err in pool.imap_unordered(ho.work, hspecs, chunksize=8):
            if err:
                ctx.corr_break("c05-session-harness", "session crashed in the harness", {"traceback": err, "spec": spec}); continue
            a, b, r = facts.get("table_at_send_start"), facts.get("table_at_send_end"), facts.get("old_returned_during_send")
            moment = ("nothing-sent" if a is None else "entry-gone-before" if a == 0 else "entry-vanished-during-send" if b == 0 else
                      "handler-returned-during-send-entry-still-there" if r else "entry-there-throughout")
            nho[moment] += 1
            made = bool((facts.get("second") or {}).get("created"))
            nho["second-created" if made else "second-not-created"] += 1
            ctx.case(key=("handoff", spec["seed"], spec["name"]), nontrivial=True,
                     tag="%s:%s:%s:%s" % (spec["name"], spec["enc"], moment, "connection-created" if made else "no-connection"),
                     sample={"spec": spec, "facts": facts} if spec["seed"] % 37 == 0 else None)
            for what in bad[:4]:
                ctx.violation("c05:%s:%s:%s" % (spec["name"], spec["enc"], spec["end"]), what,
                              {"spec": spec, "facts": facts, "how": "PYTHONPATH=<repo>:harness /venv/bin/python -c 'import c05_handoff as h; print(h.run_case(spec))'"})
    ctx.extra["handoff_moments"] = nho
    # discontinuities of the system clock while the server runs (c05_clockstep.py): time.time stepped by a minute .. a month in both
    # directions, the monotonic clock untouched; tickets shown before, at once after and some time after every step; every CONNECT
    # that reached a datagram server is also judged by a fresh compiled L1 model server whose clock reads what the real one read
    _t["handoff"] = time.time() - _t0; _t0 = time.time()
    import c05_clockstep as ck
    cspecs = ck.cases(ctx.rng, quick)
    ctot = {}
    mlines, mwant = [], []
    with multiprocessing.Pool(min(16, os.cpu_count() or 4)) as pool:
        for n, (spec, bad, facts, err) in enumerate(pool.imap_unordered(ck.work, cspecs, chunksize=2)):
            if err:
                ctx.corr_break("c05-session-harness", "session crashed in the harness", {"traceback": err, "spec": spec}); continue
            for k, v in facts.items():
                if isinstance(v, int) and not isinstance(v, bool) and k not in ("last_step", "table_end"): ctot[k] = ctot.get(k, 0) + v
            ctx.case(key=("clockstep", spec["seed"], spec["name"]), nontrivial=True,
                     tag="%s:%s:%s" % (spec["name"], spec["enc"], ",".join("%+d" % v for op, v in spec["plan"] if op == "step")[:40] or "none"),
                     sample={"spec": spec, "facts": {k: v for k, v in facts.items() if k != "shows"}} if spec["seed"] % 17 == 0 else None)
            for what in bad[:4]:
                ctx.violation("c05:%s:%s" % (spec["name"], spec["enc"]), what,
                              {"spec": spec, "facts": {k: v for k, v in facts.items() if k != "shows"},
                               "how": "PYTHONPATH=<repo>:harness /venv/bin/python -c 'import c05_clockstep as c; print(c.run_case(spec)[0])'"})
            for lines, at, sh in ck.model_lines(spec, facts, "k%d" % n):
                mwant.append((len(mlines) + at, sh, spec))
                mlines += lines
    mdiff = None
    if mlines:
        mout = drv.batch(mlines)
        for at, sh, spec in mwant:
            model_created = " started " in (" " + mout[at] + " ")
            ctx.traces_validated += 1
            if model_created != sh["created"] and mdiff is None:
                mdiff = {"spec": spec, "show": sh, "model": mout[at][:200], "real_created": sh["created"]}
    ctx.extra["clockstep"] = dict(ctot, connects_judged_by_the_model=len(mwant))
    if mdiff and not ctx.violations:
        ctx.corr_break("c05-clockstep-admission-correspondence", "the real server and the L1 model decide differently about a CONNECT after a step of the system clock",
                       dict(mdiff, theorems_no_longer_tied=["Nx.C05.admit_iff", "Nx.C05.admission_ignores_history", "Nx.C05.accepted_request_is_valid"]))
    # the server's time zone as an axis, daylight-saving transitions included (c05_dst.py): the ticket's stamp is a local wall-clock
    # DateTime, the lifetime is 120 s of REAL time - on both sides of / inside the repeated hour and the skipped hour, and in both seasons
    _t["clockstep"] = time.time() - _t0; _t0 = time.time()
    import c05_dst as dst
    dspecs = dst.cases(ctx.rng, quick)
    dtot = {}
    dfold = []
    with multiprocessing.Pool(min(16, os.cpu_count() or 4)) as pool:
        for spec, bad, facts, err in pool.imap_unordered(dst.work, dspecs, chunksize=1):
            if err:
                ctx.corr_break("c05-session-harness", "session crashed in the harness", {"traceback": err, "spec": spec}); continue
            for k, v in facts.items():
                if isinstance(v, int) and not isinstance(v, bool): dtot[k] = dtot.get(k, 0) + v
            if len(dfold) < 4: dfold += [dict(e, tz=spec["tz"]) for e in facts.get("fold_examples", [])[:1]]
            ctx.case(key=("dst", spec["tz"], spec["base"], spec["enc"], spec["seed"]), nontrivial=True,
                     tag="%s:%s:%s" % (spec["name"], spec["where"].split(" (")[0].split(" at ")[0], spec["enc"]),
                     sample={"spec": dict(spec, steps=spec["steps"][:6]), "facts": facts} if spec["seed"] % 29 == 0 else None)
            for what in bad[:4]:
                ctx.violation("c05:%s:%s:%s" % (spec["name"], spec["tz"], spec["enc"]), what,
                              {"spec": spec, "facts": facts, "how": "PYTHONPATH=<repo>:harness /venv/bin/python -c 'import c05_dst as d; print(d.run_case(spec))'"})
    # tie of the stamp arithmetic the theorems dst_* speak about (C15's zone model, Nx.Nex.Zone): the real DateTime.fromtimestamp /
    # DateTime.timestamp() of the tree under test in the real zone at instants around each rule change visited above, against the
    # compiled model with the zone's one-change table; and, on the real code, decoded <= issue instant (what admitted_is_fresh rests on)
    changes = sorted({(sp["tz"],) + tuple(sp["change"]) for sp in dspecs if sp.get("change")})
    zdrv = ctx.driver("C15")
    nst, stamp_diff, later = 0, None, None
    with multiprocessing.Pool(min(8, os.cpu_count() or 4)) as pool:
        res = pool.map(dst.stamp_points, [(tz, T, abs(o1 - o0), ctx.rng.getrandbits(32)) for (tz, T, o0, o1) in changes])
    omap = {(tz, T): (o0, o1) for (tz, T, o0, o1) in changes}
    for tz, T, pts, err in res:
        if err:
            ctx.corr_break("c05-session-harness", "stamp functions crashed in the harness", {"traceback": err, "tz": tz}); continue
        o0, o1 = omap[(tz, T)]
        tab = "%d %d %d" % (o0, T, o1)
        lines, want = [], []
        for u, v, back in pts:
            lines.append("dt.zfrom %d %s" % (u, tab)); want.append("ok %d" % v)
            lines.append("dt.zts %d %s" % (v, tab)); want.append("ok %d" % back if isinstance(back, int) else "err value")
            if isinstance(back, int) and back > u and later is None:
                later = {"tz": tz, "instant": u, "stamp": v, "decoded": back}
        got = zdrv.batch(lines)
        for ln, w, g in zip(lines, want, got):
            nst += 1
            if w != g and stamp_diff is None:
                stamp_diff = {"tz": tz, "line": ln, "real": w, "model": g}
        ctx.case(key=("dst-stamp", tz, T), nontrivial=True, tag="dst-stamp-correspondence")
    ctx.traces_validated += nst
    ctx.extra["dst_stamp_lines_compared"] = nst
    if (stamp_diff or later) and not ctx.violations:
        ctx.corr_break("c05-dst-stamp-correspondence", "the real DateTime stamp functions and the zone model disagree, or a stamp decodes to an instant later than its issue instant",
                       {"first_diff": stamp_diff, "decoded_later": later, "theorems_no_longer_tied": ["Nx.C05.dst_admitted_is_fresh_partial", "Nx.C05.dst_fresh_is_admitted"]})
    dtot.pop("table_end", None)
    ctx.extra["dst_requests"] = dtot
    ctx.extra["dst_zones"] = sorted({sp["tz"] for sp in dspecs})
    ctx.extra["dst_fresh_ticket_stamped_in_second_pass_of_repeated_hour"] = {"note": "not judged (the property says 'only if'); the stamp cannot tell the two passes apart",
                                                                             "admitted": dtot.get("fresh_in_fold_admitted", 0), "refused": dtot.get("fresh_in_fold_refused", 0), "examples": dfold}
    os.environ["TZ"] = "UTC0"; time.tzset()
    # the interpreter's flags are part of the environment: the same verdicts with assertions compiled away (python -O)
    _t["dst"] = time.time() - _t0; _t0 = time.time()
    import json, subprocess, sys
    sub = [(i, c, sd) for (i, c, sd) in jobs if c.get("expect") is not None and not c.get("history")]
    refusals = [j for j in sub if not j[1]["expect"]["server"]]
    admits = [j for j in sub if j[1]["expect"]["server"]]
    always = [j for j in refusals if j[1]["name"] in ("wrong-ticket-key", "wrong-server-key", "pid-mismatch", "client-wrong-session-key", "empty-ticket", "request-missing", "age")]
    rest = [j for j in refusals if j not in always]
    pick = always + ctx.rng.sample(rest, min(len(rest), 50 if quick else 400)) + ctx.rng.sample(admits, min(len(admits), 6 if quick else 30))
    def enc(o):
        return {k: ({"__bytes__": v.hex()} if isinstance(v, bytes) else list(v) if isinstance(v, tuple) else v) for k, v in o.items()}
    payload = json.dumps([[i, enc(c), sd] for (i, c, sd) in pick])
    import vf
    # the tree under test first (as in lib/vf.py), then the harness
    env = dict(os.environ, PYTHONPATH=os.pathsep.join([vf.REPO, os.path.dirname(os.path.abspath(__file__)), os.path.join(os.path.dirname(os.path.dirname(os.path.abspath(__file__))), "lib")]))
    p = subprocess.run([sys.executable, "-O", "-B", os.path.abspath(__file__)], input=payload, capture_output=True, text=True, env=env, timeout=1200)
    if p.returncode != 0:
        ctx.corr_break("c05-optimised-interpreter", "the admission cases could not be run under python -O", {"stderr": p.stderr[-2000:]})
    else:
        res = json.loads(p.stdout.strip().splitlines()[-1])
        for (i, c, sd), (bad, err) in zip(pick, res):
            if err:
                ctx.corr_break("c05-optimised-interpreter", "session crashed in the harness under python -O", {"traceback": err, "case": enc(c)})
                continue
            ctx.case(key=("python -O", i), nontrivial=True, tag="python-O:" + c["name"])
            for what in bad:
                ctx.violation("c05:python-O:%s" % c["name"], "with assertions compiled away (python -O / PYTHONOPTIMIZE): " + what,
                              {"case": enc(c), "seed": sd, "how": "echo '[[0, case, seed]]' | /venv/bin/python -O harness/corr_C05.py   (PYTHONPATH=harness:lib)"})
    _t["python-O"] = time.time() - _t0
    ctx.extra["section_wall_seconds"] = {k: round(v, 1) for k, v in _t.items()}
    ctx.extra["l1_session_diffs"] = ndiff
    if ndiff and not ctx.violations:
        ctx.corr_break("l1-endpoint-correspondence", "real endpoints and the Lean L1 model disagree in %d sessions" % ndiff,
                       dict(first, theorems_no_longer_tied=["Nx.C05.admit_iff", "Nx.C05.reject_creates_nothing", "Nx.C05.accepted_request_is_valid"]))
    elif ndiff:
        ctx.extra["first_l1_diff"] = first


if __name__ == "__main__":
    # child interpreter (python -O): cases as JSON on stdin, one JSON line of [bad, error] per case on stdout
    import json, sys
    def dec(o):
        return {k: (bytes.fromhex(v["__bytes__"]) if isinstance(v, dict) and "__bytes__" in v else tuple(v) if isinstance(v, list) and k in ("ticket_mut", "req_mut", "resp") else v)
                for k, v in o.items()}
    out = []
    for i, c, sd in json.loads(sys.stdin.read()):
        _, _, _, bad, _, err = work((i, dec(c), sd))
        out.append([bad, err])
    print(json.dumps(out))
