"""Shared: replay a simulated session through the Lean L1 endpoint model and compare.

compare(drv, sess) -> dict(ok, diffs=[...], stats) where a diff is a dict naming the endpoint, the index in its
stream of emitted datagrams (or the event kind) and both values. Emitted datagrams are compared byte for byte
and tick for tick; deliveries per (endpoint, substream) as sequences; EOF instants; handshake outcome.
"""
import l1_trace
from sim import ticks


def real_events(sess):
    ev = {"deliver": {}, "eof": {}, "hs": None}
    cut = None
    for e in sess.netlog:
        if e[0] == "app" and e[3] == "reconnect":
            cut = e[1]; break
    for e in sess.netlog:
        if cut is not None and e[0] in ("deliver", "eof", "app") and e[1] >= cut:
            continue
        if e[0] == "deliver":
            _, t, side, sub, data = e
            ev["deliver"].setdefault((side, sub), []).append(data.hex() if data else "-")
        elif e[0] == "eof":
            _, t, side, sub = e
            ev["eof"].setdefault(side, ticks(t))
        elif e[0] == "app" and e[3] == "connected":
            ev["hs"] = True
    if ev["hs"] is None and sess.connect_error:
        ev["hs"] = False
    return ev


def model_events(other):
    ev = {"deliver": {}, "eof": {}, "hs": None, "started": 0, "removed": 0}
    for side in "cs":
        for tk, rest in other[side]:
            p = rest.split(" ")
            if p[0] == "deliver":
                ev["deliver"].setdefault((side, int(p[2])), []).append((tk, p[3]))
            elif p[0] == "eof":
                ev["eof"].setdefault(side, tk)
            elif p[0] == "hs":
                ev["hs"] = p[2] == "ok"
            elif p[0] == "started":
                ev["started"] += 1
            elif p[0] == "removed":
                ev["removed"] += 1
    return ev


def compare(drv, sess, name="x", want_lines=False):
    b = l1_trace.build(sess, name)
    if b is None:
        return {"ok": True, "skipped": True, "diffs": [], "lines": 0}
    lines, kinds, real = b
    outs = drv.batch(lines)
    tx, other, errs = l1_trace.model_stream(lines, kinds, outs)
    diffs = []
    for line, out in errs:
        diffs.append({"kind": "driver", "line": line[:200], "model": out})
    for side in "cs":
        r, m = real[side], tx[side]
        for i, (a, b2) in enumerate(zip(r, m)):
            if a != b2:
                diffs.append({"kind": "tx", "endpoint": side, "index": i, "real": a, "model": b2})
                break
        else:
            if len(r) != len(m):
                extra = (r[len(m):] or m[len(r):])[0]
                diffs.append({"kind": "tx-count", "endpoint": side, "real_n": len(r), "model_n": len(m), "first_extra": extra,
                              "extra_in": "real" if len(r) > len(m) else "model"})
    re_, me = real_events(sess), model_events(other)
    cutoff = {"c": None, "s": None}
    slack = {"c": 0, "s": 0}
    for e in sess.netlog:
        if e[0] == "app" and e[2] == "c" and e[3] == "disconnect" and cutoff["c"] is None: cutoff["c"] = ticks(e[1])
        if e[0] == "app" and e[2] == "s" and e[3] in ("done", "raised") and cutoff["s"] is None: cutoff["s"] = ticks(e[1]); slack["s"] = 1 if e[3] == "raised" else 0   # a handler may raise at the very instant of a delivery
    for key in set(re_["deliver"]) | set(me["deliver"]):
        # the harness' reader tasks stop when the script ends: later deliveries stay in the queue unobserved
        md = [d for (tk, d) in me["deliver"].get(key, []) if cutoff[key[0]] is None or tk < cutoff[key[0]] + slack[key[0]]]
        if re_["deliver"].get(key, []) != md:
            diffs.append({"kind": "deliver", "endpoint": key[0], "substream": key[1],
                          "real": re_["deliver"].get(key, [])[:4], "model": md[:4],
                          "real_n": len(re_["deliver"].get(key, [])), "model_n": len(md)})
    for side in "cs":
        if re_["eof"].get(side) != me["eof"].get(side):
            # the harness' reader tasks are cancelled when the script ends: an EOF the model places after that is unobservable
            if re_["eof"].get(side) is None and me["eof"].get(side) is not None and cutoff[side] is not None and me["eof"][side] >= cutoff[side]:
                continue
            if re_["eof"].get(side) is None and not re_["hs"]:
                continue      # the handshake failed: no application reader ever existed on this side
            diffs.append({"kind": "eof", "endpoint": side, "real": re_["eof"].get(side), "model": me["eof"].get(side)})
    if re_["hs"] is not None and me["hs"] is not None and re_["hs"] != me["hs"]:
        diffs.append({"kind": "handshake", "real": re_["hs"], "model": me["hs"]})
    # the state the end-to-end theorems start from (`Nx.L1.establishedB`, both directions, every substream), evaluated on the two MODEL
    # endpoints at the instant the real client's handshake() returned (only when no application call and no third-party datagram came
    # before): with the byte- and tick-exact agreement above this ties `Established` - the hypothesis of C01_system_established /
    # C01_duplex_established - to every real handshake the L1 replays see
    probes = [o for (_, o) in other.get("probe", [])]
    hostile = any(e[0] == "inject" for e in sess.netlog)
    if not diffs and not hostile and re_["hs"]:
        for o in probes:
            if not o.startswith("est ") or o == "est -" or any(not w.endswith(":11") for w in o.split(" ")[1:]):
                diffs.append({"kind": "established", "model": o,
                              "meaning": "after this handshake the two model endpoints are not in the state the C01 system theorems start from (per substream: client->server, server->client)"})
    res = {"ok": not diffs, "diffs": diffs, "lines": len(lines), "tx": {k: len(v) for k, v in real.items()}, "est": probes,
           "events": {"deliver": sum(len(v) for v in re_["deliver"].values()), "eof": len(re_["eof"]), "hs": re_["hs"]}}
    if want_lines:
        res["trace"] = list(zip(lines, outs))
    return res
