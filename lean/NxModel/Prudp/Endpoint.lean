import NxModel.Prudp.Conn
/-!
# L1 — server stream, port table and the transports (prudp.py 1178-1514)

`ServerStream` = `PRUDPServerStream` (stateless SYN, CONNECT → login → client table),
`ServerT` = `PRUDPDatagramTransport` / `PRUDPSocketTransport` (port table + decode + exception barrier),
`ClientT` = `PRUDPClientTransport`.
-/
namespace Nx.L1
open Nx Nx.Prudp

abbrev ClientKey := Addr × Nat × Nat      -- (addr, source port, source type)

/-- the randomness `PRUDPClient.__init__` draws, supplied with the op that creates a connection -/
structure Rnd where
  initialUnrelId : Nat := 1
  connectionCheck : Nat := 0
  localSessionId : Nat := 0
  deriving DecidableEq, Repr

structure ServerStream where
  key : Option Bytes
  supFuncs : Nat
  maxSub : Nat
  minorVer : Nat
  addr : Addr
  port : Nat
  type : Nat
  clients : List (ClientKey × Conn) := []
  deriving DecidableEq, Repr

inductive SOut where
  | emit (to : Addr) (p : Packet) (data : Bytes)
  | client (k : ClientKey) (o : Out)        -- an output of the connection `k`
  | started (k : ClientKey)                 -- `start_client` scheduled, `serve()` ran: the handler starts
  deriving DecidableEq, Repr

structure SR where
  s : ServerStream
  outs : List SOut := []
  err : Option Err := none

def clientLookup (k : ClientKey) : List (ClientKey × Conn) → Option Conn
  | [] => none
  | (k', c) :: t => if k' = k then some c else clientLookup k t

def clientSet (k : ClientKey) (c : Conn) : List (ClientKey × Conn) → List (ClientKey × Conn)
  | [] => [(k, c)]
  | (k', c') :: t => if k' = k then (k, c) :: t else (k', c') :: clientSet k c t

def clientErase (k : ClientKey) (l : List (ClientKey × Conn)) : List (ClientKey × Conn) := l.filter (·.1 != k)

/-- `PRUDPServerStream.process_syn` -/
def ServerStream.processSyn (env : Env) (s : ServerStream) (p : Packet) (addr : Addr) : SR :=
  let codec := select env.cfg.sel p.version
  if p.signature ≠ env.packetSig codec p [] [] then { s, err := some .value }
  else if !hasNeedAck p.flags then { s, err := some .value }
  else if p.sessionId ≠ 0 ∨ p.packetId ≠ 0 ∨ p.fragmentId ≠ 0 ∨ p.substreamId ≠ 0 ∨ anyNonZero p.connectionSignature then
    { s, err := some .value }
  else
    let ack : Packet := { mkPacket TYPE_SYN FLAG_ACK with
      version := p.version, sourceType := s.type, sourcePort := s.port, destType := p.sourceType, destPort := p.sourcePort,
      connectionSignature := some (env.connSig codec addr),
      maxSubstreamId := min s.maxSub p.maxSubstreamId, minorVersion := min s.minorVer p.minorVersion,
      supportedFunctions := s.supFuncs &&& p.supportedFunctions }
    let ack := { ack with signature := env.packetSig codec ack [] [] }
    match encodeChecked env.cfg ack with
    | .error e => { s, err := some e }
    | .ok data => { s, outs := [.emit addr ack data] }

/-- `process_login_request(payload, client, login)`: without a ticket key everybody is admitted with an empty
    response; with one, the request must pass the login check, and only a NEW client is logged in (repo commit 5fe58c8) -/
def ServerStream.loginStep (env : Env) (now : Time) (s : ServerStream) (p : Packet) (client : Conn) (isNew : Bool) :
    Except Err (Conn × Bytes) :=
  match s.key with
  | none => .ok (client, [])
  | some key =>
    match env.loginRequest p.payload key now with
    | .error e => .error e
    | .ok (pid, cid, sk, resp) => .ok (if isNew then client.login pid cid sk else client, resp)

/-- `PRUDPServerStream.process_connect` followed by the start of `start_client` (`serve()`) -/
def ServerStream.processConnect (env : Env) (now : Time) (rnd : Rnd) (linkUp : Bool) (s : ServerStream) (p : Packet) (addr : Addr) : SR :=
  let codec := select env.cfg.sel p.version
  let connSig := env.connSig codec addr
  if p.signature ≠ env.packetSig codec p [] connSig then { s, err := some .value }
  else if !hasNeedAck p.flags ∨ p.packetId ≠ 1 ∨ p.fragmentId ≠ 0 ∨ p.substreamId ≠ 0 then { s, err := some .value }
  else if p.maxSubstreamId > s.maxSub ∨ p.minorVersion > s.minorVer ∨
          (p.supportedFunctions ^^^ (p.supportedFunctions &&& s.supFuncs)) ≠ 0 then { s, err := some .value }
  else
    let k : ClientKey := (addr, p.sourcePort, p.sourceType)
    let existing := clientLookup k s.clients
    let client : Conn := match existing with
      | some c => c
      | none =>
        let c := Conn.new env p.version rnd.initialUnrelId rnd.connectionCheck rnd.localSessionId
                   s.addr s.port s.type addr p.sourcePort p.sourceType
        { c with maxSub := p.maxSubstreamId, supFuncs := p.supportedFunctions, minorVer := p.minorVersion,
                 remoteSignature := p.connectionSignature, remoteSessionId := some p.sessionId, linkUp := linkUp }
    match s.loginStep env now p client existing.isNone with
    | .error e => { s, err := some e }
    | .ok (client, response) =>
      -- new client: registered, `start_client` scheduled; its `serve()` runs before the next datagram
      let (clients, startOuts, client) :=
        if existing.isNone then
          let c := client.serve now
          (clientSet k c s.clients, [SOut.started k], c)
        else (s.clients, [], client)
      let s := { s with clients }
      let ack : Packet := { mkPacket TYPE_CONNECT (FLAG_ACK + FLAG_HAS_SIZE) with
        version := p.version, sourceType := s.type, sourcePort := s.port, destType := p.sourceType, destPort := p.sourcePort,
        connectionSignature := some (List.replicate connSig.length 0),
        maxSubstreamId := p.maxSubstreamId, supportedFunctions := p.supportedFunctions, minorVersion := p.minorVersion,
        sessionId := client.localSessionId, packetId := 1, payload := response }
      let ack := { ack with signature := env.packetSig codec ack [] (p.connectionSignature.getD []) }
      let res : List SOut × Option Err :=
        if !linkUp then (startOuts, some .closed)
        else
          match encodeChecked env.cfg ack with
          | .error e => (startOuts, some e)
          | .ok data => ([.emit addr ack data] ++ startOuts, none)
      { s, outs := res.1, err := res.2 }

/-- run a connection-level step for client `k` and lift its result -/
def ServerStream.liftConn (s : ServerStream) (k : ClientKey) (r : R) : SR :=
  { s := { s with clients := clientSet k r.c s.clients },
    outs := r.outs.map (fun o => match o with
      | .emit a p d => SOut.emit a p d
      | o => SOut.client k o),
    err := r.err }

/-- `transport.send(ack, addr)` on a stream transport whose stream client is gone (`PRUDPSocketTransport.sendto`: "Transport
    connection is closed"): nothing is written and the exception leaves `handle` (the transport's barrier swallows it) -/
def SR.gate (linkUp : Bool) (r : SR) : SR :=
  if linkUp || r.outs.isEmpty then r else { s := r.s, outs := [], err := some .closed }

/-- `PRUDPServerStream.handle(packet, addr)` -/
def ServerStream.handle (env : Env) (now : Time) (rnd : Rnd) (linkUp : Bool) (s : ServerStream) (p : Packet) (addr : Addr) : SR :=
  if p.type = TYPE_SYN ∧ !hasAck p.flags then (s.processSyn env p addr).gate linkUp
  else if p.type = TYPE_CONNECT ∧ !hasAck p.flags then s.processConnect env now rnd linkUp p addr
  else
    let k : ClientKey := (addr, p.sourcePort, p.sourceType)
    match clientLookup k s.clients with
    | some c => s.liftConn k (c.handle env now p)
    | none => { s }

/-! ## transports -/

/-- `PRUDPPortTable` key: `port | type << 8` -/
def portKey (port type : Nat) : Nat := port ||| (type <<< 8)

structure ServerT where
  streams : List (Nat × ServerStream) := []       -- port table
  liteBuf : Bytes := []                           -- `PRUDPLiteMessage.buffer` of the transport's own selector (datagram transports)
  liteBufs : List (Addr × Bytes) := []            -- stream transports: one reassembly buffer per stream connection (repo fix D4)
  links : List Addr := []                         -- stream transports: connected stream clients (`self.clients`)
  isStream : Bool := false
  deriving DecidableEq, Repr

structure TR where
  t : ServerT
  outs : List SOut := []
  err : Option Err := none      -- the exception swallowed by the barrier (`except Exception`)

def streamLookup (k : Nat) : List (Nat × ServerStream) → Option ServerStream
  | [] => none
  | (k', s) :: r => if k' = k then some s else streamLookup k r

def streamSet (k : Nat) (s : ServerStream) : List (Nat × ServerStream) → List (Nat × ServerStream)
  | [] => [(k, s)]
  | (k', s') :: r => if k' = k then (k, s) :: r else (k', s') :: streamSet k s r

/-- the loop over the decoded packets; stops at the first exception -/
def ServerT.dispatch (env : Env) (now : Time) (rnd : Rnd) (addr : Addr) : List Packet → ServerT → TR
  | [], t => { t }
  | p :: ps, t =>
    match streamLookup (portKey p.destPort p.destType) t.streams with
    | none => { t, err := some .value }                       -- "Port is not bound"
    | some s =>
      let linkUp := !t.isStream || t.links.contains addr
      let r := s.handle env now rnd linkUp p addr
      let t := { t with streams := streamSet (portKey p.destPort p.destType) r.s t.streams }
      match r.err with
      | some e => { t, outs := r.outs, err := some e }
      | none =>
        let r' := ServerT.dispatch env now rnd addr ps t
        { t := r'.t, outs := r.outs ++ r'.outs, err := r'.err }

/-- `process_data(data, addr)`: decode, dispatch, swallow any exception -/
def bufLookup (a : Addr) : List (Addr × Bytes) → Bytes
  | [] => []
  | (a', b) :: r => if a' = a then b else bufLookup a r

def bufSet (a : Addr) (b : Bytes) : List (Addr × Bytes) → List (Addr × Bytes)
  | [] => [(a, b)]
  | (a', b') :: r => if a' = a then (a, b) :: r else (a', b') :: bufSet a b r

def ServerT.processData (env : Env) (now : Time) (rnd : Rnd) (t : ServerT) (data : Bytes) (addr : Addr) : TR :=
  let (res, buf) := decode env.cfg (if t.isStream then bufLookup addr t.liteBufs else t.liteBuf) data
  let t := if t.isStream then { t with liteBufs := bufSet addr buf t.liteBufs } else { t with liteBuf := buf }
  match res with
  | .error e => { t, err := some e }
  | .ok ps => ServerT.dispatch env now rnd addr ps t

structure ClientT where
  conns : List (Nat × Conn) := []                 -- port table (normally one connection)
  liteBuf : Bytes := []
  linkUp : Bool := true                           -- stream transports: the transport's one stream is still there
  deriving DecidableEq, Repr

structure CR where
  t : ClientT
  outs : List (Nat × Out) := []                   -- tagged with the port-table key of the connection
  err : Option Err := none

def connLookup (k : Nat) : List (Nat × Conn) → Option Conn
  | [] => none
  | (k', c) :: r => if k' = k then some c else connLookup k r

def connSet (k : Nat) (c : Conn) : List (Nat × Conn) → List (Nat × Conn)
  | [] => [(k, c)]
  | (k', c') :: r => if k' = k then (k, c) :: r else (k', c') :: connSet k c r

def ClientT.dispatch (env : Env) (now : Time) : List Packet → ClientT → CR
  | [], t => { t }
  | p :: ps, t =>
    let k := portKey p.destPort p.destType
    match connLookup k t.conns with
    | none => { t, err := some .value }
    | some c =>
      let r := (c.handle env now p)
      let t := { t with conns := connSet k r.c t.conns }
      let outs := r.outs.map (fun o => (k, o))
      match r.err with
      | some e => { t, outs, err := some e }
      | none =>
        let r' := ClientT.dispatch env now ps t
        { t := r'.t, outs := outs ++ r'.outs, err := r'.err }

/-- the client transport decodes with the encoder fixed by `prudp.version` (no dual-stack analysis) -/
def clientDecode (env : Env) (liteBuf data : Bytes) : Except Err (List Packet) × Bytes :=
  match select env.cfg.sel (some env.cfg.sel.version) with
  | .v0 => (v0Decode env.cfg.v0 data, liteBuf)
  | .v1 => (v1Decode data, liteBuf)
  | .lite => liteFeed liteBuf data

/-- `PRUDPClientTransport.process_data(data)` followed by the resumption of parked handshakes -/
def ClientT.processData (env : Env) (now : Time) (t : ClientT) (data : Bytes) : CR :=
  let (res, buf) := clientDecode env t.liteBuf data
  let t := { t with liteBuf := buf }
  let r : CR := match res with
    | .error e => { t, err := some e }
    | .ok ps => ClientT.dispatch env now ps t
  -- handshake coroutines whose event was set resume before the next datagram is read
  let (conns, outs) := r.t.conns.foldl (fun (acc : List (Nat × Conn) × List (Nat × Out)) kc =>
      let rr := kc.2.resumeHandshake now
      (acc.1 ++ [(kc.1, rr.c)], acc.2 ++ rr.outs.map (fun o => (kc.1, o)))) ([], [])
  { t := { r.t with conns }, outs := r.outs ++ outs, err := r.err }

end Nx.L1
