import NxModel.Switch.Clients
import NxModel.Switch.Errors
import NxModel.DriverUtil
/-! line-protocol driver for the Switch client models (C18; reused by C20 for the setters)

  reset                                          -> ok            (forget all tables)
  tbl <table> <key> <value>                      -> ok            (string values: hex of UTF-8; Nat columns: decimal)
  latest <client> <n>                            -> ok
  lang <hex>                                     -> ok            (append to five.LANGUAGES)
  setver <client> <devid|none> <v1> <v2> …       -> one `<ok|err E> <state>` group per step, `;`-separated
  call <client> <devid|none> <ver|init> [h=<hex>[,<hex>,<hex>]] [p=<hex>] [r=<n>] -- <call> <args…>
                                                 -> ok <hosthex>|<requesthex> …  |  err <Name>
  shape … (same arguments as call)               -> ok <method>;<header names>;<param keys>;<body keys> …  |  err <Name>
  resp <client> <json|none|count> <status> <json tokens…>
                                                 -> typed <codehex> <messagehex> | http <status> | ok <hex|None> | raises
  args:  n:<dec>  s:<hex>  b:<hex>  none  t  f  ln:<n,n,…>  ls:<hex,hex,…>  d:<hex=hex,…>   (`-` = empty)
  json tokens (prefix form): N T F i<int> s<hex> a<count> … o<count> (s<hex> value)…
-/
open Nx Nx.Http Nx.Switch

def strOfBytes (b : Bytes) : Option String := String.fromUTF8? (ByteArray.mk b.toArray)
def strOfHex (h : String) : Option String := (fromHex h).bind strOfBytes
def hexOfStr (s : String) : String := hexOut s.toUTF8.toList

inductive Arg where
  | n (v : Nat) | s (v : String) | b (v : Bytes) | none | t | f
  | ln (v : List Nat) | ls (v : List String) | d (v : List (String × String))

def splitList (s : String) : List String := if s = "-" then [] else s.splitOn ","

def parseArg (tok : String) : Option Arg :=
  if tok = "none" then some .none
  else if tok = "t" then some .t
  else if tok = "f" then some .f
  else match tok.splitOn ":" with
    | ["n", v] => v.toNat?.map .n
    | ["s", v] => (strOfHex v).map .s
    | ["b", v] => (fromHex v).map .b
    | ["ln", v] => ((splitList v).mapM String.toNat?).map .ln
    | ["ls", v] => ((splitList v).mapM strOfHex).map .ls
    | ["d", v] => ((splitList v).mapM fun (kv : String) =>
        match kv.splitOn "=" with
        | [k, x] => do let k ← strOfHex k; let x ← strOfHex x; pure (k, x)
        | _ => Option.none).map .d
    | _ => Option.none

def optStr : Arg → Option (Option String)
  | .none => some Option.none
  | .s v => some (some v)
  | _ => Option.none

def argBool : Arg → Option Bool
  | .t => some true
  | .f => some false
  | _ => Option.none

structure Cfg where
  hosts : List String := []
  power : Option String := Option.none
  region : Option Nat := Option.none

def parseCfg (toks : List String) : Option Cfg :=
  toks.foldlM (fun c tok =>
    match tok.splitOn "=" with
    | ["h", v] => ((splitList v).mapM strOfHex).map fun hs => { c with hosts := hs }
    | ["p", v] => (strOfHex v).map fun p => { c with power := some p }
    | ["r", v] => v.toNat?.map fun r => { c with region := some r }
    | _ => Option.none) {}

def errName (e : Err) : String := e.name

/-- apply `init` and, unless `ver = init`, one `set_system_version` -/
def withVersion {σ : Type} (init : Except Err σ) (setv : σ → Nat → Upd σ) (ver : String) : Except Err σ := do
  let s ← init
  if ver = "init" then pure s else
  match ver.toNat? with
  | Option.none => .error .other
  | some v => match setv s v with
    | (s, Option.none) => pure s
    | (_, some e) => .error e

def showSent (l : List Sent) : String :=
  "ok " ++ " ".intercalate (l.map fun (h, r) => hexOfStr h ++ "|" ++ hexOfStr r.encode)

def showShape (l : List Sent) : String :=
  "ok " ++ " ".intercalate (l.map fun (_, r) =>
    let s := r.shape
    s.method ++ ";" ++ ",".intercalate s.headerNames ++ ";" ++ ",".intercalate s.paramKeys ++ ";" ++ ",".intercalate s.bodyKeys)

def dauthCall (name : String) (a : List Arg) : Option DauthCall :=
  match name, a with
  | "challenge", [] => some .challenge
  | "device_token", [.n c, .s ch, .s mac] => some (.deviceToken c ch mac)
  | "edge_token", [.n c, .s v, .s ch, .s mac] => some (.edgeToken c v ch mac)
  | _, _ => Option.none

def aauthCall (name : String) (a : List Arg) : Option AauthCall :=
  match name, a with
  | "challenge", [.s t] => some (.challenge t)
  | "auth_nocert", [.n t, .n v, .s tok] => some (.authNocert t v tok)
  | "auth_system", [.n t, .n v, .s tok] => some (.authSystem t v tok)
  | "auth_digital", [.n t, .n v, .s tok, .b c, .s ec, .s ek] => some (.authDigital t v tok (.bytes c) ec ek)
  | "auth_digital", [.n t, .n v, .s tok, .s c, .s ec, .s ek] => some (.authDigital t v tok (.str c) ec ek)
  | "auth_gamecard", [.n t, .n v, .s tok, .b c, .b g, ch, src] => do
    let ch ← optStr ch; let src ← optStr src
    pure (.authGamecard t v tok c g ch src)
  | _, _ => Option.none

def baasCall (name : String) (a : List Arg) : Option BaasCall :=
  match name, a with
  | "authenticate", [.s t, p] => do let p ← optStr p; pure (.authenticate t p)
  | "login", [.n id, .s pw, .s acc, app, country, skip] => do
    let app ← optStr app; let country ← optStr country; let skip ← argBool skip
    pure (.login id pw acc app country skip)
  | "register", [.s acc] => some (.register acc)
  | "update_presence", [.n u, .n d, .s acc, .s st, .n t, .n g, .d f, .n acd] => some (.updatePresence u d acc st t g f acd)
  | "get_friends", [.n u, .s acc, .n c] => some (.getFriends u acc c)
  | _, _ => Option.none

def dragonsCall (name : String) (a : List Arg) : Option DragonsCall :=
  match name, a with
  | "publish_elicense_archive", [.s t, .s ch, .b c, .n acc] => some (.publishElicenseArchive t ch c acc)
  | "report_elicense_archive", [.s t, .s id, .n acc] => some (.reportElicenseArchive t id acc)
  | "publish_device_linked_elicenses", [.s t] => some (.publishDeviceLinkedElicenses t)
  | "exercise_elicense", [.s t, .ls ids, .ln accs, .n cur] => some (.exerciseElicense t ids accs cur)
  | "contents_authorization_token_for_aauth", [.s t, .s e, .n na, .n title] => some (.contentsAuthorizationTokenForAauth t e na title)
  | _, _ => Option.none

def fiveCall (name : String) (a : List Arg) : Option FiveCall :=
  match name, a with
  | "get_unread_invitation_count", [.s t, .n u] => some (.getUnreadInvitationCount t u)
  | "get_inbox", [.s t, .n u] => some (.getInbox t u)
  | "get_invitation_group", [.s t, .n g] => some (.getInvitationGroup t g)
  | "mark_as_read", [.s t, .ln ids] => some (.markAsRead t ids)
  | "mark_all_as_read", [.s t, .n u] => some (.markAllAsRead t u)
  | "send_invitation", [.s t, .ln r, .n app, .n grp, .b data, .d msgs, m, .n acd] => do
    let m ← argBool m
    pure (.sendInvitation t r app grp data msgs m acd)
  | _, _ => Option.none

def atumnCall (name : String) (a : List Arg) : Option AtumnCall :=
  match name, a with
  | "download_content_metadata", [.n t, .n v, sys, .s cid] => do let sys ← argBool sys; pure (.downloadContentMetadata t v sys cid)
  | "download_content", [.s cid] => some (.downloadContent cid)
  | _, _ => Option.none

def runCall (T : Tables) (client devid ver : String) (cfg : Cfg) (name : String) (args : List Arg) : Option (Except Err (List Sent)) :=
  let dev : Option Nat := devid.toNat?
  let host1 := cfg.hosts.head?
  match client with
  | "dauth" => do
    let c ← dauthCall name args
    pure do
      let s ← withVersion (Dauth.init T) (Dauth.setVersion T) ver
      let s := { s with host := host1.getD s.host, powerState := cfg.power.getD s.powerState, region := cfg.region.getD s.region }
      s.call c
  | "aauth" => do
    let c ← aauthCall name args
    pure do
      let s ← withVersion (Aauth.init T) (Aauth.setVersion T) ver
      let s := { s with host := host1.getD s.host, powerState := cfg.power.getD s.powerState }
      s.call c
  | "baas" => do
    let c ← baasCall name args
    pure do
      let s ← withVersion (Baas.init T) (Baas.setVersion T) ver
      let s := { s with host := host1.getD s.host, powerState := cfg.power.getD s.powerState }
      s.call c
  | "dragons" => do
    let c ← dragonsCall name args
    pure do
      let s ← withVersion (Dragons.init T dev) (Dragons.setVersion T) ver
      let s := match cfg.hosts with
        | [a, b, c] => { s with hostDragons := a, hostDragonst := b, hostTigers := c }
        | _ => s
      s.call c
  | "five" => do
    let c ← fiveCall name args
    pure do
      let s ← withVersion (Five.init T) (Five.setVersion T) ver
      let s := { s with host := host1.getD s.host }
      Five.call T s c
  | "sun" => do
    let d ← dev
    if name ≠ "system_update_meta" ∨ !args.isEmpty then Option.none else
    pure do
      let s ← withVersion (Nim.init T T.latestSun sunHost d) (Nim.setVersion T) ver
      let s := { s with host := host1.getD s.host }
      s.sunCall .systemUpdateMeta
  | "atumn" => do
    let d ← dev
    let c ← atumnCall name args
    pure do
      let s ← withVersion (Nim.init T T.latestAtumn atumnHost d) (Nim.setVersion T) ver
      let s := { s with host := host1.getD s.host }
      s.atumnCall c
  | _ => Option.none

/-! ### set_system_version sequences -/

def showUpd {σ : Type} (shw : σ → String) : Upd σ → String
  | (s, Option.none) => "ok " ++ shw s
  | (s, some e) => "err " ++ errName e ++ " " ++ shw s

def runSeq {σ : Type} (init : Except Err σ) (setv : σ → Nat → Upd σ) (shw : σ → String) (vs : List Nat) : String :=
  match init with
  | .error e => "initerr " ++ errName e
  | .ok s =>
    let (_, outs) := vs.foldl (fun (acc : σ × List String) v =>
      let r := setv acc.1 v
      (r.1, acc.2 ++ [showUpd shw r])) (s, ["ok " ++ shw s])
    ";".intercalate outs

def showDauth (s : Dauth) : String := s!"{s.version} {hexOfStr s.ua} {hexOfStr s.digest} {s.keygen} {s.api}"
def showAauth (s : Aauth) : String := s!"{s.version} {hexOfStr s.ua} {s.api}"
def showBaas (s : Baas) : String := s!"{s.version} {hexOfStr s.ua}"
def showFive (s : Five) : String := s!"{s.version} {hexOfStr s.ua}"
def showDragons (s : Dragons) : String :=
  s!"{s.version} {match s.uaNim with | some u => hexOfStr u | Option.none => "None"} {hexOfStr s.uaDauth}"
def showNim (s : Nim) : String := hexOfStr s.ua

def runSetver (T : Tables) (client devid : String) (vs : List Nat) : Option String :=
  let dev : Option Nat := devid.toNat?
  match client with
  | "dauth" => some (runSeq (Dauth.init T) (Dauth.setVersion T) showDauth vs)
  | "aauth" => some (runSeq (Aauth.init T) (Aauth.setVersion T) showAauth vs)
  | "baas" => some (runSeq (Baas.init T) (Baas.setVersion T) showBaas vs)
  | "five" => some (runSeq (Five.init T) (Five.setVersion T) showFive vs)
  | "dragons" => some (runSeq (Dragons.init T dev) (Dragons.setVersion T) showDragons vs)
  | "sun" => dev.map fun d => runSeq (Nim.init T T.latestSun sunHost d) (Nim.setVersion T) showNim vs
  | "atumn" => dev.map fun d => runSeq (Nim.init T T.latestAtumn atumnHost d) (Nim.setVersion T) showNim vs
  | _ => Option.none

/-! ### JSON tokens -/

mutual
  partial def parseJ : List String → Option (J × List String)
    | [] => Option.none
    | tok :: rest =>
      if tok = "N" then some (.null, rest)
      else if tok = "T" then some (.bool true, rest)
      else if tok = "F" then some (.bool false, rest)
      else match tok.toList with
        | 'i' :: r => (String.ofList r).toInt?.map fun i => (.num i, rest)
        | 's' :: r => (strOfHex (String.ofList r)).map fun s => (.str s, rest)
        | 'a' :: r => do
          let n ← (String.ofList r).toNat?
          let (l, rest) ← parseJArr n [] rest
          pure (.arr l, rest)
        | 'o' :: r => do
          let n ← (String.ofList r).toNat?
          let (l, rest) ← parseJObj n [] rest
          pure (.obj l, rest)
        | _ => Option.none
  partial def parseJArr (k : Nat) (acc : List J) (toks : List String) : Option (List J × List String) :=
    if k = 0 then some (acc.reverse, toks) else do
      let (j, toks) ← parseJ toks
      parseJArr (k - 1) (j :: acc) toks
  partial def parseJObj (k : Nat) (acc : List (String × J)) (toks : List String) : Option (List (String × J) × List String) :=
    if k = 0 then some (acc.reverse, toks) else
      match toks with
      | kt :: toks => do
        let key ← match kt.toList with | 's' :: r => strOfHex (String.ofList r) | _ => Option.none
        let (j, toks) ← parseJ toks
        parseJObj (k - 1) ((key, j) :: acc) toks
      | [] => Option.none
end

def clientOf : String → Option Client
  | "dauth" => some .dauth | "aauth" => some .aauth | "baas" => some .baas | "dragons" => some .dragons
  | "five" => some .five | "sun" => some .sun | "atumn" => some .atumn | _ => Option.none

def showOutcome : Outcome → String
  | .typed c m => "typed " ++ hexOfStr (c.render true) ++ " " ++ hexOfStr (m.render true)
  | .httpError s => s!"http {s}"
  | .ok (some j) => "ok " ++ hexOfStr (j.render true)
  | .ok Option.none => "ok None"
  | .raises => "raises"

/-- what the public method returns from the response: the JSON, nothing, or `json["count"]` -/
def post (ret : String) : Outcome → Outcome
  | .ok v =>
    if ret = "none" then .ok Option.none
    else if ret = "count" then
      match v with
      | some j => (match j.get? "count" with | some c => .ok (some c) | Option.none => .raises)
      | Option.none => .raises
    else .ok v
  | o => o

def addTbl (T : Tables) (name : String) (k : Nat) (v : String) : Option Tables :=
  match name with
  | "fw" => (strOfHex v).map fun s => { T with fw := T.fw ++ [(k, s)] }
  | "dauthUA" => (strOfHex v).map fun s => { T with dauthUA := T.dauthUA ++ [(k, s)] }
  | "digest" => (strOfHex v).map fun s => { T with digest := T.digest ++ [(k, s)] }
  | "aauthUA" => (strOfHex v).map fun s => { T with aauthUA := T.aauthUA ++ [(k, s)] }
  | "baasUA" => (strOfHex v).map fun s => { T with baasUA := T.baasUA ++ [(k, s)] }
  | "fiveUA" => (strOfHex v).map fun s => { T with fiveUA := T.fiveUA ++ [(k, s)] }
  | "keygen" => v.toNat?.map fun n => { T with keygen := T.keygen ++ [(k, n)] }
  | "dauthApi" => v.toNat?.map fun n => { T with dauthApi := T.dauthApi ++ [(k, n)] }
  | "aauthApi" => v.toNat?.map fun n => { T with aauthApi := T.aauthApi ++ [(k, n)] }
  | _ => Option.none

def setLatest (T : Tables) (client : String) (n : Nat) : Option Tables :=
  match client with
  | "dauth" => some { T with latestDauth := n } | "aauth" => some { T with latestAauth := n }
  | "baas" => some { T with latestBaas := n } | "dragons" => some { T with latestDragons := n }
  | "five" => some { T with latestFive := n } | "sun" => some { T with latestSun := n }
  | "atumn" => some { T with latestAtumn := n } | _ => Option.none

def emptyTables : Tables :=
  { fw := [], dauthUA := [], digest := [], keygen := [], dauthApi := [], aauthUA := [], aauthApi := [], baasUA := [], fiveUA := [],
    latestDauth := 0, latestAauth := 0, latestBaas := 0, latestDragons := 0, latestFive := 0, latestSun := 0, latestAtumn := 0,
    languages := [] }

def splitAtDashes (l : List String) : List String × List String :=
  (l.takeWhile (· ≠ "--"), (l.dropWhile (· ≠ "--")).drop 1)

def step (T : Tables) (line : String) : Tables × String :=
  match words line with
  | ["reset"] => (emptyTables, "ok")
  | ["tbl", name, k, v] =>
    match k.toNat?.bind fun k => addTbl T name k v with
    | some T' => (T', "ok")
    | Option.none => (T, "bad-op")
  | ["latest", c, n] =>
    match n.toNat?.bind fun n => setLatest T c n with
    | some T' => (T', "ok")
    | Option.none => (T, "bad-op")
  | ["lang", h] =>
    match strOfHex h with
    | some s => ({ T with languages := T.languages ++ [s] }, "ok")
    | Option.none => (T, "bad-op")
  | "setver" :: client :: devid :: vs =>
    match vs.mapM String.toNat? with
    | some vs => (T, (runSetver T client devid vs).getD "bad-op")
    | Option.none => (T, "bad-op")
  | kind :: client :: devid :: ver :: rest =>
    if kind = "call" ∨ kind = "shape" then
      let (cfgToks, callToks) := splitAtDashes rest
      match parseCfg cfgToks, callToks with
      | some cfg, name :: argToks =>
        match argToks.mapM parseArg with
        | some args =>
          match runCall T client devid ver cfg name args with
          | some (.ok l) => (T, if kind = "call" then showSent l else showShape l)
          | some (.error e) => (T, "err " ++ errName e)
          | Option.none => (T, "bad-op")
        | Option.none => (T, "bad-op")
      | _, _ => (T, "bad-op")
    else if kind = "resp" then
      -- resp <client> <ret> <status> tokens…   (here devid = ret, ver = status)
      match clientOf client, ver.toNat? with
      | some c, some status =>
        if rest = ["-"] then (T, showOutcome (post devid (classify c { status, json := Option.none })))
        else match parseJ rest with
          | some (j, []) => (T, showOutcome (post devid (classify c { status, json := some j })))
          | _ => (T, "bad-op")
      | _, _ => (T, "bad-op")
    else (T, "bad-op")
  | _ => (T, "bad-op")

def main : IO Unit := runState emptyTables step
