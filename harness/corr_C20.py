"""C20 — the documented public API exists and every documented knob takes effect.

1. API inventory (harness/api_inventory.py): docs/reference/**/*.md vs ast/inspect of the code, kernel-checked.
2. Settings: translated field table and the four shipped .cfg files (kernel obligations); Settings() / load /
   __setitem__ / copy driven on the real class and on the compiled model; every key with two values observed
   on the real consumer objects and on the model (`observe`); every key read somewhere (ast scan).
3. Setters: every set_* of every HTTP client (nnas, nasc, hpp, dauth, aauth, baas, dragons, five, sun, atumn)
   with two values -> captured request before/after, compared with the models; every public call honours the
   configured host, context and request callback; documented classes can be constructed.
4. Boundary values (harness/api_boundary.py): every setter x the boundary values of each parameter's type (0, "", b"", None
   where documented, largest value of the field width and the first beyond) x every public call: the request carries the value
   in the documented place (table = NnasSet.fields / NascSet.fields of the Lean model, proved for all values), has the fields it
   has for ordinary values, is not refused; sequences on one object (ordinary value, call, boundary value, call).
   Settings under hostile working directories (harness/c20_cwd.py); request callbacks that fail with connection-loss errors
   (harness/c20_cbfail.py): nothing leaves the process except through the callback.
5. Transport knobs in behaviour (harness/api_behaviour.py) and the nex.* settings at the consumer that puts structures on the wire
   (harness/api_wire.py): a real RMCClient on every kind of connection and negotiated minor version, client and server side.
6. Setter sequences in every spelling of the optional arguments (harness/c20_optseq.py); transport settings x packet kinds x transports
   decoded off the wire with an independent RC4 / zlib reference and the Lean payload model (harness/c20_knobwire.py).
7. Every documented module as the FIRST import of a fresh interpreter, and ordered pairs of modules that import each other
   (harness/c20_import.py); histories with a REJECTED setter call in them: the client is as it was (harness/c20_reject.py).
"""
import importlib, inspect, json, logging, os, re
import anyio
from anynet import http
import vf
import api_inventory
import api_objseq
import api_settings as aset
import api_docs
import switch_tables as st
import switch_cases as sc

LEVEL = "proof"
EXTRA_TARGETS = ["nxdrv_C18", "nxdrv_C02", "nxdrv_C08"]

DEVID = 0x6265A1B2C3D4E5F6


def hx(b):
    if isinstance(b, str): b = b.encode()
    return b.hex() if b else "-"


# ------------------------------------------------------------------------------------------------ settings
def pyval_tok(v):
    if v is None: return "N"
    if v is True: return "T"
    if v is False: return "F"
    if isinstance(v, int): return "i%d" % v
    if isinstance(v, str): return "s" + hx(v)
    raise ValueError(v)


def dump_real(s, names):
    out = []
    for n in names:
        try:
            v = s[n]
        except KeyError:
            out.append("unset"); continue
        if isinstance(v, bool): out.append("bool:%r" % v)
        elif isinstance(v, int): out.append("int:%d" % v)
        elif isinstance(v, float): out.append("float:%r" % v)
        elif isinstance(v, str): out.append("str:" + hx(v))
        else: out.append("other:%r" % (v,))
    return ",".join(out)


def canon_model_dump(d):
    out = []
    for item in d.split(","):
        if item.startswith("float:"):
            n, m = item[6:].split("/")
            out.append("float:%r" % (int(n) / int(m)))
        else:
            out.append(item)
    return ",".join(out)


def exc_name(e):
    return sc.exc_name(e)


ASSIGN_VALUES = [0, 1, 2, 8, 1300, -1, "0", "1", " 7 ", "+3", "-2", "", "abc", "1.5", "0.25", ".5", "5.", True, False, None, "Ünï", "0x10"]


def settings_checks(ctx, data, drv, nexsettings):
    names = [k for k, _ in data["fields"]]
    types = dict(data["fields"])
    pytype = {"int": int, "str": str, "float": float}
    lines, reals, meta = [], [], []
    for name in aset.CFGS:
        lines.append("cfg %s %s" % (name, ",".join(hx(l) for l in data["cfgs"].get(name, [])) or "-")); reals.append("ok"); meta.append(("cfg", name))

    def real_construct(name):
        try:
            s = nexsettings.Settings() if name == "-" else nexsettings.load(name)
            return s, "ok ; " + dump_real(s, names)
        except Exception as e:
            return None, "err " + exc_name(e)
    for name in ["-"] + aset.CFGS:
        s, r = real_construct(name)
        lines.append("construct " + name); reals.append(r); meta.append(("construct", name))
        if s is not None:
            for n in names:   # oracle: shipped files load to typed values
                try:
                    ok = type(s[n]) is pytype[types[n]]
                except KeyError:
                    ok = False
                if not ok:
                    ctx.violation("cfg-typed:%s:%s" % (name, n), "settings file %r leaves %s untyped or unset" % (name, n), {"file": name, "key": n})
        else:
            ctx.violation("cfg-load:%s" % name, "shipped settings file %r does not load: %s" % (name, r), {"file": name})
    # assignment sequences
    rng = ctx.rng
    seqs = []
    for n in names + ["prudp.bogus", "", "nex.Version", "prudp.version "]:
        for v in ASSIGN_VALUES:
            seqs.append(("-", [(n, v)]))
    for _ in range(60 if ctx.tier == "quick" else 600):
        seqs.append((rng.choice(["-"] + aset.CFGS), [(rng.choice(names + ["x.y"]), rng.choice(ASSIGN_VALUES)) for _ in range(rng.randint(2, 6))]))
    for base, ops in seqs:
        s = nexsettings.Settings() if base == "-" else nexsettings.load(base)
        outs = []
        for n, v in ops:
            before = dump_real(s, names)
            try:
                s[n] = v
                outs.append("ok")
                if n not in types:
                    ctx.violation("settings-unknown-accepted:" + n, "Settings accepts the unknown key %r" % n, {"key": n, "value": repr(v)})
                elif type(s[n]) is not pytype[types[n]]:
                    ctx.violation("settings-untyped:" + n, "settings[%r] = %r is stored as %s, declared %s" % (n, v, type(s[n]).__name__, types[n]), {"key": n, "value": repr(v)})
            except Exception as e:
                outs.append("err " + exc_name(e))
                if dump_real(s, names) != before:
                    ctx.violation("settings-partial:" + n, "a rejected assignment changed the settings", {"key": n, "value": repr(v)})
                if n not in types and not isinstance(e, KeyError):
                    ctx.violation("settings-unknown-error:" + n, "unknown key %r raises %r, not KeyError" % (n, e), {"key": n})
        lines.append("setseq %s %s" % (base, " ".join("%s=%s" % (hx(n), pyval_tok(v)) for n, v in ops)))
        reals.append(",".join(outs) + " ; " + dump_real(s, names)); meta.append(("setseq", ops))
    # copies share nothing
    for n in names:
        v = {"int": 77, "str": "zz", "float": "2.5"}[types[n]]
        s = nexsettings.Settings(); c = s.copy(); c[n] = v
        s2 = nexsettings.Settings(); c2 = s2.copy(); s2[n] = v
        fresh = dump_real(nexsettings.Settings(), names)
        if dump_real(s, names) != fresh or dump_real(c2, names) != fresh or dump_real(c, names) == fresh or c is s:
            ctx.violation("settings-copy:" + n, "Settings.copy() shares state with the original for key %s" % n, {"key": n})
        lines.append("copytest %s=%s" % (hx(n), pyval_tok(v)))
        reals.append(" ; ".join(dump_real(x, names) for x in (s, c, s2, c2))); meta.append(("copytest", n))
    outs = drv.batch(lines)
    diffs = []
    for line, real, model, m in zip(lines, reals, outs, meta):
        if m[0] in ("construct", "setseq"):
            head, _, d = model.partition(" ; ")
            model_c = head + " ; " + canon_model_dump(d) if d else model
        elif m[0] == "copytest":
            model_c = " ; ".join(canon_model_dump(x) for x in model.split(" ; "))
        else:
            model_c = model
        ctx.case(key="settings/" + line[:80], nontrivial=m[0] != "cfg", tag="settings:" + m[0],
                 sample={"op": line[:120], "model": model_c[:120]} if ctx.evaluations % 211 == 0 else None)
        if real != model_c:
            diffs.append((line, real, model_c))
    return diffs


def objects_checks(ctx, data, drv):
    """several Settings objects in ONE (fresh) process: create / mutate / copy / load / reset in mixed order, including
    "write to the first object ever created, then create others"; real class vs an independent reference vs the model"""
    from concurrent.futures import ThreadPoolExecutor
    names = [k for k, _ in data["fields"]]
    scen = api_objseq.scenarios(ctx.rng, names, 10 if ctx.tier == "quick" else 60)
    with ThreadPoolExecutor(8) as ex:
        reals = list(ex.map(lambda ops: api_objseq.run_real(vf.REPO, names, ops), scen))
    prefix = ["cfg %s %s" % (n, ",".join(hx(l) for l in data["cfgs"].get(n, [])) or "-") for n in aset.CFGS]
    mtoks = [api_objseq.model_ops(ops) for ops in scen]
    outs = drv.batch(prefix + ["objseq " + " ".join(t) for t, _ in mtoks])[len(prefix):]
    diffs = []
    for si, (ops, (real, err), (toks, last), mout) in enumerate(zip(scen, reals, mtoks, outs)):
        ctx.case(key="objects/%d/%s" % (si, json.dumps(ops)[:60]), nontrivial=True, tag="settings:objects", n=len(ops),
                 sample={"ops": ops[:6]} if si == 0 else None)
        if real is None:
            ctx.violation("settings-objects:crash", "the Settings scenario crashed in a fresh interpreter: %s" % err, {"ops": ops, "stderr": err}); continue
        ref = api_objseq.reference(ops, data["cfgs"], data["fields"])
        for i, (op, r, e) in enumerate(zip(ops, real, ref)):
            if r != e:
                # name the first object and field that differ
                detail = "status %r, expected %r" % (r[0], e[0])
                for oi, (a, b) in enumerate(zip(r[1], e[1])):
                    if a != b:
                        fa, fb = a.split(","), b.split(",")
                        j = next((j for j in range(min(len(fa), len(fb))) if fa[j] != fb[j]), 0)
                        detail = "object #%d: %s is %s, expected %s" % (oi, names[j], fa[j], fb[j]); break
                ctx.violation("settings-objects:%s" % op[0],
                              "Settings objects are not independent / files do not load to their values: after step %d %r of a sequence on several objects in one process, %s"
                              % (i, op, detail),
                              {"ops": ops, "failing_step": i, "detail": detail, "real_after_step": r, "expected_after_step": e,
                               "how": "harness/api_objseq.py RUNNER in a fresh /venv/bin/python with this op list"})
                break
        # model vs real (dumps after each real op; statuses except for configure, which the model sees as its assignments)
        mg = mout.split(";") if mout != "bad-op" else []
        for i, (op, r) in enumerate(zip(ops, real)):
            if last[i] >= len(mg):
                diffs.append(("objects", "objseq " + " ".join(toks), "step %d" % i, mout[:200])); break
            st, _, dumps = mg[last[i]].partition("#")
            md = [canon_model_dump(x) for x in dumps.split("|")] if dumps else []
            if md != r[1] or (op[0] != "configure" and st != r[0]):
                diffs.append(("objects", "objseq " + " ".join(toks), "step %d %r: %r" % (i, op, r), "%s#%s" % (st, md))); break
    return diffs


# ------------------------------------------------------------------------------------------------ effects
WITNESS = {"prudp.access_key": ("a", "b"), "prudp.resend_timeout": ("1", "2.5"), "prudp.ping_timeout": ("5", "0.5"),
           "nex.version": (30000, 40400), "nex.pid_size": (4, 8), "kerberos.key_size": (32, 16), "prudp.version": (0, 1),
           "prudp.fragment_size": (1300, 962)}


def observe_real(s):
    """the same observations as Nx.Api.observe, read off the real consumer objects"""
    from nintendo.nex import prudp, streams, common, backend, authentication, kerberos
    from fractions import Fraction
    o = []
    cl = prudp.PRUDPClient(s, None, s["prudp.version"])
    def rat(x):
        f = Fraction(str(x)) if not isinstance(x, float) else Fraction(x)
        return "%d/%d" % (f.numerator, f.denominator)
    o += ["fragment_size=%d" % cl.fragment_size, "resend_timeout=" + rat(cl.resend_timeout), "resend_limit=%d" % cl.resend_limit,
          "ping_timeout=" + rat(cl.ping_timeout), "max_substream_id=%d" % cl.max_substream_id, "supported_functions=%d" % cl.supported_functions,
          "minor_ver=%d" % cl.minor_ver]
    v0 = prudp.PRUDPMessageV0(s)
    o += ["v0_signature=%d" % v0.signature_version, "v0_checksum=%d" % v0.checksum_version, "v0_flags=%d" % v0.flags_version, "access_key=" + hx(v0.access_key)]
    enc = prudp.PayloadEncoder(s)
    o += ["reliable_ciphers=%d" % len(enc.reliable_encryption), "compression=" + type(enc.compression).__name__, "cipher=" + type(enc.unreliable_encryption).__name__]
    sel = prudp.PRUDPMessageSelector(s)
    o += ["selected=" + type(sel.select(s["prudp.version"])).__name__, "analyze_v1=" + type(sel.analyze(b"\xEA\xD0\x01\x00\x00")).__name__,
          "analyze_other=" + type(sel.analyze(b"\x00\x00\x00\x00\x00")).__name__]
    seqs = [prudp.SequenceMgr(s) for _ in range(6)]
    rnd = len({q.initial_unreliable_id for q in seqs}) > 1 or seqs[0].initial_unreliable_id != 1
    o += ["counters=%d" % len(seqs[0].counters), "random_unreliable_id=%s" % ("true" if rnd else "false")]
    so = streams.StreamOut(s); so.pid(5)
    o += ["pid_bytes=%d" % len(so.get())]
    so = streams.StreamOut(s); common.ResultRange(0, 10).encode(so)
    o += ["struct_header=%s" % ("true" if len(so.get()) != 8 else "false")]
    import types
    be = backend.BackEndClient(s, types.SimpleNamespace(settings=s), "h", 1)
    nex = s["nex.version"]
    called = []

    class FakeProto:
        async def validate_and_request_ticket_with_param(self, param):
            called.append(("login_with_param", param.nex_version, param.client_version)); raise StopIteration
        async def login_ex(self, *a): called.append(("login_old",)); raise StopIteration
        async def login(self, *a): called.append(("login_old",)); raise StopIteration
        async def validate_and_request_ticket(self, *a): called.append(("login_switch",)); raise StopIteration
    proto_name = type(be.auth_proto).__name__
    be.auth_proto = FakeProto()

    async def drive():
        try:
            async with be.login("user", "pw"):
                pass
        except BaseException:
            pass
    # the path selection of BackEndClient.login (which helper is entered)
    path = []
    for nm in ("login_old", "login_switch", "login_with_param"):
        orig = getattr(be, nm)
        def mk(nm, orig):
            async def w(*a, **k):
                path.append(nm)
                return await orig(*a, **k)
            return w
        setattr(be, nm, mk(nm, orig))
    anyio.run(drive)
    rv = authentication.RVConnectionData().max_version(s)
    o += ["auth_proto=" + proto_name, "login_path=" + (path[0] if path else "none"), "rv_max_version=%d" % rv,
          "key_derivation=" + type(be.key_derivation).__name__]
    pcv = [c for c in called if c[0] == "login_with_param"]
    o += ["param_nex_version=%d" % (pcv[0][1] if pcv else nex), "param_client_version=%d" % (pcv[0][2] if pcv else s["nex.client_version"])]
    t = kerberos.ClientTicket(); t.session_key = bytes(32); t.target = 1; t.internal = b""
    try:
        t.encrypt(bytes(16), s); ok = True
    except ValueError:
        ok = False
    o += ["client_ticket_32_ok=%s" % ("true" if ok else "false")]
    st_ = kerberos.ServerTicket(); st_.timestamp = common.DateTime(0); st_.source = 1; st_.session_key = bytes(32)
    try:
        o += ["server_ticket_len=%d" % len(st_.encrypt(bytes(16), s))]
    except ValueError:
        o += ["server_ticket_len=ValueError"]
    return ";".join(o)


def effects_checks(ctx, data, drv, nexsettings):
    lines, reals, meta = [], [], []
    names = [k for k, _ in data["fields"]]
    prefix = ["cfg %s %s" % (n, ",".join(hx(l) for l in data["cfgs"].get(n, [])) or "-") for n in aset.CFGS]
    for base in ["-"] + aset.CFGS:
        for n in names:
            a, b = WITNESS.get(n, (0, 1))
            obs = []
            for v in (a, b):
                s = nexsettings.Settings() if base == "-" else nexsettings.load(base)
                try:
                    s[n] = v
                    r = observe_real(s)
                except Exception as e:
                    r = "crash %r" % (e,)
                obs.append(r)
                lines.append("observe %s %s=%s" % (base, hx(n), pyval_tok(v))); reals.append(r); meta.append((base, n, v))
            if base == "-":
                if not data["reads"].get(n):
                    ctx.violation("setting-unread:" + n, "the documented setting %s is read nowhere in the package (only settings.py names it)" % n,
                                  {"key": n, "how": "ast scan for subscripts with this constant outside nintendo/nex/settings.py"})
                if obs[0] == obs[1]:
                    ctx.violation("setting-no-effect:" + n, "changing %s from %r to %r changes nothing any consumer derives from the settings" % (n, a, b),
                                  {"key": n, "values": [a, b], "observations": obs[0]})
    outs = drv.batch(prefix + lines)[len(prefix):]
    diffs = []
    from fractions import Fraction
    def canon(o):
        def f(m):
            fr = Fraction(int(m.group(2)), int(m.group(3)))
            return "%s=%d/%d" % (m.group(1), fr.numerator, fr.denominator)
        return re.sub(r"(resend_timeout|ping_timeout)=(-?\d+)/(\d+)", f, o)
    outs = [canon(o) for o in outs]
    for line, real, model, m in zip(lines, reals, outs, meta):
        ctx.case(key="effect/%s/%s/%r" % m, nontrivial=True, tag="effect:" + m[1], sample={"op": line, "model": model[:200]} if ctx.evaluations % 97 == 0 else None)
        if real != model:
            diffs.append((line, real, model))
    return diffs


# ------------------------------------------------------------------------------------------------ setters
class FakeContext:
    def __init__(self): self.calls = []
    def set_certificate(self, cert, key): self.calls.append((cert, key))
    def set_authority(self, ca): pass


def switch_setter_checks(ctx, mods, tdata, drv18):
    """every set_* of the seven Switch clients: two values -> the captured requests differ; host/context/callback
    honoured by every public call; compared with the C18 model where the setter is a request field"""
    diffs = []
    tbl = st.driver_lines(tdata)
    lines, reals = [], []

    async def main():
        for client in sc.CLIENTS:
            devid = DEVID if client in ("dragons", "sun", "atumn") else None
            variants = [(c, a, t) for c, a, t in sc.call_variants(client) if t in ("plain", "baas", "default", "app", "app-country", "ticket-ok", "challenge")]
            cl0 = sc.make_client(mods, client, devid)
            setters = sorted(n for n in dir(cl0) if n.startswith("set_"))
            for setter in setters:
                vals = {"set_host": [("hosta.example",), ("hostb.example:8443",)], "set_hosts": [("a.example", "b.example", "c.example"), ("d.example", "b.example", "c.example")],
                        "set_power_state": [("FA",), ("HA",)], "set_platform_region": [(1,), (2,)], "set_system_version": [(1700,), (1901,)],
                        "set_context": [(FakeContext(),), (FakeContext(),)], "set_certificate": [("certA", "keyA"), ("certB", "keyB")],
                        "set_request_callback": [("cbA",), ("cbB",)]}.get(setter)
                if vals is None:
                    ctx.violation("setter-unknown:%s.%s" % (client, setter), "setter %s.%s is not known to the check" % (client, setter), {"client": client, "setter": setter}, )
                    continue
                effect = False
                for call, args, tag in variants:
                    obs = []
                    for val in vals:
                        for mode in ("before-first-call", "after-first-call"):
                            # fresh client with the setter applied before its first request, and a client that has already
                            # made the same call once (setter after first use): the observable must be the same
                            cl = sc.make_client(mods, client, devid)
                            caps = []
                            fake = FakeContext()
                            if setter == "set_certificate": cl.set_context(fake)

                            async def cb(host, req, context, caps=caps, cl=cl):
                                caps.append((host, re.sub(rb"(cert|cert_key)=[A-Za-z0-9_%-]+", rb"\g<1>=*", req.encode()), context))
                                return sc.good_response(client, call, req)

                            async def cb2(host, req, context, caps=caps):
                                caps.append(("CB2", host, re.sub(rb"(cert|cert_key)=[A-Za-z0-9_%-]+", rb"\g<1>=*", req.encode()), context))
                                return sc.good_response(client, call, req)
                            cl.set_request_callback(cb)
                            if client == "aauth" and call == "auth_digital" and setter != "set_system_version": cl.set_system_version(1400)
                            if mode == "after-first-call":
                                try:
                                    await sc.invoke(cl, client, call, args)
                                except Exception:
                                    pass
                                caps.clear(); del fake.calls[:]
                            if setter == "set_request_callback":
                                cl.set_request_callback(cb if val[0] == "cbA" else cb2)
                            else:
                                getattr(cl, setter)(*val)
                            try:
                                await sc.invoke(cl, client, call, args)
                            except Exception as e:
                                caps.append(("EXC", repr(e)))
                            ob = [(c[0], c[1]) if len(c) == 3 else c[:3] for c in caps]
                            if setter == "set_context": ob = [id(c[2]) == id(val[0]) and ("ctx", vals.index(val)) for c in caps if len(c) == 3]
                            if setter == "set_certificate": ob = list(fake.calls)
                            if mode == "before-first-call":
                                obs.append(ob)
                                first_ob = ob
                            elif ob != first_ob:
                                def show(o): return [x[1].decode("utf-8", "replace") if isinstance(x, tuple) and len(x) > 1 and isinstance(x[1], bytes) else repr(x) for x in o]
                                ctx.violation("setter-after-use:%s.%s" % (client, setter),
                                              "%s.%s%r after a first %s() call does not have the effect it has before the first call" % (client, setter, val if setter not in ("set_context",) else ("<ctx>",), call),
                                              {"client": client, "setter": setter, "value": repr(val), "sequence": "%s(); %s%r; %s()" % (call, setter, val, call),
                                               "request_setter_before_first_call": show(first_ob), "request_setter_after_first_call": show(ob)})
                            # every call honours host / context / callback
                            for c in caps:
                                if len(c) == 3:
                                    exp_host = val[0] if setter in ("set_host",) else None
                                    if exp_host is not None and c[0] != exp_host:
                                        ctx.violation("host-ignored:%s.%s" % (client, call), "%s.%s does not send to the configured host" % (client, call), {"client": client, "call": call, "host": c[0]})
                                    if setter == "set_context" and c[2] is not val[0]:
                                        ctx.violation("context-ignored:%s.%s" % (client, call), "%s.%s does not use the configured TLS context" % (client, call), {"client": client, "call": call})
                    if obs[0] != obs[1] and obs[0] and obs[1]:
                        effect = True
                    ctx.case(key="setter/%s/%s/%s/%s" % (client, setter, call, tag), nontrivial=True, tag="setter:%s.%s" % (client, setter))
                if not effect:
                    ctx.violation("setter-no-effect:%s.%s" % (client, setter), "%s.%s changes nothing in any request of the client" % (client, setter),
                                  {"client": client, "setter": setter, "values": repr(vals)})
        # aauth.get_time must go through the request callback (it is a public call like the others)
        real_request = http.request
        hits = {"callback": 0, "http": 0}

        async def fake_http(url, req, context=None, **kw):
            hits["http"] += 1
            r = http.HTTPResponse(200); r.headers["X-NINTENDO-UNIXTIME"] = "5"; r.headers["X-NINTENDO-GLOBAL-IP"] = "1.2.3.4"; return r

        async def cb(host, req, context):
            hits["callback"] += 1
            r = http.HTTPResponse(200); r.headers["X-NINTENDO-UNIXTIME"] = "5"; r.headers["X-NINTENDO-GLOBAL-IP"] = "1.2.3.4"; return r
        http.request = fake_http
        try:
            cl = mods["aauth"].AAuthClient(); cl.set_request_callback(cb); cl.set_host("time.example")
            try:
                res = await cl.get_time()
            except Exception as e:
                res = repr(e)
        finally:
            http.request = real_request
        ctx.case(key="callback/aauth/get_time", nontrivial=True, tag="callback:get_time")
        if hits["callback"] != 1 or hits["http"] != 0:
            ctx.violation("callback-bypassed:aauth.get_time", "AAuthClient.get_time ignores the configured request callback (it called anynet.http.request %d time(s), the callback %d time(s))" % (hits["http"], hits["callback"]),
                          {"call": "AAuthClient().set_request_callback(cb); await client.get_time()", "hits": hits, "fix": "fixes/C20_aauth_get_time.diff"})
    anyio.run(main)
    return diffs


def enc_set(name, args):
    def one(a):
        if a is None: return "none"
        if isinstance(a, int): return "n:%d" % a
        if isinstance(a, bytes): return "b:" + hx(a)
        return "s:" + hx(a)
    return "%s(%s)" % (name, ";".join(one(a) for a in args))


NNAS_SETTERS = {"set_url": [("a.example",), ("b.example",)], "set_client_id": [("ida",), ("idb",)], "set_client_secret": [("sa",), ("sb",)],
                "set_platform_id": [(0,), (1,)], "set_device_type": [(1,), (2,)], "set_device": [(1, "SER1", 0x260, None), (2, "SER2", 0x270, "cert")],
                "set_locale": [(1, "NL", "en"), (2, "JP", "ja")], "set_fpd_version": [(0,), (16,)], "set_environment": [("L1",), ("D1",)],
                "set_title": [(0x0005000010101000, 1), (0x0005000010102000, 2)], "set_context": None}
NASC_SETTERS = {"set_url": [("a.example",), ("b.example",)], "set_sdk_version": [(0, 0), (11, 4)],
                "set_title": [(0x0004000000030800, 1, "----", "00", 0, None), (0x0004000000030900, 2, "AMKE", "01", 2, "rom")],
                "set_device": [("SER1", "aabbccddeeff", b"\x01\x02", "", "2"), ("SER2", "001122334455", b"\x03", "My 3DS é", "1")],
                "set_network": [("aabbcc", "01:0000000000"), ("ddeeff", "02:1111111111")], "set_locale": [(3, 2), (1, 0)],
                "set_user": [(1234, "hmac1"), (5678, "hmac2")], "set_password": [("pw1",), ("pw2",)], "set_fpd_version": [(15,), (16,)],
                "set_environment": [("L1",), ("D1",)], "set_context": None}


def legacy_checks(ctx, drv):
    """nnas / nasc / hpp: no request callback — substitute anynet.http.request"""
    import datetime as _dt
    from nintendo import nnas, nasc
    real_request = http.request
    lines, reals, meta = [], [], []
    cap = []

    async def fake(url, req, context=None, **kw):
        cap.append((url, req.encode(), context))
        raise StopAsyncIteration   # the clients would now parse the answer; the request is what we are after

    class FixedDT(_dt.datetime):
        @classmethod
        def now(cls, tz=None): return cls(2024, 5, 6, 7, 8, 9)

    async def main():
        http.request = fake
        try:
            # --- nnas
            for setter in sorted(n for n in dir(nnas.NNASClient) if n.startswith("set_")):
                vals = NNAS_SETTERS.get(setter, "?")
                if vals == "?":
                    ctx.violation("setter-unknown:nnas.%s" % setter, "setter nnas.%s is not known to the check" % setter, {"setter": setter}); continue
                if vals is None:
                    ctx_objs = [FakeContext(), FakeContext()]
                    seen = []
                    for o in ctx_objs:
                        c = nnas.NNASClient(); c.set_context(o); cap.clear()
                        try: await c.get_nex_token("tok", 0x1010EB00)
                        except StopAsyncIteration: pass
                        seen.append(bool(cap) and cap[-1][2] is o)
                    if not all(seen):
                        ctx.violation("context-ignored:nnas", "NNASClient does not use the configured TLS context", {})
                    continue
                obs = []
                for val in vals:
                    for which in ("login", "token"):
                        c = nnas.NNASClient(); getattr(c, setter)(*val); cap.clear()
                        try:
                            if which == "login": await c.login("user name", "p&w", None)
                            else: await c.get_nex_token("tok", 0x1010EB00)
                        except StopAsyncIteration: pass
                        real = hx(cap[-1][0]) + "|" + hx(cap[-1][1]) if cap else "none"
                        obs.append(real)
                        # the same setter after the client has already made the call once
                        c2 = nnas.NNASClient(); cap.clear()
                        for _ in range(2):
                            try:
                                if which == "login": await c2.login("user name", "p&w", None)
                                else: await c2.get_nex_token("tok", 0x1010EB00)
                            except StopAsyncIteration: pass
                            if _ == 0: getattr(c2, setter)(*val); cap.clear()
                        real2 = hx(cap[-1][0]) + "|" + hx(cap[-1][1]) if cap else "none"
                        if real2 != real:
                            ctx.violation("setter-after-use:nnas.%s" % setter, "NNASClient.%s%r after a first %s call does not have the effect it has before the first call" % (setter, val, which),
                                          {"setter": setter, "value": repr(val), "request_before": bytes.fromhex(real.split("|")[1]).decode("utf-8", "replace") if "|" in real else real,
                                           "request_after": bytes.fromhex(real2.split("|")[1]).decode("utf-8", "replace") if "|" in real2 else real2})
                        lines.append("nnas %s -- %s" % (enc_set(setter, val), "login s:%s s:%s none" % (hx("user name"), hx("p&w")) if which == "login" else "token s:%s n:%d" % (hx("tok"), 0x1010EB00)))
                        reals.append(real); meta.append(("nnas", setter))
                if obs[0] == obs[2] and obs[1] == obs[3]:
                    ctx.violation("setter-no-effect:nnas.%s" % setter, "NNASClient.%s changes no request" % setter, {"setter": setter, "values": repr(vals)})
            # --- nasc
            nasc.datetime.datetime = FixedDT
            try:
                for setter in sorted(n for n in dir(nasc.NASCClient) if n.startswith("set_")):
                    vals = NASC_SETTERS.get(setter, "?")
                    if vals == "?":
                        ctx.violation("setter-unknown:nasc.%s" % setter, "setter nasc.%s is not known to the check" % setter, {"setter": setter}); continue
                    if vals is None:
                        continue
                    obs = []
                    for val in vals:
                        c = nasc.NASCClient()
                        base = [("set_title", (0x0004000000030800, 1, "----", "00", 0, None)), ("set_device", ("SER0", "000000000000", b"\x00", "", "2")), ("set_user", (1, "h0")),
                                ("set_network", ("0011223344ff", "01:0000000000"))]
                        seq = [b for b in base if b[0] != setter and not (setter == "set_password" and b[0] == "set_user")] + [(setter, val)]
                        err = None
                        for nm, a in seq:
                            try: getattr(c, nm)(*a)
                            except Exception as e: err = e
                        cap.clear()
                        try: await c.login(0x00030800, "nick é")
                        except StopAsyncIteration: pass
                        except Exception as e: err = e
                        real = ("ok " + hx(cap[-1][0]) + "|" + hx(cap[-1][1])) if cap else "err " + exc_name(err)
                        obs.append(real)
                        # the same setter after a first login on the same object
                        c2 = nasc.NASCClient(); err2 = None
                        for nm, a in base:
                            getattr(c2, nm)(*a)
                        cap.clear()
                        try: await c2.login(0x00030800, "nick é")
                        except StopAsyncIteration: pass
                        except Exception as e: pass
                        try: getattr(c2, setter)(*val)
                        except Exception as e: err2 = e
                        cap.clear()
                        try: await c2.login(0x00030800, "nick é")
                        except StopAsyncIteration: pass
                        except Exception as e: err2 = e
                        real2 = ("ok " + hx(cap[-1][0]) + "|" + hx(cap[-1][1])) if cap else "err " + exc_name(err2)
                        if real2 != real:
                            ctx.violation("setter-after-use:nasc.%s" % setter, "NASCClient.%s%r after a first login does not have the effect it has before the first login" % (setter, val),
                                          {"setter": setter, "value": repr(val), "request_before": real[:600], "request_after": real2[:600]})
                        lines.append("nasc s:%s %s -- login n:%d s:%s s:%s" % (hx(c.bss_id), " ".join(enc_set(nm, a) for nm, a in seq), 0x00030800, hx("nick é"), hx("240506070809")))
                        reals.append(real); meta.append(("nasc", setter))
                    if obs[0] == obs[1]:
                        ctx.violation("setter-no-effect:nasc.%s" % setter, "NASCClient.%s%r / %r: the login request is identical (the setter writes attributes nobody reads)" % (setter, vals[0], vals[1]),
                                      {"setter": setter, "values": repr(vals), "request": obs[0][:400], "fix": "fixes/C20_nasc_sdk_version.diff" if setter == "set_sdk_version" else None})
            finally:
                nasc.datetime.datetime = _dt.datetime
            # --- hpp
            from nintendo.nex import hpp, settings as nexsettings
            hosts = []
            for env in (None, "D1"):
                try:
                    c = hpp.HppClient(nexsettings.default(), 0x1234, "v1", 5, "pw")
                except Exception as e:
                    ctx.violation("construct:nintendo.nex.hpp.HppClient", "HppClient(settings, game_server_id, nex_version, pid, password) cannot be constructed: %r" % (e,),
                                  {"call": "nintendo.nex.hpp.HppClient(settings.default(), 0x1234, 'v1', 5, 'pw')", "exception": repr(e), "fix": "fixes/C20_hpp_cert.diff"})
                    break
                if env: c.set_environment(env)
                c.settings["prudp.access_key"] = "aabbccdd"
                cap.clear()
                try: await c.request(1, 2, b"x")
                except StopAsyncIteration: pass
                real = hx(cap[-1][0]) if cap else "none"
                hosts.append(real)
                if env:
                    c2 = hpp.HppClient(nexsettings.default(), 0x1234, "v1", 5, "pw"); c2.settings["prudp.access_key"] = "aabbccdd"
                    seen2 = []
                    for e2 in (None, env, "L1", env):
                        if e2: c2.set_environment(e2)
                        cap.clear()
                        try: await c2.request(1, 2, b"x")
                        except StopAsyncIteration: pass
                        seen2.append(hx(cap[-1][0]) if cap else "none")
                        mh = re.search(rb"\r\nHost: ([^\r]+)\r\n", cap[-1][1]) if cap else None
                        if cap and (mh is None or mh.group(1).decode() != cap[-1][0]):
                            ctx.violation("host-ignored:hpp", "HppClient Host header differs from the host it connects to", {})
                    if seen2 != [hosts[0], real, hosts[0], real]:
                        ctx.violation("setter-after-use:hpp.set_environment", "HppClient.set_environment(%r) after a first request does not change the host: requests went to %s"
                                      % (env, [bytes.fromhex(x).decode() if x != "none" else x for x in seen2]),
                                      {"sequence": "request(); set_environment(%r); request(); set_environment('L1'); request(); set_environment(%r); request()" % (env, env),
                                       "hosts": [bytes.fromhex(x).decode() if x != "none" else x for x in seen2],
                                       "expected": [bytes.fromhex(x).decode() for x in (hosts[0], real, hosts[0], real)]})
                lines.append("hpp n:%d %s" % (0x1234, "none" if env is None else "s:" + hx(env))); reals.append(real); meta.append(("hpp", "set_environment"))
                mh = re.search(rb"\r\nHost: ([^\r]+)\r\n", cap[-1][1]) if cap else None
                if cap and (mh is None or mh.group(1).decode() != cap[-1][0]):
                    ctx.violation("host-ignored:hpp", "HppClient Host header differs from the host it connects to", {})
            if len(hosts) == 2 and hosts[0] == hosts[1]:
                ctx.violation("setter-no-effect:hpp.set_environment", "HppClient.set_environment changes no request", {})
        finally:
            http.request = real_request
    anyio.run(main)
    outs = drv.batch(lines)
    diffs = []
    for line, real, model, m in zip(lines, reals, outs, meta):
        ctx.case(key="legacy/" + line[:100], nontrivial=True, tag="setter:%s.%s" % m)
        if real != model:
            diffs.append((line, real, model, m))
    return diffs


# ------------------------------------------------------------------------------------------------ constructors
CONSTRUCT_ARGS = {
    ("nintendo.switch.dauth", "DAuthClient"): lambda: (sc.KEYS,),
    ("nintendo.switch.sun", "SunClient"): lambda: (DEVID,),
    ("nintendo.switch.atumn", "AtumnClient"): lambda: (DEVID,),
    ("nintendo.switch.dragons", "DragonsClient"): lambda: (),
}


def construct_checks(ctx):
    docs = api_docs.parse_all(vf.REPO)
    sigs = [api_docs.public(s) for s in docs["sigs"]]
    classes = {(s["module"], s["name"]) for s in sigs if s["kind"] == "class"}
    inits = {}
    for s in sigs:
        if s["name"] == "__init__" and s["cls"]:
            inits.setdefault((s["module"], s["cls"]), []).append(s)
    n = 0
    for (mod, cls), lst in sorted(inits.items()):
        required = min(len([p for p in s["params"] if not p["has_default"] and not p.get("kwonly")]) for s in lst)
        if (mod, cls) in CONSTRUCT_ARGS: args = CONSTRUCT_ARGS[(mod, cls)]()
        elif required == 0: args = ()
        else: continue
        try:
            m = importlib.import_module(mod)
            obj = getattr(m, cls)
        except Exception:
            continue   # reported by the inventory
        n += 1
        ctx.case(key="construct/%s.%s" % (mod, cls), nontrivial=True, tag="construct")
        try:
            obj(*args)
        except Exception as e:
            ctx.violation("construct:%s.%s" % (mod, cls), "%s.%s%r cannot be constructed as documented: %r" % (mod, cls, args if args != (sc.KEYS,) else ("<keys>",), e),
                          {"call": "%s.%s(*%r)" % (mod, cls, "<keys>" if args == (sc.KEYS,) else args), "exception": repr(e)})
    ctx.extra["classes_constructed"] = n


# ------------------------------------------------------------------------------------------------ docs of the fields
def documented_fields_check(ctx, data, nexsettings):
    types = dict(data["fields"])
    s = nexsettings.Settings()
    for name, ty, default in data["documented"]:
        if name not in types:
            ctx.violation("settings-doc-missing:" + name, "documented setting %s does not exist" % name, {"key": name}); continue
        if types[name] != ty:
            ctx.violation("settings-doc-type:" + name, "documented type of %s is %s, the code says %s" % (name, ty, types[name]), {"key": name})
        d = default.strip()
        if d in data["consts"]: val = data["consts"][d]
        elif d.startswith('"'): val = d.strip('"')
        else:
            try: val = float(d) if ty == "float" else int(d, 0)
            except ValueError: val = d
        if s[name] != val:
            ctx.violation("settings-doc-default:" + name, "documented default of %s is %r, the shipped default is %r" % (name, val, s[name]), {"key": name})
        ctx.case(key="docfield/" + name, nontrivial=True, tag="docfield")


# ------------------------------------------------------------------------------------------------ run
def _cap_violations(ctx, per_family=4):
    """at most `per_family` reports per (kind, client) so that one defect does not flood the output"""
    orig, seen = ctx.violation, {}
    def limited(key, what, replay, no_input=False):
        parts = key.split(":")
        fam = parts[0] + ":" + (parts[1].split(".")[0] if len(parts) > 1 else "")
        is_known = any(k.get("status", "open") == "open" and k["property"] == ctx.prop and k["key"] == key for k in ctx._known)
        if not is_known:
            seen[fam] = seen.get(fam, 0) + 1
            if seen[fam] > per_family: return
        return orig(key, what, replay, no_input)
    ctx.violation = limited


def run(ctx):
    _cap_violations(ctx)
    logging.disable(logging.CRITICAL)
    ctx.rule = ("inventory: every documented signature of every reference page against the ast/inspect view of the module (exhaustive); "
                "settings: Settings()/load of the four shipped files, every key x a fixed list of values of every Python type plus random "
                "assignment sequences, copies; effects: every key x two values x five base configurations observed on the real consumer "
                "objects; setters: every set_* of the ten HTTP clients x two values x public calls, both before the first call and after a "
                "first call on the same object (same effect required); several Settings objects created / mutated / copied / loaded / reset in "
                "mixed order inside one fresh interpreter per scenario (fixed + seeded random), against an independent reference and the model; "
                "boundary values: every set_* of nnas / nasc / hpp and set_host(s) / set_power_state / set_platform_region / set_context of the seven Switch "
                "clients (and the device id of their constructors) with each parameter in turn at 0, '', b'', None, 2^w-1, 2^w (plus seeded combinations) x every "
                "public call (11 nnas call shapes, 2 nasc, hpp.request, the Switch calls at three system versions): carried in the documented place exactly once, "
                "same fields as for ordinary values, accepted; on one object: ordinary value, call, boundary value, call; boundary value then another setter; "
                "behaviour: two or more values of prudp.resend_timeout / resend_limit / ping_timeout / fragment_size / max_substream_id measured on real endpoints in "
                "virtual time (silent peer, link dying mid-session, idle connection, fragmentation, substreams), each session replayed through the Lean L1 model; "
                "nex.* at the RMC layer (harness/api_wire.py): nex.struct_header x nex.pid_size / nex.version / nex.client_version (7 combinations) x connection kind "
                "(prudp v0, v1, 2, lite) x minor versions of both ends (0..5 equal, mismatched, seeded) x the four shipped files, through real rmc.connect + "
                "BackEndClient / AuthenticationClient calls against a raw PRUDP endpoint and real rmc.serve / serve_on_transport against a raw PRUDP client, several "
                "calls per connection: request / response bodies and decoded values equal the encoding the caller's settings describe (independent encoder; "
                "Lean model NxModel/Api/Wire.lean). "
                "working directory (harness/c20_cwd.py): Settings() / Settings(name) / load / default / reset / copy for the four shipped names in fresh interpreters whose "
                "working directory is each of 9 synthetic layouts (the names as directories / stray files with other values / garbage / empty, <name>.cfg and "
                "files/config/<name>.cfg look-alikes, the mixture) and the existing directories of the tree under test (examples/, nintendo/, ...), started there, chdir after "
                "import, chdir mid-sequence: typed values of the shipped files after every step; replayed through the Lean heap model. "
                "failing callback (harness/c20_cbfail.py): every public call of the seven callback clients x 11 connection-loss errors x first / second / every invocation "
                "failing x with / without configured host and context, all other ways to the network replaced by spies: 0 requests outside the callback, configured "
                "host / context on every invocation. "
                "setter sequences (harness/c20_optseq.py): every set_* of the ten clients in every spelling its signature allows (optional arguments positionally up to "
                "the j-th, every subset by keyword, explicitly as the default, omitted) x all pairs and triples of calls with distinct argument tuples on one object, with "
                "and without a request in between: every public call = the request of a fresh client on which only the last call was made; nnas / nasc pairs replayed "
                "through the Lean request model. "
                "knobs on the wire (harness/c20_knobwire.py): prudp.compression x prudp.fragment_size x session key x substreams x UDP v0 / UDP v1 / TCP / WebSocket, "
                "reliable and UNRELIABLE DATA in both directions on real endpoints in virtual time: every DATA payload, cipher undone by an independent RC4 with the "
                "prescribed key, is the application's fragment (compression off) or a zlib frame of it (compression on); decoded also by the Lean payload model, "
                "uncompressed sessions replayed through the Lean L1 endpoint model. "
                "first import (harness/c20_import.py): every documented module alone as the first import of a fresh interpreter, every ordered pair of documented "
                "modules on an import cycle of the tree under test (ast import graph, strongly connected components) and a seeded sample of ordered pairs joined by "
                "an import edge: the module imports, every documented name is there and every constructible documented class constructs, as in the check's own process. "
                "rejected setter calls (harness/c20_reject.py): rejected values of every set_* discovered black-box (integer sweep -2..2200 + large values, unsupported-"
                "looking values for every parameter and pair of parameters), rejected x accepted values on both sides of every threshold (ends of the accepted range, "
                "integer constants the client's module compares with) x 8 history shapes on one object x every public call = the client that never saw the rejected call. "
                "A case is non-trivial when it "
                "reaches the code under test; distinct = distinct (kind, inputs)")
    api_inventory.run(ctx)
    import c20_import
    import_handle = c20_import.launch(ctx)      # fresh interpreters run in the background while the other families work
    from nintendo.nex import settings as nexsettings
    data = aset.extract(vf.REPO)
    # kernel obligations over the translated settings table and files
    src = aset.emit_lean(data)
    ok, out = ctx.lean_check("Settings_C20", src)
    where = {i + 1: m.group(1) for i, l in enumerate(src.split("\n")) for m in [re.match(r"theorem (\w+)", l)] if m}
    failed = set()
    for m in re.finditer(r"Settings_C20\.lean:(\d+):\d+: error", out):
        c = [k for k in where if k <= int(m.group(1))]
        failed.add(where[max(c)] if c else "<preamble>")
    if not ok and not failed: failed.add("<file>")
    for n in aset.OBLIGATIONS:
        ctx.obligation(n not in failed)
    drv = ctx.driver()
    diffs = []
    diffs += objects_checks(ctx, data, drv)
    diffs += [("settings",) + d for d in settings_checks(ctx, data, drv, nexsettings)]
    import c20_cwd
    diffs += c20_cwd.run(ctx, data, drv, vf.REPO, hx, canon_model_dump, aset.CFGS)
    diffs += [("effects",) + d for d in effects_checks(ctx, data, drv, nexsettings)]
    documented_fields_check(ctx, data, nexsettings)
    mods = sc.load_modules()
    tdata = st.extract(vf.REPO)
    switch_setter_checks(ctx, mods, tdata, None)
    import c20_cbfail
    c20_cbfail.run(ctx, mods)
    diffs += [("legacy",) + d[:3] for d in legacy_checks(ctx, drv)]
    import api_boundary
    diffs += api_boundary.run(ctx, drv, mods, ctx.driver("C18"), st.driver_lines(tdata))
    construct_checks(ctx)
    import api_behaviour
    api_behaviour.run(ctx, ctx.driver("C02"))
    import api_wire
    api_wire.run(ctx, drv)
    import c20_optseq, time as _time
    t0 = _time.time()
    diffs += c20_optseq.run(ctx, drv, mods)
    t1 = _time.time()
    import c20_knobwire
    diffs += c20_knobwire.run(ctx, ctx.driver("C08"), ctx.driver("C02"))
    t2 = _time.time()
    import c20_reject
    diffs += c20_reject.run(ctx, drv, mods)
    t3 = _time.time()
    c20_import.collect(ctx, import_handle)
    ctx.extra["seconds_optseq_knobwire"] = [round(t1 - t0, 1), round(t2 - t1, 1)]
    ctx.extra["seconds_reject_importwait"] = [round(t3 - t2, 1), round(_time.time() - t3, 1)]
    ctx.traces_validated += len(diffs) * 0 + ctx.evaluations
    for name in sorted(failed):
        if not [v for v in ctx.violations if not v[3]]:
            ctx.corr_break("settings:" + name, "generated settings obligation %s no longer checks" % name, {"lean_output": out[-1500:]})
    real_viol = [v for v in ctx.violations if not v[3]]
    if diffs and not real_viol and not [k for k in ctx.known_hits if k[0].startswith(("setter-no-effect", "construct:", "setting-"))]:
        d = diffs[0]
        ctx.corr_break("c20-model-correspondence:" + d[0], "real code and Lean model disagree on %d line(s)" % len(diffs), {"line": d[1][:1500], "real": d[2][:2000], "model": d[3][:2000]})
    elif diffs and not real_viol:
        # differences that are not explained by a known finding still count
        unexplained = [d for d in diffs if not (d[0] == "legacy" and "set_sdk_version" in d[1])]
        if unexplained:
            d = unexplained[0]
            ctx.corr_break("c20-model-correspondence:" + d[0], "real code and Lean model disagree on %d line(s)" % len(unexplained), {"line": d[1][:1500], "real": d[2][:2000], "model": d[3][:2000]})
    ctx.extra["c20_correspondence_diffs"] = len(diffs)
    ctx.extra["c20_first_diffs"] = [{"kind": d[0], "line": d[1][:200], "real": d[2][:300], "model": d[3][:300]} for d in diffs[:6]]
    ctx.extra["settings_obligations_failed"] = sorted(failed)
