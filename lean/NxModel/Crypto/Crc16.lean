import NxModel.Bytes
/-!
# The two CRC-16 variants of the library

* `miiCrc16`  — `nintendo/miis.py` `crc16`: bitwise, polynomial 0x1021, MSB first, initial value 0,
  the data byte is xored into the *low* byte *after* the eight shifts (the "augmented message" form).
* `prodCrc16` — `nintendo/switch/__init__.py` `crc16`: nibble table (reflected 0xA001), initial value 0x55AA.

Both are written as the Python is written (unbounded ints = `Nat`, explicit masks).
-/
namespace Nx.Crypto
open Nx

/-- one iteration of the inner `for i in range(8)` loop of `miis.crc16` -/
def miiShift1 (h : Nat) : Nat :=
  let flag := h &&& 0x8000
  let h' := (h <<< 1) &&& 0xFFFF
  if flag ≠ 0 then h' ^^^ 0x1021 else h'

def miiShiftN : Nat → Nat → Nat
  | 0, h => h
  | n + 1, h => miiShiftN n (miiShift1 h)

/-- the eight shifts done per data byte -/
def miiShift8 (h : Nat) : Nat := miiShiftN 8 h

/-- the outer loop, started from an arbitrary `hash` -/
def miiCrcFrom (h : Nat) : Bytes → Nat
  | [] => h
  | c :: r => miiCrcFrom (miiShift8 h ^^^ c.toNat) r

/-- `miis.crc16(data)` -/
def miiCrc16 (d : Bytes) : Nat := miiCrcFrom 0 d

def prodTable : Array Nat := #[
  0x0000, 0xCC01, 0xD801, 0x1400, 0xF001, 0x3C00, 0x2800, 0xE401,
  0xA001, 0x6C00, 0x7800, 0xB401, 0x5000, 0x9C01, 0x8801, 0x4400]

def prodStep (h : Nat) (byte : UInt8) : Nat :=
  let r := prodTable[h &&& 0xF]!
  let h := (h >>> 4) ^^^ r ^^^ prodTable[byte.toNat &&& 0xF]!
  let r := prodTable[h &&& 0xF]!
  (h >>> 4) ^^^ r ^^^ prodTable[byte.toNat >>> 4]!

/-- `nintendo.switch.crc16(data)` -/
def prodCrc16 (d : Bytes) : Nat := d.foldl prodStep 0x55AA

/-! independent reference for the calibration CRC: bit-serial reflected CRC-16 (poly 0xA001, "ARC"/MODBUS
family) with initial value 0x55AA — written from the algorithm's textbook definition, not from the table -/
def refBit (h : Nat) : Nat := if h % 2 = 1 then (h / 2) ^^^ 0xA001 else h / 2
def refByte (h : Nat) (b : UInt8) : Nat :=
  let h := h ^^^ b.toNat
  refBit (refBit (refBit (refBit (refBit (refBit (refBit (refBit h)))))))
def refCrc16Arc (init : Nat) (d : Bytes) : Nat := d.foldl refByte init

/-- independent reference for the Mii checksum: the CRC-16/XMODEM register (poly 0x1021, init 0, MSB first,
    byte xored into the *high* byte *before* the shifts). `miiCrc16 (d ++ [0,0]) = xmodem d` is the
    classical augmented-message identity. -/
def xmodemByte (h : Nat) (b : UInt8) : Nat := miiShift8 (h ^^^ (b.toNat <<< 8))
def xmodem (d : Bytes) : Nat := d.foldl xmodemByte 0

end Nx.Crypto
