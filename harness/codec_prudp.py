"""Shared helpers for the C03 / C08 harnesses: packet generators, wrappers around the real
PRUDP codec classes, and the text form understood by the Lean drivers
(lean/NxModel/Prudp/PacketIO.lean)."""
import struct
from nintendo.nex import prudp, settings as nexsettings

FIELDS = ["type", "flags", "version", "source_type", "source_port", "dest_type", "dest_port",
          "session_id", "packet_id", "fragment_id", "substream_id", "connection_signature",
          "initial_unreliable_id", "max_substream_id", "supported_functions", "minor_version",
          "signature", "payload"]


def exc_name(e):
    if isinstance(e, struct.error): return "StructError"
    if isinstance(e, OverflowError): return "OverflowError"
    if isinstance(e, UnicodeError): return "UnicodeError"
    if isinstance(e, ValueError): return "ValueError"
    if isinstance(e, TypeError): return "TypeError"
    if isinstance(e, IndexError): return "IndexError"
    if isinstance(e, KeyError): return "KeyError"
    return "Other"


def hx(b):
    return b.hex() if b else "-"


def unhx(s):
    return b"" if s == "-" else bytes.fromhex(s)


def optb(b):
    return "none" if b is None else hx(b)


def fields_of(p):
    """tuple of the 18 semantic fields of a real PRUDPPacket"""
    return tuple(getattr(p, f) for f in FIELDS)


def fmt_fields(t):
    (ty, fl, ver, st, sp, dt, dp, se, pid, fr, sub, cs, iu, ms, sf, mv, sig, pl) = t
    return "%d %d %s %d %d %d %d %d %d %d %d %s %d %d %d %d %s %s" % (
        ty, fl, "none" if ver is None else str(ver), st, sp, dt, dp, se, pid, fr, sub, optb(cs), iu, ms, sf, mv,
        optb(sig), hx(pl))


def fmt_packet(p):
    return fmt_fields(fields_of(p))


def fmt_packets(ps):
    return "ok" if not ps else "ok " + " | ".join(fmt_packet(p) for p in ps)


def make_packet(t):
    p = prudp.PRUDPPacket()
    for f, v in zip(FIELDS, t):
        setattr(p, f, v)
    return p


def make_settings(transport=0, version=2, sv=0, cv=1, fv=1, key=""):
    s = nexsettings.default()
    s["prudp.transport"] = transport
    s["prudp.version"] = version
    s["prudp_v0.signature_version"] = sv
    s["prudp_v0.checksum_version"] = cv
    s["prudp_v0.flags_version"] = fv
    s["prudp.access_key"] = key
    return s


def cfg_str(sv, cv, fv, key):
    return "%d %d %d %s" % (sv, cv, fv, hx(key.encode()))


ACCESS_KEYS = ["", "ridfebb9", "6f599f81", "a", "éü中", "x" * 64, "\x7f\x00\x01", "9f2b4678"]

V0_VARIANTS = [(sv, cv, fv) for sv in (0, 1) for cv in (0, 1) for fv in (0, 1)]

FLAG_BITS = [1, 2, 4, 8, 0x200]


def safe(fn, *a):
    try:
        return fn(*a)
    except Exception as e:
        return e


# --------------------------------------------------------------------------------------------
# generators of well-formed packets (the quantifier of C03) per encoding

def edge(rng, edges, hi, p=0.45):
    return rng.choice(edges) if rng.random() < p else rng.randint(0, hi)


def gen_payload(rng, big=0.1):
    r = rng.random()
    if r < 0.22: n = 0
    elif r < 0.75: n = rng.randint(1, 24)
    elif r < 1 - big: n = rng.randint(25, 300)
    else: n = rng.choice([1364, 1399, 1400, 1024, rng.randint(301, 1400)])
    return rng.randbytes(n)


def gen_flags(rng, width):
    """flag words: subsets of the five defined flags (legal for the width) mostly, any value sometimes"""
    r = rng.random()
    if r < 0.75:
        f = 0
        for b in FLAG_BITS:
            if b < (1 << width) and rng.random() < 0.4: f |= b
        return f
    if r < 0.85: return (1 << width) - 1
    return rng.randint(0, (1 << width) - 1)


U8E = [0, 1, 0x7F, 0x80, 0xFE, 0xFF]
U16E = [0, 1, 0xFF, 0x100, 0x7FFF, 0x8000, 0xFFFE, 0xFFFF]
N4E = [0, 1, 7, 8, 0xA, 0xF]


def gen_type(rng, maxtype):
    return rng.randint(0, 4) if rng.random() < 0.9 else rng.randint(5, maxtype)


def gen_v0(rng, fv, ptype=None, flags=None):
    ty = gen_type(rng, 7 if fv == 0 else 15) if ptype is None else ptype
    fl = gen_flags(rng, 5 if fv == 0 else 12) if flags is None else flags
    cs = rng.randbytes(4) if ty in (0, 1) else None
    fr = edge(rng, U8E, 255) if ty == 2 else 0
    return (ty, fl, 0, edge(rng, N4E, 15), edge(rng, N4E, 15), edge(rng, N4E, 15), edge(rng, N4E, 15),
            edge(rng, U8E, 255), edge(rng, U16E, 65535), fr, 0, cs, 0, 0, 0, 0,
            rng.choice([bytes(4), b"\x78\x56\x34\x12", b"\xff" * 4]) if rng.random() < 0.3 else rng.randbytes(4),
            gen_payload(rng))


def gen_v1(rng, ptype=None, flags=None):
    ty = gen_type(rng, 15) if ptype is None else ptype
    fl = gen_flags(rng, 12) if flags is None else flags
    sc = ty in (0, 1)
    return (ty, fl, 1, edge(rng, N4E, 15), edge(rng, N4E, 15), edge(rng, N4E, 15), edge(rng, N4E, 15),
            edge(rng, U8E, 255), edge(rng, U16E, 65535), edge(rng, U8E, 255) if ty == 2 else 0,
            edge(rng, [0, 1, 2, 3, 0xFF], 255),
            rng.randbytes(16) if sc else None,
            edge(rng, U16E, 65535) if ty == 1 else 0,
            edge(rng, [0, 1, 3, 0xFF], 255) if sc else 0,
            edge(rng, [0, 1, 4, 0xFF, 0x100, 0xFFFFFF, 0x800000], 0xFFFFFF) if sc else 0,
            edge(rng, U8E, 255) if sc else 0,
            rng.randbytes(16), gen_payload(rng))


def gen_lite(rng, ptype=None, flags=None):
    ty = gen_type(rng, 15) if ptype is None else ptype
    fl = gen_flags(rng, 12) if flags is None else flags
    sc = ty in (0, 1)
    cs = rng.randbytes(16) if (ty == 0 and fl & 1) else b""
    sig = rng.randbytes(16) if (ty == 1 and not fl & 1) else None
    return (ty, fl, None, edge(rng, N4E, 15), edge(rng, U8E, 255), edge(rng, N4E, 15), edge(rng, U8E, 255),
            0, edge(rng, U16E, 65535), edge(rng, U8E, 255), 0, cs, 0, 0,
            edge(rng, [0, 1, 4, 0xFF, 0x100, 0xFFFFFF, 0x800000], 0xFFFFFF) if sc else 0,
            edge(rng, U8E, 255) if sc else 0, sig, gen_payload(rng))


def gen_raw(rng):
    """field tuples outside the well-formed sets: out-of-range ints, None / wrong-length signatures"""
    def big(hi):
        r = rng.random()
        if r < 0.6: return rng.randint(0, hi)
        if r < 0.8: return hi + 1
        return rng.choice([hi + 2, 2 * hi + 1, 4 * hi + 5, 1 << 16, 1 << 32, (1 << 32) + 5, 1 << 24])
    def bts(n):
        r = rng.random()
        if r < 0.55: return rng.randbytes(n)
        if r < 0.7: return None
        return rng.randbytes(rng.choice([0, 1, n - 1, n + 1, 2 * n, 40]))
    return (rng.choice([0, 1, 2, 3, 4, 5, 7, 8, 15, 16, 17]), big(4095), rng.choice([None, 0, 1, 2]),
            big(15), big(15), big(15), big(15), big(255), big(65535), big(255), big(255), bts(16 if rng.random() < .5 else 4),
            big(65535), big(255), big(0xFFFFFF), big(255), bts(16 if rng.random() < .5 else 4),
            rng.randbytes(rng.choice([0, 1, 5, 30])) if rng.random() < 0.97 else bytes(65536))
