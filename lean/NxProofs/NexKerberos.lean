import NxModel.Nex.Kerberos
import NxProofs.NexStreams
/-! proofs about the Kerberos envelope, tickets and key derivation -/
namespace Nx.Nex.Kerberos
open Nx Nx.Nex Nx.Crypto

/-- RC4 is xor with a key stream that does not depend on the data: applying it twice from the same state is the identity -/
theorem rc4Apply_involution (st : Rc4) (x : Bytes) : (rc4Apply st (rc4Apply st x).1).1 = x := by
  induction x generalizing st with
  | nil => rfl
  | cons a r ih =>
    simp only [rc4Apply]
    rw [ih]
    congr 1
    rw [UInt8.xor_assoc, UInt8.xor_self, UInt8.xor_zero]

theorem rc4_involution (key x : Bytes) : rc4 key (rc4 key x) = x := rc4Apply_involution _ x

end Nx.Nex.Kerberos
