import NxProofs.Schema
import NxProofs.Rmc
/-!
# C14 — values survive a client → server → client round trip through any generated method

Model: the schema interpreter of C13 (`NxModel/Nex/Schema.lean`) composed with the RMC framing of C09
(`NxModel/Nex/Rmc.lean`). The PRUDP layer underneath is C01's subject; here a message handed to the RMC layer
is the message the peer's RMC layer receives. Statements only; proofs in `NxProofs/Schema.lean`, `NxProofs/Rmc.lean`.

`forward_compat` needs "revisions ascending" — for every `nex.version` the number the generated `max_version`
returns bounds every reachable `revision` block (`Items.revAscending`, a kernel-checked generated obligation per
versioned structure). It FAILS today for `MatchmakeSession` (`revision 1,2,3` followed by `nex 40000 { revision 0 }`:
from NEX 4.0 on `max_version` is 0 although revision-1..3 blocks are reachable); `forward_compat_counterexample`
proves the negation on the same shape, the check reproduces it on the real class (known finding).
-/
namespace Nx.C14
open Nx Nx.Schema

/-- **forward compatibility**, one hierarchy level, any hooks: with structure headers on, a header announcing
    any revision `v' ≥ max_version` and any bytes `x` appended *inside* the length-prefixed body decode to the same
    attributes, and the rest of the message is untouched -/
theorem forward_compat (env : Env) (cfg : Cfg) (ver : Nat) (leaf : Items × List Val) (d : StructDef)
    {E : EncHook} {D : DecHook} {V : VisHook} (H : HookRT E D V) (hh : cfg.structHeader = true)
    (vs vs' : List Val) (b : Bytes) (henc : encClass E env cfg ver leaf d vs = .ok (b, vs'))
    (hb : revsBelow ver cfg.nexVersion d.items = true) :
    ∃ body, b = u8 ver ++ u32le body.length ++ body ∧
      ∀ (v' : Nat) (x r : Bytes), ver ≤ v' → v' < 256 → body.length + x.length < 4294967296 →
        decClass D env cfg d (u8 v' ++ u32le (body.length + x.length) ++ (body ++ x) ++ r)
          = .ok ((visItems V cfg ver d.items vs).1, r) :=
  forward_compat_class env cfg ver leaf d H hh vs vs' b henc hb

/-- the generated obligation `rev_ascending_<Struct>` gives the hypothesis of `forward_compat` for every
    `nex.version` at once (only the gate thresholds are enumerated by the checker) -/
theorem revisions_ascending_sound {it : Items} (h : it.revAscending = true) (nex : Nat) :
    revsBelow (maxVersion nex it) nex it = true ∧ maxVersion nex it < 256 :=
  revAscending_sound h nex

/-- forward compatibility of a whole instance of a versioned structure without base class, as
    `Structure.encode` / `Structure.decode` see it -/
theorem forward_compat_struct (env : Env) (cfg : Cfg) (f : Nat) (c : Name) (d : StructDef)
    (hl : lookup env c = some d) (hp : d.parent = none) (hh : cfg.structHeader = true)
    (hasc : d.items.revAscending = true) (vs vs' : List Val) (b : Bytes)
    (henc : encObj env cfg (f + 1) c vs = .ok (b, vs')) :
    ∃ body, b = u8 (effMaxVersion env cfg.nexVersion (f + 1) c) ++ u32le body.length ++ body ∧
      ∀ (v' : Nat) (x r : Bytes), effMaxVersion env cfg.nexVersion (f + 1) c ≤ v' → v' < 256 →
        body.length + x.length < 4294967296 →
        decObj env cfg (f + 1) c (u8 v' ++ u32le (body.length + x.length) ++ (body ++ x) ++ r)
          = .ok ((visObj env cfg (f + 1) c vs).1, r) :=
  forward_compat_root env cfg f c d hl hp hh hasc vs vs' b henc

/-- without ascending revisions the property is false: the shape of `MatchmakeSession` at NEX 4.0 writes
    revision 0; the same bytes announced as revision 1 with one trailing byte no longer decode -/
theorem forward_compat_counterexample :
    Ex.session.items.revAscending = false
    ∧ encObj Ex.env Ex.cfgNew 8 77 [.int 7, .str [0x41], .list [.int 1], .int 99, .str [0x42]]
        = .ok ([0, 8, 0, 0, 0, 7, 0, 0, 0, 2, 0, 65, 0] ++ ([0, 9, 0, 0, 0] ++ [1, 0, 0, 0, 1, 2, 0, 66, 0]), [])
    ∧ decObj Ex.env Ex.cfgNew 8 77
        ([0, 8, 0, 0, 0, 7, 0, 0, 0, 2, 0, 65, 0] ++ ([1, 10, 0, 0, 0] ++ ([1, 0, 0, 0, 1, 2, 0, 66, 0] ++ [0xAA])) ++ [9])
        = .error .overflow := by
  refine ⟨by decide, by rfl, by rfl⟩

/-- request leg: what the generated client hands to the RMC layer, framed, parsed by the peer's RMC layer and
    decoded by the generated server, is the visible argument list — with the protocol id, method id and call id
    it was sent with -/
theorem rpc_roundtrip_request {env : Env} {cfg : Cfg} {fuel : Nat} {p : ProtoDef} {m : MethodDef} {args : List Val}
    {pi mi : Nat} {body : Bytes} (h : clientRequest env cfg fuel p m args = .ok (pi, mi, body))
    (callId : Nat) (hwf : (Rmc.Spec.request pi callId mi body).WF) :
    ∃ wire msg, Rmc.encode (Rmc.ofSpec (.request pi callId mi body)) = .ok wire ∧ Rmc.decode wire = .ok msg
      ∧ msg.mode = 0 ∧ msg.protocol = p.id ∧ msg.method = some m.id ∧ msg.callId = callId
      ∧ serverRequest env cfg fuel m msg.body = .ok (visArgs env cfg fuel m.request args) := by
  obtain ⟨h1, h2, h3⟩ := clientRequest_ok h
  refine ⟨_, _, Rmc.encode_ofSpec _ hwf, Rmc.decode_specEncode _ hwf, rfl, h1, by rw [← h2]; rfl, rfl, ?_⟩
  have := serverRequest_of_client h3 []
  simpa [Rmc.ofSpec] using this

/-- response leg: what the generated server wrote, framed as a success response and parsed by the caller's RMC
    layer, is decoded by the generated client to the visible results (and the call id is the request's) -/
theorem rpc_roundtrip_response {env : Env} {cfg : Cfg} {fuel : Nat} {m : MethodDef} {res : List Val} {body : Bytes}
    (h : serverResponse env cfg fuel m res = .ok body) (protocol callId : Nat)
    (hwf : (Rmc.Spec.success protocol callId m.id body).WF) :
    ∃ wire msg, Rmc.encode (Rmc.ofSpec (.success protocol callId m.id body)) = .ok wire ∧ Rmc.decode wire = .ok msg
      ∧ msg.mode = 1 ∧ msg.callId = callId ∧ msg.error = -1
      ∧ clientResponse env cfg fuel m msg.body = .ok (visArgs env cfg fuel m.response res) := by
  refine ⟨_, _, Rmc.encode_ofSpec _ hwf, Rmc.decode_specEncode _ hwf, rfl, rfl, rfl, ?_⟩
  exact clientResponse_of_server (serverResponse_ok h)

/-- methods the definition marks unsupported, methods a server class leaves unimplemented and unknown method
    ids all end in `Core::NotImplemented` -/
theorem not_supported {p : ProtoDef} {impl : Name → Bool} {id : Nat} :
    (findMethodById p id = none → dispatch p impl id = .notImplemented)
    ∧ (∀ m, findMethodById p id = some m → m.supported = false → dispatch p impl id = .notImplemented)
    ∧ (∀ m, findMethodById p id = some m → impl m.name = false → dispatch p impl id = .notImplemented) :=
  ⟨dispatch_unknown, fun _ h hs => dispatch_unsupported h hs, fun _ h hi => dispatch_unimplemented h hi⟩

/-- and only those: a supported, implemented method runs -/
theorem supported_runs {p : ProtoDef} {impl : Name → Bool} {id : Nat} {m : MethodDef}
    (h : findMethodById p id = some m) (hs : m.supported = true) (hi : impl m.name = true) :
    dispatch p impl id = .run m :=
  dispatch_run h hs hi

/-- `RMCClient` switches structure headers on when the negotiated PRUDP minor version is ≥ 3, and otherwise
    leaves the settings alone; nothing else changes -/
theorem struct_header_auto (cfg : Cfg) (minor : Nat) :
    (minor ≥ 3 → (rmcClientCfg cfg minor).structHeader = true)
    ∧ (minor < 3 → rmcClientCfg cfg minor = cfg)
    ∧ (rmcClientCfg cfg minor).nexVersion = cfg.nexVersion ∧ (rmcClientCfg cfg minor).pidSize = cfg.pidSize :=
  ⟨rmcClientCfg_header cfg minor, rmcClientCfg_keep cfg minor, (rmcClientCfg_other cfg minor).1, (rmcClientCfg_other cfg minor).2⟩

/-! non-vacuity -/
example : Ex.conn.items.revAscending = true := by decide
example : lookup Ex.env 82 = some Ex.conn ∧ Ex.conn.parent = none := by decide
-- RVConnectionData-like value at nex 4.0 with headers: revision 1, 19-byte body
example : encObj Ex.env Ex.cfgNew 8 82 [.str Schema.prudpUrl, .int 5]
    = .ok ([1, 18, 0, 0, 0] ++ [8, 0, 0x70, 0x72, 0x75, 0x64, 0x70, 0x3A, 0x2F, 0, 5, 0, 0, 0, 0, 0, 0, 0], []) := by rfl
-- announced as revision 7 with two trailing bytes inside the body: same attributes, rest untouched
example : decObj Ex.env Ex.cfgNew 8 82
    ([7, 20, 0, 0, 0] ++ [8, 0, 0x70, 0x72, 0x75, 0x64, 0x70, 0x3A, 0x2F, 0, 5, 0, 0, 0, 0, 0, 0, 0] ++ [0xAA, 0xBB] ++ [9, 9])
    = .ok ([.str Schema.prudpUrl, .int 5], [9, 9]) := by rfl
example : (Rmc.Spec.request 21 1 1 [7, 0, 0, 0]).WF := by decide
example : dispatch Ex.proto (fun _ => true) 2 = .notImplemented ∧ dispatch Ex.proto (fun _ => true) 1 = .run Ex.meth
    ∧ dispatch Ex.proto (fun _ => false) 1 = .notImplemented ∧ dispatch Ex.proto (fun _ => true) 3 = .notImplemented := by decide
example : (rmcClientCfg Ex.cfgOld 3).structHeader = true ∧ (rmcClientCfg Ex.cfgOld 2).structHeader = false := by decide

end Nx.C14
