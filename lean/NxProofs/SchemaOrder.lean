import NxProofs.Schema
/-!
# C13 — blocks with a repeated gate stay where the definition puts them

`MatchmakeSession` is declared `… nex 30500 { progress_score } nex 30000 { session_key } nex 30500 { option } …`: the same
gate twice with another block in between. The layout the definition states is the declaration order, each block under
its own gate; a reader that merges the later block into the earlier one (`nex 30500 { progress_score option }
nex 30000 { session_key }`) describes a different layout as soon as both gates are open. `ExOrder` holds that shape
(as written / merged) for the examples of `NxProps/C13.lean`.
-/
namespace Nx.Schema

/-- serialised attributes of `nex g {a} nex h {b} nex g {c} rest` with both gates open: declaration order -/
theorem active_repeat_in_place (g h nex ver : Nat) (a b c rest : Items) (hg : nex ≥ g) (hh : nex ≥ h) :
    (Items.nex g a (Items.nex h b (Items.nex g c rest))).active nex ver
      = a.active nex ver ++ (b.active nex ver ++ (c.active nex ver ++ rest.active nex ver)) := by
  simp [Items.active, hg, hh]

/-- below the repeated gate (and at or above the one in between) only the middle block is serialised -/
theorem active_repeat_closed (g h nex ver : Nat) (a b c rest : Items) (hg : ¬ nex ≥ g) (hh : nex ≥ h) :
    (Items.nex g a (Items.nex h b (Items.nex g c rest))).active nex ver
      = b.active nex ver ++ rest.active nex ver := by
  simp [Items.active, hg, hh]

namespace ExOrder

/-- `struct S { nex 30500 { uint8 score = 100; } nex 30000 { buffer key = ""; } nex 30500 { uint32 option = 0; } }` -/
def asWritten : StructDef :=
  { name := 85, parent := none,
    items := .nex 30500 (.field 1 (.uint .b1) true .nil)
            (.nex 30000 (.field 2 .buffer true .nil)
            (.nex 30500 (.field 3 (.uint .b4) true .nil) .nil)) }

/-- the same attributes after merging the second `nex 30500` block into the first -/
def merged : StructDef :=
  { name := 85, parent := none,
    items := .nex 30500 (.field 1 (.uint .b1) true (.field 3 (.uint .b4) true .nil))
            (.nex 30000 (.field 2 .buffer true .nil) .nil) }

def envW : Env := { structs := builtins ++ [asWritten], protos := [] }
def envM : Env := { structs := builtins ++ [merged], protos := [] }
def cfg305 : Cfg := { nexVersion := 30500, structHeader := false, pidSize := 4 }
def cfg304 : Cfg := { nexVersion := 30499, structHeader := false, pidSize := 4 }

end ExOrder
end Nx.Schema
