"""C01 — an acknowledgement that arrives while the retransmission timer of its packet is firing.

Nothing is lost, duplicated or reordered; the round trip is BELOW resend_timeout. A socket send takes time (a congested socket,
`tau` per datagram), and the acknowledgement arrives within `tau` before the packet's retransmission deadline. For the SYN this
means: handle() -> process_syn -> send_connect is still inside the socket when the SYN's timer fires; resend_packet() sends the
SYN once more (harmless) — and must then notice that the packet has been acknowledged meanwhile instead of arming the timer again.
If it re-arms, the SYN is retransmitted for ever, every further SYN/ACK makes the client send ANOTHER CONNECT, which takes the next
sequence id of substream 0 in the middle of the data stream; the server never sees those ids as window packets, the client->server
stream stalls behind the hole although every DATA packet is acknowledged, and after resend_limit retransmissions the client tears
the established connection down (found on the unchanged tree 2026-09-30, repaired in /repo: "fix: do not re-arm the
retransmission timer of a packet that was acknowledged while it was being re-sent").

The family enumerates the window: tau x one-way delay with 2*delay < resend_timeout < 2*delay + tau (and controls just outside
the window on either side), v0 / v1, with and without credentials, resend_limit 1..4, the slow socket on the client, on the server
or on both. The session sends several messages each way in two phases. Oracle = corr_C01.judge in the budget regime: everything
delivered in order, both ends still connected, no send raised. The sessions are judged on the real code only (a socket whose send
takes time is not an L2 notion; the L1 model's writes take no time).
"""
import traceback
import prudp_session as ps
import c01_slowlink as sl

RT = 1.0


def cases(quick):
    out = []
    # (tau, one_way): inside the window 2*ow < RT < 2*ow + tau, and controls (ack well before the deadline / after it)
    grid = [(0.25, 0.4375), (0.25, 0.46875), (0.25, 0.390625), (0.125, 0.46875), (0.125, 0.453125), (0.0625, 0.484375),
            (0.25, 0.25), (0.25, 0.53125), (0.125, 0.5)]
    for version in (1, 0):
        for tau, ow in grid:
            for who in ("c", "s", "cs"):
                for creds in ((False,) if quick and who != "c" else (False, True)):
                    for rl in ((3,) if quick else (1, 2, 3, 4)):
                        out.append({"version": version, "tau": tau, "one_way": ow, "who": who, "creds": creds, "resend_limit": rl})
    return out


def work(idx, seed, quick, judge):
    """seed = 'acktimer:<k>'; same result tuple as corr_C01.work"""
    k = int(seed.split(":")[1])
    cfg = None
    try:
        spec = cases(quick)[k]
        cfg = ps.Cfg(version=spec["version"], resend_timeout=RT, resend_limit=spec["resend_limit"], fragment_size=100, ping_timeout=4.0,
                     credentials=spec["creds"])
        links = {"c": {"mode": "sleep", "tau": spec["tau"]} if "c" in spec["who"] else None,
                 "s": {"mode": "sleep", "tau": spec["tau"]} if "s" in spec["who"] else None}
        script = [[("c", 0, b"hello"), ("c", 0, b"x" * 250), ("s", 0, b"reply"), ("s", 0, b"y" * 130)],
                  [("c", 0, b"again"), ("s", 0, b"and again")]]
        ow = spec["one_way"]
        sess = ps.run_session(cfg, 1, script, lambda sim, rng: (lambda tx: [ow]), setup=lambda sim, out: sl.install_links(sim, links),
                              max_time=120.0)
        # the budget: round trip below the resend timeout, nothing lost. (When 2*ow >= RT the round trip is NOT below the timeout:
        # those controls are judged for safety only.)
        regime = "budget" if 2 * ow < RT else "hostile"
        bad = judge(sess, regime)
        stats = {"tx": sum(1 for e in sess.netlog if e[0] in ("tx", "stx")), "regime": "acktimer-" + regime, "enc": "v%d" % cfg.version,
                 "msgs": len(sess.accepted), "connect_error": bool(sess.connect_error), "timed_out": sess.timed_out,
                 "acktimer": {"in_window": 2 * ow < RT < 2 * ow + spec["tau"], "delivered": sum(len(g) for g in sess.got.values())}}
        scr = [[(a, b, c.hex() if len(c) <= 16 else "(%d bytes)" % len(c), False) for a, b, c in ph] for ph in script]
        d = cfg.describe()
        d["acktimer"] = spec
        return idx, seed, d, scr, "acktimer-" + regime, 1, bad, [], [], stats, None
    except Exception:
        return idx, seed, cfg.describe() if cfg else {"scenario": seed}, None, "acktimer", 0, [], [], [], {}, traceback.format_exc()
