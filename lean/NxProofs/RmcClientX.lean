import NxModel.Nex.RmcClientX
import NxProofs.RmcClient
/-!
# Proofs about the extended machine (`cleanup()` with logout hooks) and about request ids

* `xrun_core`: the call-matching state and the call-matching outputs of the extended machine are those of
  the core machine on the core ops — whatever the hooks do (return, raise, never return), in whatever
  interleaving. Every C10 theorem about `run` therefore holds for connections with servers registered.
* `sent_ids_distinct`: all request messages of a run (one-way requests included) carry pairwise distinct
  call ids while the counter does not wrap.
-/
namespace Nx.RmcClient
open Nx Nx.Rmc

theorem coreOuts_append (a b : List XOut) : coreOuts (a ++ b) = coreOuts a ++ coreOuts b := by
  induction a with
  | nil => rfl
  | cons x r ih => cases x <;> simp [coreOuts, ih]

theorem coreOuts_map_core (l : List Out) : coreOuts (l.map .core) = l := by
  induction l with
  | nil => rfl
  | cons x r ih => simp [coreOuts, ih]

theorem coreOps_append (a b : List XOp) : coreOps (a ++ b) = coreOps a ++ coreOps b := by
  induction a with
  | nil => rfl
  | cons x r ih => cases x <;> simp [coreOps, ih]

theorem nextHook_core (x : XState) (rest : List Nat) :
    (nextHook x rest).1.core = x.core ∧ coreOuts (nextHook x rest).2 = [] := by
  cases rest <;> simp [nextHook, coreOuts]

/-- one extended step: the core state moves by `step` on a core op and not at all on a hook op -/
theorem xstep_core (x : XState) (op : XOp) :
    (xstep x op).1.core = (run x.core (coreOps [op])).1 ∧ coreOuts (xstep x op).2 = (run x.core (coreOps [op])).2 := by
  cases op with
  | core o =>
    simp only [xstep, coreOps, run]
    split
    · have h := nextHook_core { x with core := (step x.core o).1 } x.servers
      simp [coreOuts_append, coreOuts_map_core, h.1, h.2]
    · simp [coreOuts_map_core]
  | hookReturn =>
    simp only [xstep, coreOps, run]
    split
    · simp [coreOuts]
    · exact nextHook_core x _
  | hookRaise =>
    simp only [xstep, coreOps, run]
    split <;> simp [coreOuts]
  | peerRequest r =>
    simp only [xstep, coreOps, run, step]
    split <;> simp [coreOuts]
  | handlerEnd ok =>
    simp only [xstep, coreOps, run]
    split <;> simp [coreOuts]

theorem run_append (s : State) (a b : List Op) :
    run s (a ++ b) = ((run (run s a).1 b).1, (run s a).2 ++ (run (run s a).1 b).2) := by
  induction a generalizing s with
  | nil => simp [run]
  | cons op r ih => simp [run, ih, List.append_assoc]

/-- the extended machine projects onto the core machine -/
theorem xrun_core (x : XState) (ops : List XOp) :
    (xrun x ops).1.core = (run x.core (coreOps ops)).1 ∧ coreOuts (xrun x ops).2 = (run x.core (coreOps ops)).2 := by
  induction ops generalizing x with
  | nil => exact ⟨rfl, rfl⟩
  | cons op rest ih =>
    obtain ⟨h1, h2⟩ := xstep_core x op
    obtain ⟨i1, i2⟩ := ih (xstep x op).1
    have e : coreOps (op :: rest) = coreOps [op] ++ coreOps rest := by
      rw [← coreOps_append]; rfl
    simp only [xrun, e, run_append, coreOuts_append]
    rw [i1, i2, h1, h2]
    exact ⟨rfl, rfl⟩

/-- hooks are entered only by a closing step or by the previous hook's return: a step that enters a hook
    or finishes `cleanup()` leaves the core `closed` -/
theorem xstep_hook_closed (x : XState) (op : XOp) (hinv : x.pending ≠ [] → x.core.closed = true) (o : XOut)
    (ho : o ∈ (xstep x op).2) (hk : (∃ srv, o = .logout srv) ∨ o = .cleanupReturned ∨ o = .cleanupRaised) :
    (xstep x op).1.core.closed = true := by
  cases op with
  | core c =>
    by_cases hr : runsCleanup x.core c = true
    · have hc : (step x.core c).1.closed = true := by
        cases c <;> simp [runsCleanup] at hr
        all_goals simp [step, doCleanup, hr]
      simp only [xstep, hr, if_true]
      rw [(nextHook_core _ _).1]; exact hc
    · exfalso
      simp only [xstep, hr] at ho
      simp only [Bool.false_eq_true, if_false, List.mem_map] at ho
      obtain ⟨o', _, rfl⟩ := ho
      rcases hk with ⟨_, h⟩ | h | h <;> cases h
  | hookReturn =>
    simp only [xstep] at ho ⊢
    split at ho
    · simp at ho; subst ho; rcases hk with ⟨_, h⟩ | h | h <;> cases h
    · rename_i h; rw [(nextHook_core x _).1]; exact hinv (by simp [h])
  | hookRaise =>
    simp only [xstep] at ho ⊢
    split at ho
    · simp at ho; subst ho; rcases hk with ⟨_, h⟩ | h | h <;> cases h
    · rename_i h; exact hinv (by simp [h])
  | peerRequest r =>
    exfalso
    simp only [xstep, step] at ho
    split at ho <;> simp at ho <;> subst ho <;> rcases hk with ⟨_, h⟩ | h | h <;> cases h
  | handlerEnd ok =>
    exfalso
    simp only [xstep] at ho
    split at ho <;> simp at ho <;> subst ho <;> rcases hk with ⟨_, h⟩ | h | h <;> cases h

/-- invariant: while logout hooks are in progress the client is closed -/
theorem xstep_inv (x : XState) (op : XOp) (hinv : x.pending ≠ [] → x.core.closed = true) :
    (xstep x op).1.pending ≠ [] → (xstep x op).1.core.closed = true := by
  cases op with
  | core c =>
    by_cases hr : runsCleanup x.core c = true
    · have hc : (step x.core c).1.closed = true := by
        cases c <;> simp [runsCleanup] at hr
        all_goals simp [step, doCleanup, hr]
      intro _
      simp only [xstep, hr, if_true]
      rw [(nextHook_core _ _).1]; exact hc
    · simp only [xstep, hr, Bool.false_eq_true, if_false]
      intro hp
      exact step_closed_stays x.core c (hinv hp)
  | hookReturn =>
    simp only [xstep]
    split
    · exact hinv
    · rename_i h
      intro _
      rw [(nextHook_core x _).1]; exact hinv (by simp [h])
  | hookRaise =>
    simp only [xstep]
    split
    · exact hinv
    · intro hp; exact absurd rfl hp
  | peerRequest r =>
    simp only [xstep, step]
    split <;> exact hinv
  | handlerEnd ok =>
    simp only [xstep]
    split <;> exact hinv

theorem xrun_inv (x : XState) (ops : List XOp) (hinv : x.pending ≠ [] → x.core.closed = true) :
    (xrun x ops).1.pending ≠ [] → (xrun x ops).1.core.closed = true := by
  induction ops generalizing x with
  | nil => exact hinv
  | cons op rest ih => exact ih (xstep x op).1 (xstep_inv x op hinv)

theorem xstep_wake_outs (x : XState) (t : Nat) :
    (xstep x (.core (.wake t))).2 = (step x.core (.wake t)).2.map .core := by
  simp [xstep, runsCleanup]

theorem xrun_snoc (x : XState) (ops : List XOp) (op : XOp) :
    xrun x (ops ++ [op]) = ((xstep (xrun x ops).1 op).1, (xrun x ops).2 ++ (xstep (xrun x ops).1 op).2) := by
  induction ops generalizing x with
  | nil => simp [xrun]
  | cons o r ih => simp [xrun, ih, List.append_assoc]

/-! ## the peer's own requests -/

/-- a REQUEST received from the peer — whatever its call id — leaves the call-matching state untouched and produces
    no call-matching output (no event set, no call completed, no warning) -/
theorem xstep_peerRequest_core (x : XState) (r : PeerReq) :
    (xstep x (.peerRequest r)).1.core = x.core ∧ coreOuts (xstep x (.peerRequest r)).2 = [] := by
  simp only [xstep, step]
  split <;> simp [coreOuts]

theorem xstep_handlerEnd_core (x : XState) (ok : Bool) :
    (xstep x (.handlerEnd ok)).1.core = x.core ∧ coreOuts (xstep x (.handlerEnd ok)).2 = [] := by
  simp only [xstep]
  split <;> simp [coreOuts]

/-- received requests are inert for the core machine: removing them from a run changes neither the final state nor
    any output -/
theorem run_drop_requests (s : State) (ops : List Op) :
    run s ops = run s (ops.filter fun op => op != .recvRequest) := by
  induction ops generalizing s with
  | nil => rfl
  | cons op rest ih =>
    by_cases h : op = .recvRequest
    · subst h
      have : (List.filter (fun op => op != Op.recvRequest) (Op.recvRequest :: rest)) = List.filter (fun op => op != Op.recvRequest) rest := by
        simp
      rw [this, ← ih]
      simp [run, step]
    · have : (List.filter (fun op => op != Op.recvRequest) (op :: rest)) = op :: List.filter (fun op => op != Op.recvRequest) rest := by
        simp [h]
      rw [this]
      simp only [run]
      rw [ih]

/-- the extended reading of a datagram projects onto the core reading -/
theorem xopOfData_core (data : Bytes) :
    (xopOfData data).map (fun o => coreOps [o]) = (opOfData data).map fun o => [o] := by
  unfold xopOfData opOfData
  cases decode data with
  | error e => rfl
  | ok m =>
    by_cases h : m.mode = 0 <;> simp [h, coreOps]

theorem servedIds_append (a b : List XOut) : servedIds (a ++ b) = servedIds a ++ servedIds b := by
  induction a with
  | nil => rfl
  | cons x r ih => cases x <;> simp [servedIds, ih]

theorem answeredIds_append (a b : List XOut) : answeredIds (a ++ b) = answeredIds a ++ answeredIds b := by
  induction a with
  | nil => rfl
  | cons x r ih => cases x <;> simp [answeredIds, ih]

theorem servedIds_map_core (l : List Out) : servedIds (l.map .core) = [] := by
  induction l with
  | nil => rfl
  | cons x r ih => simp [servedIds, ih]

theorem answeredIds_map_core (l : List Out) : answeredIds (l.map .core) = [] := by
  induction l with
  | nil => rfl
  | cons x r ih => simp [answeredIds, ih]

theorem nextHook_served (x : XState) (rest : List Nat) :
    servedIds (nextHook x rest).2 = [] ∧ answeredIds (nextHook x rest).2 = [] ∧ (nextHook x rest).1.handling = x.handling := by
  cases rest <;> simp [nextHook, servedIds, answeredIds]

/-- one step serves exactly the peer request it received (if any), under that request's call id -/
theorem xstep_served (x : XState) (op : XOp) :
    servedIds (xstep x op).2 = (peerReqs [op]).map (·.callId) := by
  cases op with
  | core o =>
    simp only [xstep, peerReqs]
    split
    · simp [servedIds_append, servedIds_map_core, (nextHook_served _ _).1]
    · simp [servedIds_map_core]
  | hookReturn =>
    simp only [xstep, peerReqs]
    split
    · simp [servedIds]
    · simp [(nextHook_served _ _).1]
  | hookRaise =>
    simp only [xstep, peerReqs]
    split <;> simp [servedIds]
  | peerRequest r =>
    simp only [xstep, step, peerReqs]
    split <;> simp [servedIds]
  | handlerEnd ok =>
    simp only [xstep, peerReqs]
    split <;> simp [servedIds]

theorem peerReqs_append (a b : List XOp) : peerReqs (a ++ b) = peerReqs a ++ peerReqs b := by
  induction a with
  | nil => rfl
  | cons x r ih => cases x <;> simp [peerReqs, ih]

/-- every request of the peer is served exactly once — handed to the registered server's `handle`, or refused with the
    NotImplemented answer — under its own call id, in the order received, whatever else happens on the connection -/
theorem xrun_served (x : XState) (ops : List XOp) :
    servedIds (xrun x ops).2 = (peerReqs ops).map (·.callId) := by
  induction ops generalizing x with
  | nil => rfl
  | cons op rest ih =>
    have e : peerReqs (op :: rest) = peerReqs [op] ++ peerReqs rest := by
      rw [← peerReqs_append]; rfl
    simp only [xrun, servedIds_append, e, List.map_append]
    rw [xstep_served, ih]

/-- one step: an answer is sent only for the request being handled, and carries that request's call id -/
theorem xstep_answered (x : XState) (op : XOp) :
    (∀ id ∈ answeredIds (xstep x op).2, ∃ r, x.handling = some r ∧ r.callId = id) ∧
    (∀ r, (xstep x op).1.handling = some r → x.handling = some r ∨ r.callId ∈ servedIds (xstep x op).2) := by
  cases op with
  | core o =>
    simp only [xstep]
    split
    · refine ⟨by simp [answeredIds_append, answeredIds_map_core, (nextHook_served _ _).2.1], ?_⟩
      intro r h; rw [(nextHook_served _ _).2.2] at h; exact .inl h
    · exact ⟨by simp [answeredIds_map_core], fun r h => .inl h⟩
  | hookReturn =>
    simp only [xstep]
    split
    · exact ⟨by simp [answeredIds], fun r h => .inl h⟩
    · refine ⟨by simp [(nextHook_served _ _).2.1], ?_⟩
      intro r h; rw [(nextHook_served _ _).2.2] at h; exact .inl h
  | hookRaise =>
    simp only [xstep]
    split
    · exact ⟨by simp [answeredIds], fun r h => .inl h⟩
    · exact ⟨by simp [answeredIds], fun r h => .inl h⟩
  | peerRequest r =>
    simp only [xstep, step]
    split
    · refine ⟨by simp [answeredIds], ?_⟩
      intro r' h
      simp at h
      subst h
      right; simp [servedIds]
    · exact ⟨by simp [answeredIds], fun r h => .inl h⟩
  | handlerEnd ok =>
    simp only [xstep]
    split
    · exact ⟨by simp [answeredIds], fun r h => .inl h⟩
    · rename_i r h
      exact ⟨by simp [answeredIds, h], by simp⟩

/-- every answer sent in a run carries the call id of a peer request that was dispatched before it -/
theorem xrun_answered (x : XState) (ops : List XOp) (acc : List XOut)
    (hh : ∀ r, x.handling = some r → r.callId ∈ servedIds acc)
    (ha : ∀ id ∈ answeredIds acc, id ∈ servedIds acc) :
    ∀ id ∈ answeredIds (acc ++ (xrun x ops).2), id ∈ servedIds (acc ++ (xrun x ops).2) := by
  induction ops generalizing x acc with
  | nil => simpa [xrun] using ha
  | cons op rest ih =>
    obtain ⟨s1, s2⟩ := xstep_answered x op
    have := ih (xstep x op).1 (acc ++ (xstep x op).2)
      (by
        intro r hr
        rw [servedIds_append]
        rcases s2 r hr with h | h
        · exact List.mem_append_left _ (hh r h)
        · exact List.mem_append_right _ h)
      (by
        intro id hid
        rw [answeredIds_append] at hid
        rw [servedIds_append]
        rcases List.mem_append.mp hid with h | h
        · exact List.mem_append_left _ (ha id h)
        · obtain ⟨r, hr, rfl⟩ := s1 id h
          exact List.mem_append_left _ (hh r hr))
    simpa [xrun, List.append_assoc] using this

/-! ## request ids are pairwise distinct (one-way requests included) -/

/-- what one step does to the two counters, and what a `sent` output of that step looks like -/
structure StepFacts (s : State) (op : Op) : Prop where
  idLe : s.nextId ≤ (step s op).1.nextId
  idUp : (step s op).1.nextId ≤ s.nextId + (if isCall op then 1 else 0)
  taskLe : s.nextTask ≤ (step s op).1.nextTask
  sent : ∀ t id, Out.sent t id ∈ (step s op).2 →
    id = s.nextId ∧ (step s op).1.nextId = s.nextId + 1 ∧ t = s.nextTask ∧ (step s op).1.nextTask = s.nextTask + 1

theorem step_facts (s : State) (op : Op) (h : s.nextId + (if isCall op then 1 else 0) < 4294967296) : StepFacts s op := by
  cases op with
  | call nr =>
    have hmod : (s.nextId + 1) % 4294967296 = s.nextId + 1 := Nat.mod_eq_of_lt (by simp [isCall] at h; omega)
    cases hc : s.closed with
    | true => exact ⟨by simp [step, hc], by simp [step, hc], by simp [step, hc], by simp [step, hc]⟩
    | false =>
      cases nr with
      | true => exact ⟨by simp [step, hc, hmod], by simp [step, hc, hmod, isCall], by simp [step, hc], by simp [step, hc, hmod]⟩
      | false => exact ⟨by simp [step, hc, hmod], by simp [step, hc, hmod, isCall], by simp [step, hc], by simp [step, hc, hmod]⟩
  | recvResponse m =>
    cases hl : dlookup m.callId s.requests with
    | none => exact ⟨by simp [step, hl], by simp [step, hl], by simp [step, hl], by simp [step, hl]⟩
    | some t => exact ⟨by simp [step, hl], by simp [step, hl], by simp [step, hl], by simp [step, hl]⟩
  | recvRequest => exact ⟨by simp [step], by simp [step], by simp [step], by simp [step]⟩
  | eof =>
    cases hc : s.closed with
    | true => exact ⟨by simp [step, doCleanup, hc], by simp [step, doCleanup, hc], by simp [step, doCleanup, hc], by simp [step, doCleanup, hc]⟩
    | false => exact ⟨by simp [step, doCleanup, hc], by simp [step, doCleanup, hc], by simp [step, doCleanup, hc], by simp [step, doCleanup, hc]⟩
  | cleanup =>
    cases hc : s.closed with
    | true => exact ⟨by simp [step, doCleanup, hc], by simp [step, doCleanup, hc], by simp [step, doCleanup, hc], by simp [step, doCleanup, hc]⟩
    | false => exact ⟨by simp [step, doCleanup, hc], by simp [step, doCleanup, hc], by simp [step, doCleanup, hc], by simp [step, doCleanup, hc]⟩
  | wake t =>
    have hw : (step s (.wake t)).1.nextId = s.nextId ∧ (step s (.wake t)).1.nextTask = s.nextTask ∧
        ∀ t' id, Out.sent t' id ∉ (step s (.wake t)).2 := by
      simp only [step]
      split
      · simp
      · split
        · split
          · simp
          · split <;> simp
        · simp
    exact ⟨by rw [hw.1]; exact Nat.le_refl _, by rw [hw.1]; omega, by rw [hw.2.1]; exact Nat.le_refl _,
      fun t' id hm => absurd hm (hw.2.2 t' id)⟩

theorem nCalls_cons (op : Op) (rest : List Op) : nCalls (op :: rest) = nCalls rest + (if isCall op then 1 else 0) := by
  cases op <;> simp [nCalls, isCall, List.filter]

/-- every id sent in a run lies between the counter's initial and final value; the counter does not wrap -/
theorem sent_ids_bound (s : State) (ops : List Op) (h : s.nextId + nCalls ops < 4294967296) :
    (∀ t id, Out.sent t id ∈ (run s ops).2 → s.nextId ≤ id ∧ id < (run s ops).1.nextId ∧ s.nextTask ≤ t) ∧
    s.nextId ≤ (run s ops).1.nextId ∧ (run s ops).1.nextId ≤ s.nextId + nCalls ops := by
  induction ops generalizing s with
  | nil => simp [run, nCalls]
  | cons op rest ih =>
    have hn := nCalls_cons op rest
    have f := step_facts s op (by rw [hn] at h; omega)
    have hih := ih (step s op).1 (by rw [hn] at h; have := f.idUp; omega)
    have := f.idLe; have := f.idUp; have := f.taskLe
    simp only [run]
    refine ⟨?_, by omega, by rw [hn]; omega⟩
    intro t id hm
    rcases List.mem_append.mp hm with hm | hm
    · obtain ⟨b1, b2, b3, _⟩ := f.sent t id hm
      omega
    · obtain ⟨c1, c2, c3⟩ := hih.1 t id hm
      omega

/-- two request messages of one run never carry the same call id, one-way requests included, as long as the
    counter does not wrap (fewer than 2^32 − `nextId` requests): a call id names one request message -/
theorem sent_ids_distinct (s : State) (ops : List Op) (h : s.nextId + nCalls ops < 4294967296)
    (t t' id : Nat) (hi : Out.sent t id ∈ (run s ops).2) (hj : Out.sent t' id ∈ (run s ops).2) : t = t' := by
  induction ops generalizing s with
  | nil => simp [run] at hi
  | cons op rest ih =>
    have hn := nCalls_cons op rest
    have f := step_facts s op (by rw [hn] at h; omega)
    have hb := (sent_ids_bound (step s op).1 rest (by rw [hn] at h; have := f.idUp; omega)).1
    simp only [run] at hi hj
    rcases List.mem_append.mp hi with hi | hi <;> rcases List.mem_append.mp hj with hj | hj
    · obtain ⟨_, _, e1, _⟩ := f.sent t id hi
      obtain ⟨_, _, e2, _⟩ := f.sent t' id hj
      omega
    · obtain ⟨e1, e2, _, _⟩ := f.sent t id hi
      obtain ⟨c1, _, _⟩ := hb t' id hj
      omega
    · obtain ⟨e1, e2, _, _⟩ := f.sent t' id hj
      obtain ⟨c1, _, _⟩ := hb t id hi
      omega
    · exact ih (step s op).1 (by rw [hn] at h; have := f.idUp; omega) hi hj

end Nx.RmcClient
