"""Shared helpers of the C15/C16 harnesses: exception names, the token syntax of the C15 driver,
typed generic values over the real StreamOut/StreamIn, and generators."""
import struct
from nintendo.nex import streams, common, settings as nexsettings


def exc_name(e):
    if isinstance(e, struct.error): return "StructError"
    if isinstance(e, OverflowError): return "OverflowError"
    if isinstance(e, UnicodeError): return "UnicodeError"
    if isinstance(e, ValueError): return "ValueError"
    if isinstance(e, TypeError): return "TypeError"
    if isinstance(e, IndexError): return "IndexError"
    if isinstance(e, KeyError): return "KeyError"
    return "Other"


def hx(b): return bytes(b).hex() if b else "-"
def unhx(s): return b"" if s == "-" else bytes.fromhex(s)


def make_settings(pid_size=8, struct_header=True, key_size=32, ticket_version=1):
    s = nexsettings.default()
    s["nex.pid_size"] = pid_size
    s["nex.struct_header"] = 1 if struct_header else 0
    s["kerberos.key_size"] = key_size
    s["kerberos.ticket_version"] = ticket_version
    return s


# ---------------------------------------------------------------- token syntax
def show_str(s): return "N" if s is None else "s" + s.encode("utf8").hex()
def show_bytes(b): return "x" + bytes(b).hex()
def show_bool(b): return "T" if b else "F"
def dbits(x): return struct.unpack("<Q", struct.pack("<d", x))[0]
def dfrom(bits): return struct.unpack("<d", struct.pack("<Q", bits))[0]
def fbits(x): return struct.unpack("<I", struct.pack("<f", x))[0]
def ffrom(bits): return struct.unpack("<f", struct.pack("<I", bits))[0]


def show_ty(t):
    if t[0] == "list": return "list " + show_ty(t[1])
    if t[0] == "map": return "map " + show_ty(t[1]) + " " + show_ty(t[2])
    return t[0]


def show_variant(v):
    if v is None: return "V0"
    if isinstance(v, bool): return "Vb " + show_bool(v)
    if isinstance(v, int): return "Vi %d" % v
    if isinstance(v, float): return "Vd %d" % dbits(v)
    if isinstance(v, str): return "Vs " + show_str(v)
    if isinstance(v, common.DateTime): return "Vt %d" % v.value()
    raise TypeError("not a variant value: %r" % (v,))


def show_val(t, v):
    k = t[0]
    if k == "list": return " ".join(["L %d" % len(v)] + [show_val(t[1], x) for x in v])
    if k == "map":
        items = v.items() if isinstance(v, dict) else v
        items = list(items)
        return " ".join(["M %d" % len(items)] + [show_val(t[1], a) + " " + show_val(t[2], b) for a, b in items])
    if k == "variant": return show_variant(v)
    if k == "bool": return show_bool(v)
    if k == "string": return show_str(v)
    if k in ("buffer", "qbuffer"): return show_bytes(v)
    if k == "double": return "%d" % dbits(v)
    if k == "float": return "%d" % fbits(v)
    if k == "datetime": return "%d" % v.value()
    if k == "result": return "%d" % v.code()
    return "%d" % v


# ---------------------------------------------------------------- real encode / decode of typed values
def enc_val(out, t, v):
    k = t[0]
    if k == "list": out.list(v, lambda x: enc_val(out, t[1], x))
    elif k == "map":
        if isinstance(v, dict):
            out.map(v, lambda x: enc_val(out, t[1], x), lambda x: enc_val(out, t[2], x))
        else:  # raw item list (possibly with repeated keys): written the way StreamOut.map writes a dict
            out.u32(len(v))
            for a, b in v:
                enc_val(out, t[1], a); enc_val(out, t[2], b)
    else: getattr(out, k)(v)


def dec_val(inp, t):
    k = t[0]
    if k == "list": return inp.list(lambda: dec_val(inp, t[1]))
    if k == "map": return inp.map(lambda: dec_val(inp, t[1]), lambda: dec_val(inp, t[2]))
    return getattr(inp, k)()


def real_w(S, t, v):
    try:
        out = streams.StreamOut(S)
        enc_val(out, t, v)
        return "ok " + hx(out.get())
    except Exception as e:
        return "err " + exc_name(e)


def real_r(S, t, data):
    try:
        inp = streams.StreamIn(data, S)
        v = dec_val(inp, t)
        rest = data[inp.tell():]
        return "ok " + show_val(t, v) + " | " + hx(rest)
    except Exception as e:
        return "err " + exc_name(e)


def val_eq(t, a, b):
    """equality of typed values as the property means it (floats by bit pattern, DateTime/Result by value)"""
    return show_val(t, a) == show_val(t, b)


# ---------------------------------------------------------------- generators
INT_TYPES = {"u8": (0, 1 << 8), "u16": (0, 1 << 16), "u32": (0, 1 << 32), "u64": (0, 1 << 64),
             "s8": (-(1 << 7), 1 << 7), "s16": (-(1 << 15), 1 << 15), "s32": (-(1 << 31), 1 << 31), "s64": (-(1 << 63), 1 << 63)}
# `float` (32 bit) is exercised separately with non-NaN values only: a float32 NaN payload does not survive
# CPython's float<->double conversion, and 32-bit floats are not among the property's types
BASE = ["u8", "u16", "u32", "u64", "s8", "s16", "s32", "s64", "bool", "double", "string", "buffer", "qbuffer",
        "pid", "result", "datetime", "variant"]
KEY_BASE = ["u8", "u16", "u32", "u64", "s8", "s16", "s32", "s64", "string", "buffer", "qbuffer", "pid", "bool"]

ALPHABETS = ["abcXYZ019 _-", "\0a", "é߿ࠀ€￿", "😀𐀀\U0010ffff", "日本語テキスト", "a\0é€😀;=:/"]
DOUBLE_EDGE = [0, 1 << 63, 0x7FF0000000000000, 0xFFF0000000000000, 0x7FF8000000000000, 0x7FF8000000000001, 0xFFF8000000000000,
               0x7FFFFFFFFFFFFFFF, 0x7FF0000000000001, 0x0000000000000001, 0x3FF0000000000000, 0x7FEFFFFFFFFFFFFF, 0x000FFFFFFFFFFFFF]


def gen_type(rng, depth=2):
    r = rng.random()
    if depth > 0 and r < 0.22: return ("list", gen_type(rng, depth - 1))
    if depth > 0 and r < 0.40: return ("map", (rng.choice(KEY_BASE),), gen_type(rng, depth - 1))
    return (rng.choice(BASE),)


def gen_string(rng, allow_none=True, big=False):
    r = rng.random()
    if allow_none and r < 0.12: return None
    if r < 0.24: return ""
    if big and r < 0.27:
        # exactly at / around the 65534-byte limit
        n = rng.choice([65533, 65534])
        a = rng.choice(["a", "é", "€", "😀"])
        s = a * (n // len(a.encode("utf8")))
        return s + "b" * (n - len(s.encode("utf8")))
    alpha = rng.choice(ALPHABETS)
    return "".join(rng.choice(alpha) for _ in range(rng.randint(1, 24)))


def gen_int(rng, lo, hi):
    r = rng.random()
    if r < 0.35: return rng.choice([lo, hi - 1, 0 if lo <= 0 else lo, min(hi - 1, 1), max(lo, -1), (lo + hi) // 2, hi - 2, lo + 1])
    return rng.randrange(lo, hi)


def gen_bytes(rng, maxlen=40):
    r = rng.random()
    if r < 0.2: return b""
    return rng.randbytes(rng.randint(1, maxlen))


def gen_datetime_value(rng):
    r = rng.random()
    if r < 0.2: return rng.choice([0, 1, (1 << 64) - 1, 1 << 63, (1 << 26) - 1, 1 << 26, common.DateTime.future().value()])
    if r < 0.6: return rng.getrandbits(64)
    return common.DateTime.make(rng.randint(1, 9999), rng.randint(1, 12), rng.randint(1, 28), rng.randint(0, 23), rng.randint(0, 59), rng.randint(0, 59)).value()


def gen_variant(rng):
    k = rng.randrange(7)
    if k == 0: return None
    if k == 1: return gen_int(rng, -(1 << 63), 0)
    if k == 2: return dfrom(rng.choice(DOUBLE_EDGE) if rng.random() < 0.5 else rng.getrandbits(64))
    if k == 3: return rng.random() < 0.5
    if k == 4: return gen_string(rng, allow_none=False)
    if k == 5: return common.DateTime(gen_datetime_value(rng))
    return gen_int(rng, 0, 1 << 64)


def gen_val(rng, t, pid_size, big=False):
    k = t[0]
    if k == "list":
        n = rng.choice([0, 1, 2, 3, 5]) if rng.random() < 0.9 else rng.randint(6, 40)
        return [gen_val(rng, t[1], pid_size) for _ in range(n)]
    if k == "map":
        n = rng.choice([0, 1, 2, 3, 4])
        d = {}
        for _ in range(n):
            d[gen_val(rng, t[1], pid_size)] = gen_val(rng, t[2], pid_size)
        return d
    if k in INT_TYPES: return gen_int(rng, *INT_TYPES[k])
    if k == "bool": return rng.random() < 0.5
    if k == "double": return dfrom(rng.choice(DOUBLE_EDGE) if rng.random() < 0.5 else rng.getrandbits(64))
    if k == "float":
        bits = rng.getrandbits(32)
        if (bits >> 23) & 0xFF == 0xFF and bits & 0x7FFFFF: bits &= 0xFF800000  # NaN payloads are not preserved by the double<->float conversion
        return ffrom(bits)
    if k == "string": return gen_string(rng, big=big)
    if k == "buffer": return gen_bytes(rng, 70000 if big and rng.random() < 0.05 else 40)
    if k == "qbuffer": return gen_bytes(rng, 65535 if big and rng.random() < 0.05 else 40)
    if k == "pid": return gen_int(rng, 0, 1 << (64 if pid_size == 8 else 32))
    if k == "result":
        return common.Result(gen_int(rng, 0, 1 << 32))
    if k == "datetime": return common.DateTime(gen_datetime_value(rng))
    if k == "variant": return gen_variant(rng)
    raise AssertionError(k)
