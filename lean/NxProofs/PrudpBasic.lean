import NxModel.Prudp.Select
import NxProofs.Bytes
import NxProofs.Bits
/-! basic lemmas for the PRUDP codec proofs: bit packing, readers over appended data, flag tests -/
namespace Nx.Prudp
open Nx

theorem pyOr_eq {a : Nat} (b k : Nat) (h : a < 2 ^ k) : pyOr a b k = a + b * 2 ^ k := by
  unfold pyOr; exact or_shiftLeft_of_lt k b h

theorem pyOr4 {a : Nat} (b : Nat) (h : a < 16) : pyOr a b 4 = a + b * 16 := pyOr_eq (k := 4) b h
theorem pyOr3 {a : Nat} (b : Nat) (h : a < 8) : pyOr a b 3 = a + b * 8 := pyOr_eq (k := 3) b h
theorem pyOr8 {a : Nat} (b : Nat) (h : a < 256) : pyOr a b 8 = a + b * 256 := pyOr_eq (k := 8) b h

/-- `(a << 4) | b` for `b < 16` (lite stream-type byte) -/
theorem shl4_or {b : Nat} (a : Nat) (h : b < 16) : (a <<< 4) ||| b = b + a * 16 := by
  rw [Nat.or_comm]; exact or_shiftLeft_of_lt 4 a h

theorem rd_append (a r : Bytes) : rd a.length (a ++ r) = .ok (a, r) := by
  simp [rd]

theorem rd_append' {n : Nat} (a r : Bytes) (h : a.length = n) : rd n (a ++ r) = .ok (a, r) := by
  subst h; exact rd_append a r

theorem rd_nil_append (r : Bytes) : rd 0 r = .ok ([], r) := by simp [rd]

theorem hasSize_eq (f : Nat) : hasSize f = decide (f / 8 % 2 = 1) := by
  unfold hasSize; rw [Nat.testBit_eq_decide_div_mod_eq]

theorem hasAck_eq (f : Nat) : hasAck f = decide (f % 2 = 1) := by
  unfold hasAck; rw [Nat.testBit_eq_decide_div_mod_eq]; simp

theorem optLen_some {b : Option Bytes} {n : Nat} (h : optLen b n) : ∃ x, b = some x ∧ x.length = n := by
  unfold optLen at h
  cases b with
  | none => simp at h
  | some x => exact ⟨x, rfl, by simpa using h⟩

/-! ### reader inversion (for the bytes → packet → bytes direction) -/

theorem rdU8_inv {b : Bytes} {n : Nat} {r : Bytes} (h : rdU8 b = .ok (n, r)) : b = u8 n ++ r ∧ n < 256 := by
  unfold rdU8 at h
  split at h
  · simp at h; obtain ⟨h1, h2⟩ := h; subst h1 h2; simp [u8, b8]; exact UInt8.toNat_lt _
  · cases h

theorem rdU16_inv {b : Bytes} {n : Nat} {r : Bytes} (h : rdU16 b = .ok (n, r)) : b = u16le n ++ r ∧ n < 65536 := by
  unfold rdU16 at h
  split at h
  · rename_i a c r'
    simp at h; obtain ⟨h1, h2⟩ := h; subst h1 h2
    have ha := UInt8.toNat_lt a; have hc := UInt8.toNat_lt c
    refine ⟨?_, by omega⟩
    simp only [u16le, List.cons_append, List.nil_append, List.cons.injEq, and_true]
    constructor
    · apply UInt8.toNat_inj.mp; simp
    · apply UInt8.toNat_inj.mp; simp; omega
  · cases h

theorem rdU32_inv {b : Bytes} {n : Nat} {r : Bytes} (h : rdU32 b = .ok (n, r)) :
    b = u32le n ++ r ∧ n < 4294967296 := by
  unfold rdU32 at h
  split at h
  · rename_i a c d e r'
    simp at h; obtain ⟨h1, h2⟩ := h; subst h1 h2
    have ha := UInt8.toNat_lt a; have hc := UInt8.toNat_lt c
    have hd := UInt8.toNat_lt d; have he := UInt8.toNat_lt e
    refine ⟨?_, by omega⟩
    simp only [u32le, List.cons_append, List.nil_append, List.cons.injEq, and_true]
    refine ⟨?_, ?_, ?_, ?_⟩ <;> (apply UInt8.toNat_inj.mp; simp; omega)
  · cases h

theorem rd_inv {n : Nat} {b x r : Bytes} (h : rd n b = .ok (x, r)) : b = x ++ r ∧ x.length = n := by
  unfold rd at h
  split at h
  · simp at h; obtain ⟨h1, h2⟩ := h; subst h1 h2; simp; omega
  · cases h

end Nx.Prudp
