import NxModel.Bytes
/-!
# NEX stream primitives — mirrors `nintendo/nex/streams.py` (`StreamOut` / `StreamIn`)
  on top of `anynet.streams` (little endian)

## API summary (names are stable; other models may import this file)

Conventions: writers are `w… : value → Except Err Bytes` (they fail exactly where `struct.pack`
/ `bytes([v])` raise), readers are `r… : Bytes → Except Err (value × Bytes)` in rest-threading
style (they fail with `.overflow` where `StreamIn.read` raises `OverflowError`).

| Python                       | writer                         | reader                        | value type |
|------------------------------|--------------------------------|-------------------------------|------------|
| `u8/u16/u32/u64`             | `wU8 wU16 wU32 wU64`           | `rdU8 rdU16 rdU32 rdU64` (Bytes.lean) | `Nat` |
| `s8/s16/s32/s64`             | `wS8 wS16 wS32 wS64`           | `rS8 rS16 rS32 rS64`          | `Int` |
| `bool`                       | `wBool`                        | `rBool`                       | `Bool` |
| `double` / `float`           | `wDouble` / `wFloat` (IEEE bit pattern) | `rDouble` / `rFloat` | `Nat` (bits) |
| `write` / `read(n)`          | (`++`)                         | `rd n` (Bytes.lean)           | `Bytes` |
| `string`                     | `wString`                      | `rString`                     | `Option String` (`none` = Python `None`) |
| `buffer` / `qbuffer`         | `wBuffer` / `wQBuffer`         | `rBuffer` / `rQBuffer`        | `Bytes` |
| `list(l, f)` / `list(f)`     | `wList f`                      | `rList rd`                    | `List α` |
| `repeat`                     | `wRepeat f`                    | `rRepeat rd n`                | `List α` |
| `map(m, kf, vf)`             | `wMap kf vf`                   | `rMap rk rv`                  | `List (κ × ν)` in dict order (`dictInsert`) |
| `variant`                    | `wVariant`                     | `rVariant`                    | `Variant` |
| `result`                     | `wResult`                      | `rResult`                     | `Nat` (the code) |
| `pid` (`nex.pid_size`)       | `wPid pidSize`                 | `rPid pidSize`                | `Nat` |
| `datetime`                   | `wDateTime`                    | `rDateTime`                   | `Nat` (the 64-bit value) |
| `stationurl`                 | see `NxModel/Nex/StationURL.lean` (`wStationURL`/`rStationURL`) | | |
| `anydata` (DataHolder frame) | `wAnyData name payload`        | `rAnyData`                    | `Option String × Bytes` |
| `substream`                  |                                | `rBuffer` (the inner stream is the returned buffer) | |

UTF-8: `utf8Enc : List Char → Bytes`, `utf8Dec : Bytes → Option (List Char)` (core's
`String.utf8EncodeChar` / `ByteArray.utf8Decode?`, for which core proves the round trip).

No Mathlib imports (linked into the compiled drivers).
-/
namespace Nx.Nex
open Nx

/-! ## integers -/

/-- `StreamOut.u8`: `bytes([value])` raises `ValueError` outside `range(256)`. -/
def wU8 (n : Nat) : Except Err Bytes := if n < 256 then .ok (u8 n) else .error .value
def wU16 (n : Nat) : Except Err Bytes := if n < 65536 then .ok (u16le n) else .error .struct
def wU32 (n : Nat) : Except Err Bytes := if n < 4294967296 then .ok (u32le n) else .error .struct
def wU64 (n : Nat) : Except Err Bytes := if n < 18446744073709551616 then .ok (u64le n) else .error .struct

/-- two's complement of `v` on `bits` bits, as a natural number (`v` assumed in range). -/
def toTwos (bits : Nat) (v : Int) : Nat := if v < 0 then (v + (2 ^ bits : Nat)).toNat else v.toNat
/-- the signed reading of an unsigned `bits`-bit number. -/
def ofTwos (bits : Nat) (n : Nat) : Int := if n < 2 ^ (bits - 1) then (n : Int) else (n : Int) - (2 ^ bits : Nat)

def inS (bits : Nat) (v : Int) : Bool := decide (-(2 ^ (bits - 1) : Nat) ≤ v) && decide (v < (2 ^ (bits - 1) : Nat))

def wS8 (v : Int) : Except Err Bytes := if inS 8 v then .ok (u8 (toTwos 8 v)) else .error .struct
def wS16 (v : Int) : Except Err Bytes := if inS 16 v then .ok (u16le (toTwos 16 v)) else .error .struct
def wS32 (v : Int) : Except Err Bytes := if inS 32 v then .ok (u32le (toTwos 32 v)) else .error .struct
def wS64 (v : Int) : Except Err Bytes := if inS 64 v then .ok (u64le (toTwos 64 v)) else .error .struct

def rS8 (b : Bytes) : Except Err (Int × Bytes) := do let (n, r) ← rdU8 b; pure (ofTwos 8 n, r)
def rS16 (b : Bytes) : Except Err (Int × Bytes) := do let (n, r) ← rdU16 b; pure (ofTwos 16 n, r)
def rS32 (b : Bytes) : Except Err (Int × Bytes) := do let (n, r) ← rdU32 b; pure (ofTwos 32 n, r)
def rS64 (b : Bytes) : Except Err (Int × Bytes) := do let (n, r) ← rdU64 b; pure (ofTwos 64 n, r)

/-- `StreamOut.bool`: `u8(1 if value else 0)`. -/
def wBool (v : Bool) : Except Err Bytes := .ok (u8 (if v then 1 else 0))
/-- `StreamIn.bool`: `bool(u8())`. -/
def rBool (b : Bytes) : Except Err (Bool × Bytes) := do let (n, r) ← rdU8 b; pure (n != 0, r)

/-- doubles travel as their IEEE-754 bit pattern (`struct.pack("<d", x)` is the identity on bits). -/
def wDouble (bits : Nat) : Except Err Bytes := wU64 bits
def rDouble (b : Bytes) : Except Err (Nat × Bytes) := rdU64 b
def wFloat (bits : Nat) : Except Err Bytes := wU32 bits
def rFloat (b : Bytes) : Except Err (Nat × Bytes) := rdU32 b

/-! ## UTF-8 -/

/-- `str.encode("utf8")` for a sequence of Unicode scalar values. -/
def utf8Enc (l : List Char) : Bytes := l.flatMap String.utf8EncodeChar
/-- `bytes.decode("utf8")` (strict); `none` = `UnicodeDecodeError`. -/
def utf8Dec (b : Bytes) : Option (List Char) := (b.toByteArray.utf8Decode?).map Array.toList

/-! ## strings, buffers -/

/-- `StreamOut.string`: `None` ↦ `u16 0`; otherwise the UTF-8 bytes of `string + "\0"` behind a u16 length. -/
def wString : Option String → Except Err Bytes
  | none => wU16 0
  | some s =>
    let data := utf8Enc (s.toList ++ ['\x00'])
    do let l ← wU16 data.length; pure (l ++ data)

/-- `StreamIn.string`: length 0 ↦ `None`; otherwise decode `length` bytes and drop the last *character*. -/
def rString (b : Bytes) : Except Err (Option String × Bytes) := do
  let (len, r) ← rdU16 b
  if len = 0 then pure (none, r) else
  let (data, r) ← rd len r
  match utf8Dec data with
  | none => throw .unicode
  | some cs => pure (some (String.ofList cs.dropLast), r)

def wBuffer (d : Bytes) : Except Err Bytes := do let l ← wU32 d.length; pure (l ++ d)
def rBuffer (b : Bytes) : Except Err (Bytes × Bytes) := do let (n, r) ← rdU32 b; rd n r
def wQBuffer (d : Bytes) : Except Err Bytes := do let l ← wU16 d.length; pure (l ++ d)
def rQBuffer (b : Bytes) : Except Err (Bytes × Bytes) := do let (n, r) ← rdU16 b; rd n r

/-! ## lists and maps -/

/-- `StreamOut.repeat(list, func)` -/
def wRepeat {α : Type} (f : α → Except Err Bytes) : List α → Except Err Bytes
  | [] => .ok []
  | x :: xs => do let a ← f x; let r ← wRepeat f xs; pure (a ++ r)

/-- `StreamIn.repeat(func, count)` -/
def rRepeat {α : Type} (rdr : Bytes → Except Err (α × Bytes)) : Nat → Bytes → Except Err (List α × Bytes)
  | 0, b => .ok ([], b)
  | n + 1, b => do
    let (x, b) ← rdr b
    let (xs, b) ← rRepeat rdr n b
    pure (x :: xs, b)

def wList {α : Type} (f : α → Except Err Bytes) (l : List α) : Except Err Bytes := do
  let n ← wU32 l.length
  let r ← wRepeat f l
  pure (n ++ r)

def rList {α : Type} (rdr : Bytes → Except Err (α × Bytes)) (b : Bytes) : Except Err (List α × Bytes) := do
  let (n, r) ← rdU32 b
  rRepeat rdr n r

/-- `d[k] = v` on a Python dict kept as an association list in insertion order. -/
def dictInsert {κ ν : Type} [BEq κ] (k : κ) (v : ν) : List (κ × ν) → List (κ × ν)
  | [] => [(k, v)]
  | (k', v') :: r => if k' == k then (k', v) :: r else (k', v') :: dictInsert k v r

def wMapItems {κ ν : Type} (kf : κ → Except Err Bytes) (vf : ν → Except Err Bytes) : List (κ × ν) → Except Err Bytes
  | [] => .ok []
  | (k, v) :: r => do let a ← kf k; let c ← vf v; let t ← wMapItems kf vf r; pure (a ++ c ++ t)

/-- `StreamOut.map`: `u32(len(map))`, then key and value of every item in dict order. -/
def wMap {κ ν : Type} (kf : κ → Except Err Bytes) (vf : ν → Except Err Bytes) (m : List (κ × ν)) : Except Err Bytes := do
  let n ← wU32 m.length
  let r ← wMapItems kf vf m
  pure (n ++ r)

def rMapItems {κ ν : Type} [BEq κ] (rk : Bytes → Except Err (κ × Bytes)) (rv : Bytes → Except Err (ν × Bytes)) :
    Nat → List (κ × ν) → Bytes → Except Err (List (κ × ν) × Bytes)
  | 0, acc, b => .ok (acc, b)
  | n + 1, acc, b => do
    let (k, b) ← rk b
    let (v, b) ← rv b
    rMapItems rk rv n (dictInsert k v acc) b

/-- `StreamIn.map`: items are stored into a dict (a repeated key keeps its first position and the last value). -/
def rMap {κ ν : Type} [BEq κ] (rk : Bytes → Except Err (κ × Bytes)) (rv : Bytes → Except Err (ν × Bytes)) (b : Bytes) :
    Except Err (List (κ × ν) × Bytes) := do
  let (n, r) ← rdU32 b
  rMapItems rk rv n [] r

/-! ## result, pid, datetime -/

def wResult (code : Nat) : Except Err Bytes := wU32 code
def rResult (b : Bytes) : Except Err (Nat × Bytes) := rdU32 b

/-- `pid`: u64 iff `settings["nex.pid_size"] == 8`, u32 for every other setting. -/
def wPid (pidSize : Nat) (v : Nat) : Except Err Bytes := if pidSize = 8 then wU64 v else wU32 v
def rPid (pidSize : Nat) (b : Bytes) : Except Err (Nat × Bytes) := if pidSize = 8 then rdU64 b else rdU32 b

def wDateTime (v : Nat) : Except Err Bytes := wU64 v
def rDateTime (b : Bytes) : Except Err (Nat × Bytes) := rdU64 b

/-! ## variant -/

/-- Python values accepted by `StreamOut.variant` / produced by `StreamIn.variant`.
`int` covers both wire tags (negative ↦ tag 1 / s64, non-negative ↦ tag 6 / u64);
`double` carries the IEEE bit pattern. -/
inductive Variant where
  | none
  | int (v : Int)
  | double (bits : Nat)
  | bool (b : Bool)
  | str (s : String)
  | datetime (v : Nat)
  deriving DecidableEq, Repr

def wVariant : Variant → Except Err Bytes
  | .none => .ok (u8 0)
  | .bool v => do let r ← wBool v; pure (u8 3 ++ r)
  | .int v =>
    if v < 0 then do let r ← wS64 v; pure (u8 1 ++ r)
    else do let r ← wU64 v.toNat; pure (u8 6 ++ r)
  | .double bits => do let r ← wDouble bits; pure (u8 2 ++ r)
  | .str s => do let r ← wString (some s); pure (u8 4 ++ r)
  | .datetime v => do let r ← wDateTime v; pure (u8 5 ++ r)

def rVariant (b : Bytes) : Except Err (Variant × Bytes) := do
  let (t, r) ← rdU8 b
  if t = 0 then pure (.none, r)
  else if t = 1 then do let (v, r) ← rS64 r; pure (.int v, r)
  else if t = 2 then do let (v, r) ← rDouble r; pure (.double v, r)
  else if t = 3 then do let (v, r) ← rBool r; pure (.bool v, r)
  else if t = 4 then do
    let (v, r) ← rString r
    -- `string()` returns `None` for a zero length: the variant is then Python `None`
    match v with
    | some s => pure (.str s, r)
    | none => pure (.none, r)
  else if t = 5 then do let (v, r) ← rDateTime r; pure (.datetime v, r)
  else if t = 6 then do let (v, r) ← rdU64 r; pure (.int (v : Int), r)
  else throw .value

/-! ## anydata (DataHolder framing, `common.DataHolder.encode/decode`)

`string(class name) | u32 (len + 4) | u32 len | payload` where `payload` is the
`Structure.encode` output of the held object (see `Common.lean`). The reader takes the outer
buffer, then the inner buffer *of the outer buffer*; trailing bytes in either are ignored
by the code. -/

def wAnyData (name : Option String) (payload : Bytes) : Except Err Bytes := do
  let n ← wString name
  let l ← wU32 (payload.length + 4)
  let p ← wBuffer payload
  pure (n ++ l ++ p)

def rAnyData (b : Bytes) : Except Err ((Option String × Bytes) × Bytes) := do
  let (name, r) ← rString b
  let (outer, r) ← rBuffer r
  let (inner, _) ← rBuffer outer
  pure ((name, inner), r)

end Nx.Nex
