"""C20 — every transport SETTING crossed with every KIND of packet it should affect, read off the wire.

`prudp.compression` is documented as "the compression algorithm used for data packets", `prudp.fragment_size` as "the maximum size
of a packet payload before it is split up into fragments", `prudp.transport` / the session key decide the cipher of DATA payloads.
The consumer-object observation of corr_C20 (type of `PayloadEncoder.compression`) and the behaviour family (fragment sizes on UDP
v1 only) show that the knob is *read*; this family shows that it *changes what the documentation says it changes*, for every kind
of packet and on every transport:

  axes (exhaustive product in the quick tier):
    transport  : UDP prudp v0, UDP prudp v1, TCP (lite), WebSocket (lite)
    compression: COMPRESSION_NONE, COMPRESSION_ZLIB
    fragment   : a size smaller than the messages (multi-fragment) and the default 1300
    session key: none (default key) / a ticket's session key (key chain per substream, unreliable base key)
    substreams : 0; prudp v1 additionally max_substream_id = 1 with traffic on substream 1
    packet kind: reliable DATA (`send`) and UNRELIABLE DATA (`send_unreliable`), in both directions; payloads that compress well,
                 random payloads that do not, a single zero byte, a message of exactly fragment_size, a multi-fragment message

  oracle (independent of the library: own RC4, own key derivations, zlib as the reference inflater):
    every DATA packet on the wire, once the transport's cipher is undone with the key the protocol prescribes for that kind
    (reliable: one running RC4 stream per direction and substream; unreliable: a fresh RC4 per packet keyed by the packet id and the
    session id; stream transports: none), must be
       COMPRESSION_NONE : exactly the application's fragment
       COMPRESSION_ZLIB : a compression frame (ratio byte, then a zlib stream that inflates to the fragment with the ratio the frame
                          announces; ratio byte 0 = stored) — and so differ from the frame of the same packet under COMPRESSION_NONE
    reliable fragments are the message cut at fragment_size (before compression); what the peer's application receives is what was
    sent, per kind.
  model: the same packets are decoded by the Lean payload model (driver C08: pnew / pkey / pdecz — its own RC4 and inflater) and
  must give the same fragments; sessions without compression are also replayed through the Lean L1 endpoint model byte for byte
  (UNRELIABLE DATA included), UDP through l1_corr, stream transports through l1_stream."""
import hashlib, multiprocessing, os, random, traceback, zlib
import prudp_session as ps

TRANSPORTS = [("udp-v0", "udp", 0, 0), ("udp-v1", "udp", 1, 0), ("tcp", "lite", 1, 1), ("websocket", "lite", 1, 2)]


class KCfg(ps.Cfg):
    """ps.Cfg with the TCP transport (same lite encoding as WebSocket, other value of prudp.transport)"""
    def settings(self):
        s = super().settings()
        if getattr(self, "stream_kind", None) == "tcp":
            s["prudp.transport"] = s.TRANSPORT_TCP
        return s


# ---------------------------------------------------------------------------------------- independent reference
class RC4:
    def __init__(self, key):
        s = list(range(256)); j = 0
        for i in range(256):
            j = (j + s[i] + key[i % len(key)]) & 0xFF
            s[i], s[j] = s[j], s[i]
        self.s, self.i, self.j = s, 0, 0

    def apply(self, data):
        s, i, j = self.s, self.i, self.j
        out = bytearray()
        for b in data:
            i = (i + 1) & 0xFF
            j = (j + s[i]) & 0xFF
            s[i], s[j] = s[j], s[i]
            out.append(b ^ s[(s[i] + s[j]) & 0xFF])
        self.i, self.j = i, j
        return bytes(out)


def unreliable_base_key(session_key):
    if not session_key:
        return bytes(32)
    return hashlib.md5(session_key + bytes.fromhex("18d8233437e4e3fe")).digest() + hashlib.md5(session_key + bytes.fromhex("233e600123cdab80")).digest()


def unreliable_key(base, packet_id, session_id):
    k = bytearray(base)
    k[0] = (k[0] + (packet_id & 0xFF)) & 0xFF
    k[1] = (k[1] + (packet_id >> 8)) & 0xFF
    k[31] = (k[31] + session_id) & 0xFF
    return bytes(k)


def unframe(frame, compression):
    """-> (fragment | None, why)"""
    if not compression:
        return frame, None
    if not frame:
        return None, "the payload is empty"
    if frame[0] == 0:
        return frame[1:], None
    try:
        plain = zlib.decompress(frame[1:])
    except zlib.error as e:
        return None, "is not a compression frame (ratio byte + zlib stream): %s" % e
    if int(len(plain) / (len(frame) - 1) + 1) != frame[0]:
        return None, "announces compression ratio %d, its zlib stream has ratio %d" % (frame[0], int(len(plain) / (len(frame) - 1) + 1))
    return plain, None


# ---------------------------------------------------------------------------------------- one session
def messages(rng, fs):
    rel = [b"A" * 100, rng.randbytes(64), b"\x00", (b"the quick brown fox " * 40)[:3 * fs + 5 if fs < 200 else 700], rng.randbytes(fs) if fs < 200 else b"z" * 257]
    unrel = [b"B" * 80, rng.randbytes(48), b"\x00", b"unreliable but compressible " * 10]
    return rel, unrel


def script_of(cfgd, seed):
    rng = random.Random("kw%r" % seed)
    fs = cfgd["fragment_size"]
    phases = []
    for side in "cs":
        rel, unrel = messages(rng, fs)
        items = []
        for i in range(max(len(rel), len(unrel))):
            if i < len(rel): items.append((side, 0, rel[i]))
            if i < len(unrel): items.append((side, 0, ("u", unrel[i])))
        if cfgd.get("max_substream"):
            items += [(side, 1, b"S" * 90), (side, 1, rng.randbytes(40)), (side, 0, b"back on zero " * 9), (side, 1, (b"sub one " * 30)[:2 * fs + 3 if fs < 200 else 200])]
        phases.append(items)
    # one phase with both sides talking at once, one with the client alone after it
    return [phases[0] + phases[1], [("c", 0, b"later " * 20), ("c", 0, ("u", b"later unreliable " * 6)), ("s", 0, ("u", b"\x00\x01")), ("s", 0, b"\xff")]]


def job(args):
    name, cfgd, seed = args
    try:
        cfg = KCfg(**cfgd)
        script = script_of(cfgd, seed)
        se = ps.run_session(cfg, seed, script, lambda sim, r: (lambda tx: [0.01]), phases_gap=0.3)
        bad, lines, expect = [], [], []
        if se.crash or se.connect_error or se.errors or se.send_errors or se.timed_out:
            bad.append(("session", "the session did not run to its end: crash=%r connect=%r errors=%r send_errors=%r timed_out=%r"
                        % (se.crash, se.connect_error, se.errors[:2], se.send_errors[:2], se.timed_out), {}))
            return name, cfgd, seed, bad, lines, expect, None, None
        fs, comp, tnum = cfg.fragment_size, cfg.compression, {"udp": 0}.get(cfg.transport, 1 if getattr(cfg, "stream_kind", "") == "tcp" else 2)
        # what the applications sent, per direction and kind
        want_rel = {(d, k): [] for d in "cs" for k in range(se.nsub)}
        want_unrel = {"c": [], "s": []}
        sent_rel = {(d, k): [] for d in "cs" for k in range(se.nsub)}
        for phase in script:
            for side, sub, m in phase:
                if isinstance(m, tuple):
                    want_unrel[side].append(m[1])
                else:
                    sent_rel[(side, sub)].append(m)
                    want_rel[(side, sub)] += [m[i:i + fs] for i in range(0, len(m), fs)]
        # delivery per kind
        other = {"c": "s", "s": "c"}
        for (d, k), msgs in sent_rel.items():
            if se.got.get((other[d], k)) != msgs:
                bad.append(("reliable", "reliable messages of %s on substream %d did not arrive as sent: %d of %d delivered%s"
                            % (d, k, len(se.got.get((other[d], k), [])), len(msgs),
                               "".join("; message #%d (%d bytes) arrived as %s" % (i, len(a), b.hex()[:60]) for i, (a, b) in enumerate(zip(msgs, se.got.get((other[d], k), []))) if a != b)[:300]),
                            {"sent": [m.hex() for m in msgs][:3]}))
        for d, msgs in want_unrel.items():
            if se.gotu[other[d]] != msgs:
                got = se.gotu[other[d]]
                first = next((i for i, (a, b) in enumerate(zip(msgs, got)) if a != b), min(len(msgs), len(got)))
                bad.append(("unreliable", "send_unreliable() data of %s did not arrive as sent on a loss-free link: %d of %d delivered; #%d sent %s, received %s"
                            % (d, len(got), len(msgs), first, msgs[first].hex()[:60] if first < len(msgs) else None, got[first].hex()[:60] if first < len(got) else None),
                            {"sent": [m.hex() for m in msgs]}))
        # the wire
        obs = ps.Observer(se.settings, cfg)
        saddr = se.addr["s"]
        keys = ps.rc4_keys(cfg, se.session_key)
        ubase = unreliable_base_key(se.session_key if cfg.credentials else b"")
        streams = {(d, k): (RC4(keys[k]) if keys[k] is not None else None) for d in "cs" for k in range(se.nsub)}
        seen = set()
        idx_rel = {(d, k): 0 for d in "cs" for k in range(se.nsub)}
        idx_un = {"c": 0, "s": 0}
        per_dir = {"c": [], "s": []}
        for e in se.netlog:
            if e[0] == "tx":
                src, dst, data = e[3], e[4], e[5]
                pkts = obs.decode(data)
            elif e[0] == "stx":
                src, dst, data = e[2], e[3], e[4]
                pkts = obs.decode(data, (src, dst))
            else:
                continue
            d = "c" if dst == saddr else "s"
            for p in pkts:
                if p.type != ps.TYPE_DATA or p.flags & (ps.F_ACK | ps.F_MULTI):
                    continue
                wire = bytes(p.payload)
                if p.flags & ps.F_REL:
                    sub = p.substream_id
                    if (d, sub, p.packet_id) in seen or (d, sub) not in streams:
                        continue
                    seen.add((d, sub, p.packet_id))
                    frame = streams[(d, sub)].apply(wire) if streams[(d, sub)] else wire
                    i = idx_rel[(d, sub)]; idx_rel[(d, sub)] += 1
                    want = want_rel[(d, sub)][i] if i < len(want_rel[(d, sub)]) else None
                    kind, label = "reliable", "reliable DATA #%d of %s on substream %d (packet id %d, fragment id %d)" % (i, d, sub, p.packet_id, p.fragment_id)
                else:
                    frame = RC4(unreliable_key(ubase, p.packet_id, p.session_id)).apply(wire) if cfg.transport == "udp" else wire
                    i = idx_un[d]; idx_un[d] += 1
                    want = want_unrel[d][i] if i < len(want_unrel[d]) else None
                    kind, label = "unreliable", "UNRELIABLE DATA #%d of %s (packet id %d, session id %d)" % (i, d, p.packet_id, p.session_id)
                per_dir[d].append((p.flags, p.substream_id, p.packet_id, p.session_id, wire, want))
                frag, why = unframe(frame, comp)
                rep = {"packet": label, "wire_payload": wire.hex()[:400], "payload_after_cipher": frame.hex()[:400], "application_data": want.hex()[:400] if want is not None else None}
                if want is None:
                    bad.append((kind, "%s: the application sent nothing that corresponds to it" % label, rep))
                elif frag is None or (comp == 1 and frame == want):
                    if frame == want:
                        why = "is the plain application data: prudp.compression = COMPRESSION_ZLIB has no effect on this kind of packet"
                    bad.append((kind, "prudp.compression=%d, %s: the payload of %s, with the cipher undone, %s" % (comp, name, label, why), rep))
                elif frag != want:
                    if comp == 0 and unframe(frame, 1)[0] == want:
                        why = "is a zlib compression frame although compression is off"
                    elif len(frag) != len(want) and kind == "reliable":
                        why = "is a fragment of %d bytes; prudp.fragment_size=%d cuts the message into %r" % (len(frag), fs, [len(x) for x in want_rel[(d, p.substream_id)]][:8])
                    else:
                        why = "decodes to %s, not to the application's data %s" % (frag.hex()[:60], want.hex()[:60])
                    bad.append((kind, "prudp.compression=%d, %s: the payload of %s, with the cipher undone, %s" % (comp, name, label, why), rep))
        for (d, k), n in idx_rel.items():
            if n != len(want_rel[(d, k)]):
                bad.append(("reliable", "%d reliable DATA packets of %s on substream %d were seen on the wire; fragment_size=%d makes %d fragments" % (n, d, k, fs, len(want_rel[(d, k)])), {}))
        for d, n in idx_un.items():
            if n != len(want_unrel[d]):
                bad.append(("unreliable", "%d UNRELIABLE DATA packets of %s were seen on the wire; send_unreliable() was called %d times" % (n, d, len(want_unrel[d])), {}))
        # the Lean payload model decodes the same packets (one decoder object per direction)
        for d in "cs":
            lines.append("pnew %d %d %d" % (tnum, comp, cfg.max_substream)); expect.append("ok")
            if cfg.credentials:
                lines.append("pkey " + se.session_key.hex()); expect.append("ok")
            for fl, sub, pid, sid, wire, want in per_dir[d]:
                if want is None: continue
                lines.append("pdecz 2 %d %d %d %d %s" % (fl, sub, pid, sid, wire.hex() or "-")); expect.append("ok " + (want.hex() or "-"))
        return name, cfgd, seed, bad, lines, expect, (se if comp == 0 else None), {d: len(v) for d, v in per_dir.items()}
    except Exception:
        return name, cfgd, seed, [], [], [], None, traceback.format_exc()


def configurations(quick):
    out = []
    for name, transport, version, tnum in TRANSPORTS:
        for comp in (0, 1):
            for fs in (40, 1300):
                for cred in (False, True):
                    d = dict(transport=transport, version=version, compression=comp, fragment_size=fs, credentials=cred,
                             resend_timeout=0.5, ping_timeout=4.0, resend_limit=2)
                    if name == "tcp": d["stream_kind"] = "tcp"
                    out.append((name, d))
                    if name == "udp-v1" and fs == 40:
                        out.append((name, dict(d, max_substream=1)))
    return out


def run(ctx, drv08, drv02):
    import l1_corr, l1_stream
    quick = ctx.tier == "quick"
    jobs = []
    for name, d in configurations(quick):
        for seed in ((ctx.seed * 7 + 3, ctx.seed * 7 + 4) if quick else (ctx.seed * 7 + 3, ctx.seed * 7 + 4, ctx.seed * 7 + 5)):
            jobs.append((name, d, seed))
    diffs = []
    reported = set()
    npk = 0
    with multiprocessing.Pool(min(16, os.cpu_count() or 4)) as pool:
        results = list(pool.imap_unordered(job, jobs, chunksize=1))
    for name, cfgd, seed, bad, lines, expect, se, info in sorted(results, key=lambda r: (r[0], sorted(r[1].items()), r[2])):
        if isinstance(info, str):
            ctx.corr_break("c20-knobwire-harness", "session crashed in the harness", {"traceback": info, "transport": name, "cfg": cfgd}); continue
        for kind in ("reliable", "unreliable"):
            ctx.case(key=("knobwire", name, kind, str(sorted(cfgd.items())), seed), nontrivial=True,
                     tag="knobwire:%s:%s:compression=%d" % (name, kind, cfgd["compression"]), n=(sum(info.values()) if info else 1),
                     sample={"transport": name, "cfg": cfgd, "data_packets": info} if (name, kind) not in reported and not reported.add((name, kind)) else None)
        npk += sum(info.values()) if info else 0
        for kind, what, rep in bad:
            ctx.violation("knob-no-effect:wire:%s:%s" % (name, kind),
                          "transport setting without the documented effect on %s DATA over %s: %s" % (kind, name, what),
                          dict(rep, transport=name, cfg=cfgd, seed=seed, how="harness/c20_knobwire.py job((%r, cfg, seed))" % name))
        if lines and not bad:
            outs = drv08.batch(lines)
            for l, o, w in zip(lines, outs, expect):
                if o != w:
                    diffs.append(("knobwire", "%s %r: %s" % (name, cfgd, l[:300]), w[:300], o[:300])); break
        if se is not None and not bad:
            r = l1_stream.compare(drv02, se, "x") if l1_stream.is_stream(se) else l1_corr.compare(drv02, se, "x")
            if not r["ok"]:
                diffs.append(("knobwire-l1", "%s %r seed %r" % (name, cfgd, seed), str(r["diffs"][0])[:600], "L1 replay"))
    ctx.extra["knobwire_sessions"] = len(jobs)
    ctx.extra["knobwire_data_packets"] = npk
    return diffs
