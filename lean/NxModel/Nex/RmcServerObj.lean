import NxModel.Nex.RmcServer
/-!
# The registered server OBJECTS and the TIME a handler takes

`RMCClient.start(servers)` is given Python objects — instances of the user's own subclasses of the generated server
classes. Such an object has a truth value of its own (`__bool__` / `__len__` of a subclass that keeps a registry or
a queue), and its user methods are coroutines that may await for any length of (virtual) time before they return or
raise. `handle_request` does `if request.protocol in self.servers:` — a test on the KEYS of the dict filled by
`register_server` — and `await self.servers[protocol].handle(...)` without any deadline. So neither the truth value
of the object nor the time the handler takes is consulted: `handleTimed` below is `generatedHandle` + `react` of
`RmcServer.lean` over the objects' classes, plus the time that passes. The correspondence check drives the real
receive loop on a virtual clock with falsy objects and slow handlers and compares answer AND elapsed time with it.
-/
namespace Nx.RmcServer
open Nx Nx.Rmc

/-- a registered object: the generated class it derives from and `bool(obj)` at the moment the request arrives -/
structure Obj where
  srv : Server
  truthy : Bool
  deriving DecidableEq, Repr

/-- the user's coroutine: awaits (milliseconds of the loop's clock), then does what a `User` does -/
inductive Prog where
  | done (u : User)
  | wait (ms : Nat) (k : Prog)
  deriving Repr

def Prog.outcome : Prog → User
  | .done u => u
  | .wait _ k => k.outcome

def Prog.waited : Prog → Nat
  | .done _ => 0
  | .wait ms k => ms + k.waited

def objServers (objs : List Obj) : List Server := objs.map (·.srv)

/-- one request against the registered objects: (milliseconds that pass until the loop is back at `recv()`,
    what the addressed object's `handle()` did — `none`: no object is registered for the protocol —, the reaction).
    The user's coroutine is awaited only if the generated dispatch reaches it (`invoked`). -/
def handleTimed (objs : List Obj) (req : Msg) (extract : Option Exc) (p : Prog) : Nat × Option HandleResult × Reaction :=
  match findServer req.protocol (objServers objs), req.method with
  | some srv, some mid =>
    let h := generatedHandle srv mid extract p.outcome
    (if (invoked srv mid extract).isSome then p.waited else 0, some h, react (registryOf (objServers objs)) req h)
  | _, _ => (0, none, react (registryOf (objServers objs)) req (.returned []))

/-- the receive loop, one request at a time (as `serveStep`): nothing is received once an exception left the loop -/
def serveStepTimed (objs : List Obj) (alive : Bool) (req : Msg) (extract : Option Exc) (p : Prog) :
    Bool × Option (Nat × Option HandleResult × Reaction) :=
  if alive then
    let r := handleTimed objs req extract p
    match r.2.2 with
    | .propagates => (false, some r)
    | _ => (true, some r)
  else (false, none)

end Nx.RmcServer
