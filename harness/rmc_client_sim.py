"""Scripted runs of the real `nintendo.nex.rmc.RMCClient` (client side: request/start/cleanup)
over a fake PRUDP client object, inside an anyio task group on asyncio.

A scenario is JSON-able: {"start_id": int, "steps": [step, ...]} with steps
  ["start", noresp(0|1), send_yields]   start a task that calls client.request(...)
  ["yield", n]                          the director yields n times (asyncio loop iterations)
  ["resp", call_id, "ok"|"err", serial] the peer's next datagram: a response carrying call_id
  ["raw", hex]                          the peer's next datagram (any bytes)
  ["req", protocol, method, call_id]    the peer's next datagram: a request (no server registered)
  ["eof"]                               the peer closes: recv() raises anyio.EndOfStream
  ["close"] | ["disconnect"] | ["cleanup"]   local closure via RMCClient.close()/disconnect()/__aexit__
Every atomic section that the model has an op for appends one line to the op log *at the moment
it happens*; asyncio runs the code between two awaits atomically, so the log order is the real
interleaving. The log is what the Lean model replays.
"""
import collections, logging
import anyio
from nintendo.nex import rmc, common, settings as nexsettings

S = nexsettings.default()
FINAL_YIELDS = 12
EOF = object()


def hx(b): return b.hex() if b else "-"


def resp_body(call_id, serial):
    return b"R%d.%d" % (call_id, serial)


def resp_code(call_id, serial):
    # distinct error code per (id, serial); bit 31 set as in any conforming error response
    return 0x80000000 | ((0x10000 + (call_id * 7 + serial * 13) % 0xFFF0) & 0x7FFFFFFF)


def build_resp(call_id, kind, serial, protocol=10, method=1):
    if kind == "ok":
        return rmc.RMCMessage.response(S, protocol, method, call_id, resp_body(call_id, serial)).encode()
    if kind == "ok-empty":
        return rmc.RMCMessage.response(S, protocol, method, call_id, b"").encode()
    if kind == "err":
        return rmc.RMCMessage.error(S, protocol, method, call_id, resp_code(call_id, serial)).encode()
    if kind == "err-nobit":
        # non-conforming error response: code without bit 31 (RMCError() ors the bit in)
        import struct
        payload = bytes([protocol, 0]) + struct.pack("<II", 0x00010005 + serial, call_id)
        return struct.pack("<I", len(payload)) + payload
    raise ValueError(kind)


class _WarnCounter(logging.Handler):
    def __init__(self):
        super().__init__(level=logging.WARNING)
        self.invalid = 0
    def emit(self, record):
        if record.levelno == logging.WARNING and "invalid call id" in record.getMessage():
            self.invalid += 1

_handler = _WarnCounter()
_lg = logging.getLogger("nintendo.nex.rmc")
_lg.addHandler(_handler)
_lg.propagate = False
_lg.setLevel(logging.WARNING)


class FakePRUDP:
    """what RMCClient needs of a PRUDP client: async send/recv/close/disconnect, minor_version, pid, addresses"""
    def __init__(self, sim):
        self.sim = sim
        self.inbox = collections.deque()
        self.closed = False
        self.wakeup = None
    def minor_version(self): return self.sim.minor
    def pid(self): return 1234
    def local_address(self): return ("127.0.0.1", 1)
    def remote_address(self): return ("127.0.0.1", 2)
    def local_sid(self): return 1
    def remote_sid(self): return 1
    async def send(self, data):
        sim = self.sim
        caller = sim.current
        sim.current = None
        if caller is not None:
            m = rmc.RMCMessage.parse(S, data)
            caller["sent_id"] = m.call_id
            caller["sent_mode"] = m.mode
            caller["sent_body"] = m.body
            for _ in range(caller["send_yields"]):
                await anyio.sleep(0)
        else:
            sim.other_sends.append(data)
    def _kick(self):
        if self.wakeup is not None:
            self.wakeup.set()
    async def recv(self):
        while True:
            if self.inbox:
                item = self.inbox.popleft()
                if item is EOF:
                    self.sim.log("eof")
                    raise anyio.EndOfStream
                self.sim.log("recv " + hx(item))
                self.sim.recv_marks.append((len(self.sim.oplog) - 1, _handler.invalid))
                return item
            if self.closed:
                self.sim.log("eof")
                raise anyio.EndOfStream
            self.wakeup = anyio.Event()
            await self.wakeup.wait()
            self.wakeup = None
    async def close(self):
        self.closed = True
        self._kick()
    async def disconnect(self):
        self.closed = True
        self._kick()


class Sim:
    def __init__(self, sc):
        self.sc = sc
        self.minor = sc.get("minor", 0)
        self.oplog = []
        self.callers = []       # in order of the model's task numbers
        self.current = None
        self.other_sends = []
        self.recv_marks = []    # (oplog index of a recv line, warning counter before processing)
        self.loop_result = None
        self.warn_after = {}
    def log(self, line):
        self.oplog.append(line)


def classify(exc):
    if isinstance(exc, common.RMCError): return "rmc %d" % exc.code()
    if isinstance(exc, RuntimeError) and str(exc) == "RMC connection is closed": return "closed"
    if isinstance(exc, KeyError): return "keyerror"
    return "exc " + type(exc).__name__


async def _caller(sim, client, noresp, send_yields):
    c = {"task": len(sim.callers), "noresp": noresp, "send_yields": send_yields, "sent_id": None,
         "outcome": None, "done_at": None, "call_at": len(sim.oplog)}
    sim.callers.append(c)
    sim.log("call %d" % noresp)
    sim.current = c
    try:
        r = await client.request(10, 1, b"Q%d" % c["task"], bool(noresp))
        out = "none" if r is None else "body " + hx(r)
    except Exception as e:
        out = classify(e)
    finally:
        sim.current = None if sim.current is c else sim.current
    c["outcome"] = out
    if c["sent_id"] is not None and not noresp:
        # the completion of a suspended request() *is* the model's `wake`
        sim.log("wake %d" % c["task"])
    c["done_at"] = len(sim.oplog) - 1


async def _loop(sim, client):
    try:
        await client.start([])
        sim.loop_result = "returned"
    except Exception as e:
        sim.loop_result = "crash " + type(e).__name__
        sim.log("loopcrash")


async def run_scenario(sc):
    """runs one scenario on the real code; returns the Sim (op log, callers, final white-box state)"""
    sim = Sim(sc)
    fake = FakePRUDP(sim)
    client = rmc.RMCClient(S, fake)
    client.call_id = sc.get("start_id", 1)
    sim.client = client
    w0 = _handler.invalid
    async with anyio.create_task_group() as tg:
        tg.start_soon(_loop, sim, client)
        for st in sc["steps"]:
            k = st[0]
            if k == "start":
                tg.start_soon(_caller, sim, client, st[1], st[2])
            elif k == "yield":
                for _ in range(st[1]):
                    await anyio.sleep(0)
            elif k == "resp":
                fake.inbox.append(build_resp(st[1], st[2], st[3])); fake._kick()
            elif k == "raw":
                fake.inbox.append(bytes.fromhex(st[1]) if st[1] != "-" else b""); fake._kick()
            elif k == "req":
                fake.inbox.append(rmc.RMCMessage.request(S, st[1], st[2], st[3], b"").encode()); fake._kick()
            elif k == "eof":
                fake.inbox.append(EOF); fake._kick()
            elif k == "close":
                if not client.closed: sim.log("cleanup")
                await client.close()
            elif k == "disconnect":
                if not client.closed: sim.log("cleanup")
                await client.disconnect()
            elif k == "cleanup":
                if not client.closed: sim.log("cleanup")
                await client.__aexit__(None, None, None)
            else:
                raise ValueError(st)
        for _ in range(FINAL_YIELDS):
            await anyio.sleep(0)
        # white-box snapshot before tearing the tasks down
        sim.final = {
            "next": client.call_id, "closed": int(client.closed),
            "requests": sorted(client.requests.keys()), "responses": sorted(client.responses.keys()),
            "hung": [c["task"] for c in sim.callers if c["outcome"] is None],
            "loop": sim.loop_result, "undelivered": len(fake.inbox),
        }
        # per recv line: did the loop warn about an invalid call id while processing it?
        marks = sim.recv_marks
        for i, (idx, before) in enumerate(marks):
            after = marks[i + 1][1] if i + 1 < len(marks) else _handler.invalid
            sim.warn_after[idx] = after - before
        tg.cancel_scope.cancel()
    return sim


def run_many(scenarios):
    async def main():
        res = []
        for sc in scenarios:
            res.append(await run_scenario(sc))
        return res
    return anyio.run(main)
