"""C02, two more families of histories (virtual time, real endpoints; results compatible with l1_trace.build / l1_corr.compare):

run_big(cfg, seed, spec)       — a message (or an RMC request / response body) of many fragments is being sent when the peer dies
    after the k-th datagram of the transfer: many packets unacknowledged, with a congested socket also fragments still to send.
    The blocked send() / remote call must return or raise within the bound, a second sender on the same substream must not stay
    blocked behind the send lock, the connection block / the server's handler must be left. Controls: the same transfer to a live
    peer (and with one fragment lost once) is delivered intact.

run_unlearned(cfg, seed, spec) — one side's connection ends WITHOUT the other side learning of it, while the ended connection
    object stays registered (client: the application stays inside its `async with` block; server: the handler is still busy) and
    the link works (again):
      how = 'close-lost': a local close() whose three DISCONNECT datagrams fall into a burst loss;
      how = 'outage'    : a transient outage (one direction or both) during which the side with the smaller time-out budget
                          gives up while its application stays busy; then the link is back.
    The surviving side's pending recv / recv_unreliable must raise end-of-stream, its pending remote call must raise, the server
    must release the handler and forget the peer, within ping_timeout + (resend_limit+1)*resend_timeout (the survivor's) of the
    instant the other side's connection ended; afterwards the same address connects again.
"""
import copy, random, struct
import anyio

from sim import Sim, quant, Deadlock
import prudp_session as ps
from nintendo.nex import prudp

SERVER = ps.SERVER
HEADER = 13          # RMC request header: size u32, protocol u8, call id u32, method u32


def pattern(n, salt=0):
    return bytes(((i * 7 + salt) ^ (i >> 8)) & 0xFF for i in range(n))


class _Env:
    """what every scripted session needs: the op table, the trace markers, readers and senders"""

    def __init__(self, out, sim, rmc):
        self.out, self.sim, self.log, self.rmc = out, sim, sim.net.log, rmc
        self.eof = {"c": anyio.Event(), "s": anyio.Event()}
        self.eof_at = {}
        self.wrapped_recv = set()       # sides whose recv is wrapped (markers logged there: the RMC layer is the reader)

    def op_start(self, name):
        self.out.ops.append([name, self.sim.now(), None, None])
        return len(self.out.ops) - 1

    def op_end(self, i, outcome):
        self.out.ops[i][2] = self.sim.now(); self.out.ops[i][3] = outcome

    def mark(self, side, what, sub=0, data=b""):
        self.log.append(("app", self.sim.now(), side, what, sub, data))

    async def reader(self, side, client, on_data=None):
        out, log, sim = self.out, self.log, self.sim
        i = self.op_start("recv@" + side)
        try:
            while True:
                d = await client.recv(0)
                out.got[(side, 0)].append(d)
                if side not in self.wrapped_recv:
                    log.append(("deliver", sim.now(), side, 0, d))
                self.op_end(i, "data")
                if on_data: on_data(d)
                i = self.op_start("recv@" + side)
        except anyio.EndOfStream:
            if side not in self.wrapped_recv:
                log.append(("eof", sim.now(), side, 0))
            self.op_end(i, "eof")
            self.eof_at.setdefault(side, sim.now())
            self.eof[side].set()

    async def ureader(self, side, client):
        i = self.op_start("recv_unreliable@" + side)
        try:
            while True:
                await client.recv_unreliable()
        except anyio.EndOfStream:
            self.op_end(i, "eof")

    def wrap(self, side, client, recv_too=False):
        """a trace marker for every client.send, whoever calls it (the RMC layer included); with RMC on top also for what recv hands out"""
        log, sim = self.log, self.sim
        orig = client.send
        async def send(data, substream=0):
            log.append(("app", sim.now(), side, "send", substream, bytes(data)))
            return await orig(data, substream)
        client.send = send
        if recv_too:
            self.wrapped_recv.add(side)
            orig_recv = client.recv
            async def recv(substream=0):
                try:
                    d = await orig_recv(substream)
                except anyio.EndOfStream:
                    log.append(("eof", sim.now(), side, substream))
                    self.eof_at.setdefault(side, sim.now())
                    self.eof[side].set()
                    raise
                log.append(("deliver", sim.now(), side, substream, d))
                return d
            client.recv = recv

    async def send(self, name, client, data, within=None):
        i = self.op_start(name)
        try:
            if within is None:
                await client.send(data, 0)
            else:
                with anyio.fail_after(quant(within)):
                    await client.send(data, 0)
            self.op_end(i, "ok")
        except anyio.ClosedResourceError:
            self.op_end(i, "closed")
        except TimeoutError:
            self.op_end(i, "BLOCKED")
        except Exception as e:
            self.op_end(i, "error:" + type(e).__name__)

    async def sendu(self, name, client):
        i = self.op_start(name)
        try:
            await client.send_unreliable(b"late unreliable")
            self.op_end(i, "ok")
        except anyio.ClosedResourceError:
            self.op_end(i, "closed")
        except Exception as e:
            self.op_end(i, "error:" + type(e).__name__)

    async def late_recv(self, name, client, within):
        i = self.op_start(name)
        try:
            with anyio.fail_after(quant(within)):
                await client.recv(0)
            self.op_end(i, "data")
        except anyio.EndOfStream:
            self.op_end(i, "eof")
        except TimeoutError:
            self.op_end(i, "BLOCKED")

    async def call(self, name, rc, protocol, method, body):
        i = self.op_start(name)
        try:
            r = await rc.request(protocol, method, body)
            self.op_end(i, "ok:" + (r.hex() if len(r) <= 8 else "%d:%08x" % (len(r), sum(r) & 0xFFFFFFFF)))
        except (RuntimeError, anyio.ClosedResourceError):
            self.op_end(i, "closed")          # "RMC connection is closed" / the closed-connection error of the send underneath
        except Exception as e:
            self.op_end(i, "error:" + type(e).__name__)


def _session(cfg, seed, body, rmc=False, cfg_s=None, max_time=None, fixed_client_addr=True):
    """runs `await body(env)` in a fresh simulation; returns the Session"""
    rng = random.Random(seed)
    out = ps.Session()
    out.cfg, out.cfg_s = cfg, (cfg_s or cfg)
    out.seed, out.ops, out.kill = seed, [], None
    bound = cfg.ping_timeout + (cfg.resend_limit + 1) * cfg.resend_timeout
    bound_s = out.cfg_s.ping_timeout + (out.cfg_s.resend_limit + 1) * out.cfg_s.resend_timeout
    with Sim(seed) as sim:
        out.settings, out.settings_s = cfg.settings(), out.cfg_s.settings()
        sim.install_factories(fixed_client_addr=fixed_client_addr)
        sim.net.fate = lambda tx: [0.01]
        creds, session_key = (None, b"")
        if cfg.credentials:
            creds, session_key = ps.make_credentials(out.settings, random.Random(rng.random()), cfg.key_size)
        out.creds, out.session_key, out.epoch = creds, session_key, sim.epoch
        out.rnd, out.accepted, out.send_errors, out.extra_handlers = {}, [], [], []
        out.got = {("c", 0): [], ("s", 0): []}
        out.connect_error = None
        out.checkpoints, out.errors = [], []
        out.handler_started = False
        out.dead_at = None
        out.server_table = 0
        env = _Env(out, sim, rmc)
        env.bound, env.bound_s, env.creds = bound, bound_s, creds

        async def guarded():
            with anyio.move_on_after(max_time or (10 * max(bound, bound_s) + 60)) as scope:
                await body(env)
            out.timed_out = scope.cancelled_caught
        try:
            sim.run(guarded()); out.crash = None
        except Deadlock as e:
            out.crash = "deadlock: " + str(e); out.timed_out = False
        except BaseException as e:
            out.crash = repr(e); out.timed_out = False
        out.netlog = sim.net.log
        out.end_time = sim.now()
        out.nsub = 1
        out.addr = {"s": SERVER}
        for e in sim.net.log:
            if e[0] == "tx" and e[4] == SERVER:
                out.addr["c"] = e[3]; break
        vals = [v for (_, _, v) in sim.prudp_rand.log]
        g = 3 if (cfg.transport == "udp" and cfg.version != 0) else 2
        groups = [vals[i:i + g] for i in range(0, len(vals), g)]
        norm = (lambda gr: (gr[0], gr[1], gr[2])) if g == 3 else (lambda gr: (1, gr[0], gr[1]))
        out.rnd_groups = [norm(gr) for gr in groups if len(gr) == g]
        if out.rnd_groups: out.rnd.setdefault("c", out.rnd_groups[0])
        if len(out.rnd_groups) > 1: out.rnd.setdefault("s", out.rnd_groups[1])
        out.n_datagrams = sim.net.ngen
        out.bound, out.bound_s = bound, bound_s
        out.eof_at = env.eof_at
    return out


def _rnd(client):
    return (client.sequence_mgr.initial_unreliable_id, client.connection_check, client.local_session_id)


def _pace_socket(sock, delay):
    """a congested socket: every write takes `delay` (client sockets have the knob; the server's gets a wrapper)"""
    if hasattr(sock, "send_delay"):
        sock.send_delay = delay
        return
    if not hasattr(sock, "_c02_orig_send"):
        sock._c02_orig_send = sock.send
    orig = sock._c02_orig_send
    if not delay:
        sock.send = orig
        return
    async def send(data, addr):
        await anyio.sleep(delay)
        return await orig(data, addr)
    sock.send = send


# ------------------------------------------------------------------------------------------------------------------------
# family A: the peer dies while a big transfer is in flight

def run_big(cfg, seed, spec):
    """spec: nfrag (fragments of the big message, <= 255), sender 'c'|'s', via 'send'|'call'|'response', pace (seconds every socket
    write of the sender takes; 0 = the whole message leaves at one instant), kill = (k, mode) counted from the first datagram of
    the transfer (mode both | c2s | s2c) or None, lose = index of a datagram of the transfer that is lost once (control) or None.
    ops as in crash_session.run; out.big = the message; out.dead_at; out.transfer_at."""
    nfrag, sender, via = spec["nfrag"], spec["sender"], spec["via"]
    pace, kill, lose = quant(spec.get("pace", 0)), spec.get("kill"), spec.get("lose")
    rmc = via in ("call", "response")
    fs = cfg.fragment_size
    size = (nfrag - 1) * fs + max(1, fs - 3) - (HEADER if rmc else 0)
    big = pattern(size, nfrag)
    state = {"base": None, "dead_at": None, "lost": False}

    async def body(env):
        out, sim, log = env.out, env.sim, env.log
        out.big, out.kill = big, kill
        bound = env.bound
        s = out.settings
        stream_ref = {}
        # a graceful disconnect does not wait for unacknowledged data: the control with a lost fragment lets the retransmission happen first
        settle = quant(0.2617 + (cfg.resend_timeout if lose is not None else 0))

        def fate(tx):
            base = state["base"]
            if base is not None:
                if kill is not None and tx.g > base + kill[0]:
                    if state["dead_at"] is None:
                        state["dead_at"] = tx.t
                    to_server = tx.dst == SERVER
                    if kill[1] == "both" or (kill[1] == "c2s" and to_server) or (kill[1] == "s2c" and not to_server):
                        return []
                if lose is not None and tx.g == base + 1 + lose and not state["lost"]:
                    state["lost"] = True
                    return []
            return [0.01]
        sim.net.fate = fate

        def transfer_starts(sock):
            state["base"] = sim.net.ngen
            out.transfer_at = sim.now()
            if pace:
                _pace_socket(sock, pace)

        # ---- RMC protocols
        class Answering:
            PROTOCOL_ID = 0x65
            async def logout(self, client): pass
            async def handle(self, client, method, input, output):
                if method == 1:
                    output.u32(input.u32() + 1)
                elif method == 2:              # a big request body: answer with its size and byte sum
                    data = input.readall()
                    output.u32(len(data)); output.u32(sum(data) & 0xFFFFFFFF)
                elif method == 3:              # a big response body
                    transfer_starts(client.client.transport.socket)
                    output.write(big)

        async def second(name, client, delay):
            await anyio.sleep(quant(delay))
            await env.send(name, client, b"second", within=3 * bound + 5)

        async def second_call(rc, delay):
            await anyio.sleep(quant(delay))
            await env.call("call-second", rc, 0x65, 1, struct.pack("<I", 7))

        async def handler(client):
            if out.handler_started:
                out.extra_handlers.append(client.remote_address())
                return
            out.handler_started = True
            out.rnd["s"] = _rnd(client)
            env.wrap("s", client, recv_too=rmc)
            hi = env.op_start("handler")
            if rmc:
                from nintendo.nex import rmc as rmcmod
                rc = rmcmod.RMCClient(s, client)
                async with rc:
                    await rc.start([Answering()])
            else:
                async with anyio.create_task_group() as tg:
                    tg.start_soon(env.ureader, "s", client)
                    if sender == "s":
                        try:
                            d = await client.recv(0)
                            log.append(("deliver", sim.now(), "s", 0, d))
                            out.got[("s", 0)].append(d)
                            transfer_starts(client.transport.socket)
                            tg.start_soon(second, "send2@s", client, 0.0123)
                            await env.send("bigsend@s", client, big)
                        except anyio.EndOfStream:
                            log.append(("eof", sim.now(), "s", 0))
                    await env.reader("s", client)
                _pace_socket(client.transport.socket, 0)
                await env.send("send@s", client, b"late")
                await env.sendu("sendu@s", client)
            log.append(("app", sim.now(), "s", "done", 0, b""))
            env.op_end(hi, "returned")

        async def rmc_client(client):
            from nintendo.nex import rmc as rmcmod
            rc = rmcmod.RMCClient(s, client)
            async with rc:
                async with anyio.create_task_group() as tg:
                    tg.start_soon(rc.start, [])
                    await env.call("call-answered", rc, 0x65, 1, struct.pack("<I", 41))
                    await anyio.sleep(quant(0.1))
                    tg.start_soon(second_call, rc, 0.0123)
                    if via == "call":
                        transfer_starts(client.transport.socket)
                        await env.call("call-big", rc, 0x65, 2, big)
                    else:
                        await env.call("call-big", rc, 0x65, 3, b"")
                    await anyio.sleep(settle)
                    di = env.op_start("disconnect")
                    env.mark("c", "disconnect")
                    await rc.disconnect()
                    env.op_end(di, "returned")
                    client.transport.socket.send_delay = 0
                await env.call("call-after-close", rc, 0x65, 1, b"\0\0\0\0")

        async def plain_client(client):
            got_big = anyio.Event()
            async def big_or_eof():
                async with anyio.create_task_group() as w:
                    async def a():
                        await got_big.wait(); w.cancel_scope.cancel()
                    async def b():
                        await env.eof["c"].wait(); w.cancel_scope.cancel()
                    w.start_soon(a); w.start_soon(b)
            async with anyio.create_task_group() as tg:
                tg.start_soon(env.reader, "c", client, lambda d: got_big.set() if len(d) > 64 else None)
                tg.start_soon(env.ureader, "c", client)
                if sender == "c":
                    await env.send("send@c", client, b"hi")
                    await anyio.sleep(quant(0.1))
                    transfer_starts(client.transport.socket)
                    tg.start_soon(second, "send2@c", client, 0.0123)
                    await env.send("bigsend@c", client, big)
                else:
                    await env.send("send@c", client, b"go")
                    await big_or_eof()
                await anyio.sleep(settle)
                di = env.op_start("disconnect")
                env.mark("c", "disconnect")
                await client.disconnect()
                env.op_end(di, "returned")

        async with prudp.serve_transport(s, SERVER[0], SERVER[1]) as transport:
            async with transport.serve(handler, 1, 10, b"server key" if cfg.credentials else None):
                stream_ref["stream"] = transport.ports.get(1, 10)
                ci = env.op_start("connect")
                env.mark("c", "connect")
                try:
                    async with prudp.connect(s, SERVER[0], SERVER[1], credentials=env.creds) as client:
                        env.op_end(ci, "ok")
                        out.rnd["c"] = _rnd(client)
                        env.mark("c", "connected")
                        env.wrap("c", client, recv_too=rmc)
                        if rmc:
                            await rmc_client(client)
                        else:
                            await plain_client(client)
                        client.transport.socket.send_delay = 0
                        if not rmc:
                            await env.send("send@c", client, b"late")
                            await env.sendu("sendu@c", client)
                        xi = env.op_start("async-with-exit")
                    env.op_end(xi, "returned")
                    env.mark("c", "closed")
                except BaseException as e:
                    if out.ops[ci][2] is None:
                        env.op_end(ci, "failed")
                        out.connect_error = repr(e)
                        env.mark("c", "connect-failed")
                    else:
                        out.errors.append(("client", repr(e)))
                await anyio.sleep(quant(bound + 1.0))
                out.server_table = len(stream_ref["stream"].clients)
                if kill is not None:
                    sim.net.fate = lambda tx: [0.01]
                    env.mark("c", "reconnect")
                    ri = env.op_start("reconnect")
                    try:
                        async with prudp.connect(s, SERVER[0], SERVER[1], credentials=env.creds) as c2:
                            env.op_end(ri, "ok")
                    except BaseException as e:
                        env.op_end(ri, "failed:" + repr(e)[:80])
        out.dead_at = state["dead_at"]

    out = _session(cfg, seed, body, rmc=rmc)
    out.dead_at = state["dead_at"]
    out.skip_l1 = bool(pace)            # the model's socket writes take no time
    return out


# ------------------------------------------------------------------------------------------------------------------------
# family B: one side's connection ends, the other does not learn of it, the link works, the ended object is still registered

def run_unlearned(cfg, seed, spec):
    """spec: how 'close-lost' | 'outage'; ender 'c'|'s' (whose connection ends first); at (seconds after the connection is up);
    loss 'to-peer' | 'both' (close-lost: which datagrams the burst takes) / 'to-ender' | 'from-ender' | 'both' (outage: direction);
    rmc True: the surviving client has a remote call pending (ender = 's' only); ender_cfg: the smaller budget of the side that
    gives up (outage). out.ended_at = the instant the ender's connection ended; ops as in crash_session.run."""
    how, ender, at, loss = spec["how"], spec["ender"], quant(spec["at"]), spec["loss"]
    rmc = bool(spec.get("rmc"))
    assert not (rmc and ender != "s")
    surv = "s" if ender == "c" else "c"
    cfg_s = None
    if how == "outage":
        small = copy.copy(cfg)
        small.__dict__.update(spec.get("ender_cfg") or dict(ping_timeout=0.5, resend_timeout=0.25, resend_limit=0))
        if ender == "s":
            cfg_s = small
        else:
            cfg, cfg_s = small, cfg
    state = {"from": None, "until": None}
    ender_is_server = ender == "s"

    async def body(env):
        out, sim, log = env.out, env.sim, env.log
        s, s_srv = out.settings, out.settings_s
        bound_surv = env.bound_s if surv == "s" else env.bound
        bound_end = env.bound if surv == "s" else env.bound_s
        stay = quant(2 * max(env.bound, env.bound_s) + 2.0)
        out.ended_at = None
        out.table_at_bound = None
        out.outage = None
        stream_ref = {}

        def fate(tx):
            if state["from"] is not None and state["from"] <= tx.t < state["until"]:
                from_ender = (tx.src == SERVER) == ender_is_server
                if loss == "both" or (loss in ("to-peer", "from-ender") and from_ender) or (loss == "to-ender" and not from_ender):
                    return []
            return [0.01]
        sim.net.fate = fate

        def ended():
            if out.ended_at is None:
                out.ended_at = sim.now()

        async def trigger(side, client):
            """what ends the ender's connection: its own close() inside a burst loss, or an outage it does not survive"""
            await anyio.sleep(at)
            if how == "close-lost":
                if side != ender:
                    return
                state["from"], state["until"] = sim.now(), sim.now() + quant(0.05)
                i = env.op_start("close@" + side)
                env.mark(side, "close")
                await client.close()
                ended()
                env.op_end(i, "returned")
            elif side == "c":
                # long enough for the ender (smaller budget) to give up whatever the phase of its keep-alive, then the link is back
                state["from"], state["until"] = sim.now(), sim.now() + quant(bound_end + 0.0731)
                out.outage = (state["from"], state["until"])

        async def watch_table():
            # the server's table right after the survivor's bound has passed
            while out.ended_at is None:
                await anyio.sleep(quant(0.015625))
            await anyio.sleep(max(0.0, out.ended_at + bound_surv + 0.0625 + 2.0 ** -10 - sim.now()))
            out.table_at_bound = len(stream_ref["stream"].clients)

        async def handler(client):
            if out.handler_started:
                try:
                    while True:
                        d = await client.recv()
                        await client.send(b"echo:" + d)
                except anyio.EndOfStream:
                    return
            out.handler_started = True
            out.rnd["s"] = _rnd(client)
            env.wrap("s", client)
            hi = env.op_start("handler")
            async with anyio.create_task_group() as tg:
                tg.start_soon(env.ureader, "s", client)
                if not rmc:
                    tg.start_soon(env.send, "send@s", client, b"welcome " * 3)
                tg.start_soon(trigger, "s", client)
                await env.reader("s", client)
            if ender == "s":
                ended()
                # the server application is still busy with this client: its record stays in the server's table
                await env.late_recv("late-recv@s", client, 1.0)
                await env.send("send@s", client, b"late", within=5.0)
                await anyio.sleep(stay)
            else:
                await env.send("send@s", client, b"late", within=5.0)
                await env.sendu("sendu@s", client)
            log.append(("app", sim.now(), "s", "done", 0, b""))
            env.op_end(hi, "returned")

        async with prudp.serve_transport(s_srv, SERVER[0], SERVER[1]) as transport:
            async with transport.serve(handler, 1, 10, b"server key" if cfg.credentials else None):
                stream_ref["stream"] = transport.ports.get(1, 10)
                async with anyio.create_task_group() as wtg:
                    wtg.start_soon(watch_table)
                    ci = env.op_start("connect")
                    env.mark("c", "connect")
                    try:
                        async with prudp.connect(s, SERVER[0], SERVER[1], credentials=env.creds) as client:
                            env.op_end(ci, "ok")
                            out.rnd["c"] = _rnd(client)
                            env.mark("c", "connected")
                            env.wrap("c", client, recv_too=rmc)
                            if rmc:
                                from nintendo.nex import rmc as rmcmod
                                rc = rmcmod.RMCClient(s, client)
                                async with rc:
                                    async with anyio.create_task_group() as tg:
                                        tg.start_soon(rc.start, [])
                                        tg.start_soon(env.ureader, "c", client)
                                        tg.start_soon(trigger, "c", client)
                                        # the server application never answers: the call stays pending
                                        await env.call("call-pending", rc, 0x66, 2, b"x" * 40)
                                    await env.call("call-after-close", rc, 0x66, 2, b"")
                            else:
                                async with anyio.create_task_group() as tg:
                                    tg.start_soon(env.ureader, "c", client)
                                    tg.start_soon(trigger, "c", client)
                                    await env.send("send@c", client, b"hello " * 5)
                                    await env.reader("c", client)       # until this side's connection has ended
                                if ender == "c":
                                    ended()
                            await env.late_recv("late-recv@c", client, 1.0)
                            await env.send("send@c", client, b"late", within=5.0)
                            if ender == "c":
                                # the application stays inside the connection block (it still owns the socket)
                                await anyio.sleep(stay)
                            xi = env.op_start("async-with-exit")
                        env.op_end(xi, "returned")
                        env.mark("c", "closed")
                    except BaseException as e:
                        if out.ops[ci][2] is None:
                            env.op_end(ci, "failed")
                            out.connect_error = repr(e)
                            env.mark("c", "connect-failed")
                        else:
                            out.errors.append(("client", repr(e)))
                    # whoever was busy has finished after `stay`
                    await anyio.sleep(stay + quant(max(env.bound, env.bound_s) + 1.0))
                    out.server_table = len(stream_ref["stream"].clients)
                    sim.net.fate = lambda tx: [0.01]
                    env.mark("c", "reconnect")
                    ri = env.op_start("reconnect")
                    try:
                        async with prudp.connect(s, SERVER[0], SERVER[1], credentials=env.creds) as c2:
                            await c2.send(b"again")
                            with anyio.fail_after(quant(env.bound + 5)):
                                d = await c2.recv()
                            env.op_end(ri, "ok" if d == b"echo:again" else "wrong-echo:%r" % d[:20])
                    except BaseException as e:
                        env.op_end(ri, "failed:" + repr(e)[:80])
                    wtg.cancel_scope.cancel()

    out = _session(cfg, seed, body, rmc=rmc, cfg_s=cfg_s, max_time=400.0)
    out.surv, out.ender = surv, ender
    out.bound_surv = out.bound_s if surv == "s" else out.bound
    return out
