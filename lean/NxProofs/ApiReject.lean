import NxModel.Api.Legacy
/-! C20 — a REJECTED setter call leaves the client as it was. `Nasc.apply` returns `Except`: a refused call yields no new state, so a
program that catches the exception goes on with the state it had (`applyCaught`). The statements below say what that means for whole
histories: the rejected calls can be deleted from any history of setter calls without changing the client, hence without changing
any later request. The check (harness/c20_reject.py) asks the real clients the same question (discovering the rejected values by
itself) and replays the nasc histories through the model with the rejected calls deleted. The seven Switch clients'
`set_system_version` is `Nx.C18.set_version_atomic`. -/
namespace Nx.Api
open Nx

/-- what a program that catches the setter's exception continues with -/
def Nasc.applyCaught (s : Nasc) (st : NascSet) : Nasc :=
  match s.apply st with
  | .ok s' => s'
  | .error _ => s

/-- the calls `NASCClient` refuses: a cartridge title without rom id -/
def NascSet.refused : NascSet → Bool
  | .title _ _ _ _ mt rom => mt == 2 && rom.isNone
  | _ => false

theorem nasc_refused_iff (s : Nasc) (st : NascSet) : (∃ e, s.apply st = .error e) ↔ st.refused = true := by
  cases st <;> simp [Nasc.apply, NascSet.refused]
  split <;> simp_all

theorem nasc_applyCaught_refused (s : Nasc) (st : NascSet) (h : st.refused = true) : s.applyCaught st = s := by
  obtain ⟨e, he⟩ := (nasc_refused_iff s st).mpr h
  simp [Nasc.applyCaught, he]

theorem nasc_applyCaught_accepted (s s' : Nasc) (st : NascSet) (h : s.apply st = .ok s') : s.applyCaught st = s' := by
  simp [Nasc.applyCaught, h]

theorem nasc_history_without_rejected (s : Nasc) (l : List NascSet) :
    l.foldl Nasc.applyCaught s = (l.filter fun st => !st.refused).foldl Nasc.applyCaught s := by
  induction l generalizing s with
  | nil => rfl
  | cons st l ih =>
    by_cases h : st.refused = true
    · simp [List.filter, h, nasc_applyCaught_refused s st h, ih]
    · simp [List.filter, h, ih]

end Nx.Api
