"""Observation made while widening C14 (edge-of-domain strings): a single legal string value can make an RMC message that the
PRUDP layer cannot carry.  PRUDPClient.send() numbers the fragments 1, 2, 3, ... in a u8; a message of more than
255 * prudp.fragment_size bytes makes struct.pack raise inside send(), the exception escapes the connection's task group and
the caller sees 'RMC connection is closed' instead of its value (or an explicit 'message too large').  With the shipped
fragment sizes (1300 / 962) this needs > 331 KB / > 245 KB in ONE message (e.g. a list of six strings of 65534 bytes); with
prudp.fragment_size = 250 one longest encodable string (65534 bytes) is enough, which is what this script shows.

The C14 check keeps its PRUDP sessions below that ceiling (harness/c14_wire.py: at most one string of <= 32768 bytes per
message); the longest encodable string is exercised over the in-memory transport, where it round-trips.

Run:  NX_REPO=<tree, default /repo> /venv/bin/python /verif/harness/c14_repro_oversize_message.py"""
import os, sys
sys.path.insert(0, os.environ.get("NX_REPO", "/repo"))
import logging; logging.disable(logging.CRITICAL)
import anyio
from anynet import util
from nintendo.nex import prudp, rmc, settings, authentication

CLIENT_ADDR = ("10.0.0.2", 50000)
SERVER_ADDR = ("10.0.0.1", 60000)


class Net:
    def __init__(self):
        self.cs, self.cr = anyio.create_memory_object_stream(float("inf"))
        self.ss, self.sr = anyio.create_memory_object_stream(float("inf"))

class ClientSocket:
    def __init__(self, net): self.net = net
    async def send(self, data): await self.net.ss.send((data, CLIENT_ADDR))
    async def recv(self): return await self.net.cr.receive()
    def local_address(self): return CLIENT_ADDR
    def remote_address(self): return SERVER_ADDR

class ServerSocket:
    def __init__(self, net): self.net = net
    async def send(self, data, addr): await self.net.cs.send(data)
    async def recv(self): return await self.net.sr.receive()
    def local_address(self): return SERVER_ADDR


class Server(authentication.AuthenticationServer):
    def __init__(self): super().__init__(); self.value = None
    async def get_name(self, client, pid): return self.value


async def one(fragment_size, nbytes):
    s = settings.default()
    s["prudp.fragment_size"] = fragment_size
    net, srv = Net(), Server()
    srv.value = "a" * nbytes
    out = None
    try:
        async with util.create_task_group() as group:
            st = prudp.PRUDPDatagramTransport(s, ServerSocket(net), group); st.start()
            async with rmc.serve_on_transport(s, [srv], st, 1):
                ct = prudp.PRUDPClientTransport(s, ClientSocket(net), group); ct.start()
                async with ct.connect(1) as conn:
                    client = rmc.RMCClient(s, conn)
                    async with client:
                        group.start_soon(client.start, [])
                        try:
                            with anyio.fail_after(20):
                                got = await authentication.AuthenticationClient(client).get_name(1)
                            out = "caller got the value back" if got == srv.value else "caller got a DIFFERENT value (%d characters)" % len(got)
                        except Exception as e:
                            out = "caller got %s: %s" % (type(e).__name__, e)
            group.cancel_scope.cancel()
    except BaseException as e:
        leaf = e
        while getattr(leaf, "exceptions", None): leaf = leaf.exceptions[0]
        out = (out or "") + " | escaped the connection: %s: %s" % (type(leaf).__name__, leaf)
    return out


async def main():
    bad = 0
    for fs, n in ((1300, 65534), (300, 65534), (250, 65534), (250, 255 * 250 - 40), (250, 255 * 250 + 250)):
        r = await one(fs, n)
        print("prudp.fragment_size=%d, get_name() returning a string of %d bytes (%d fragments): %s" % (fs, n, -(-(n + 30) // fs), r))
        bad += "got the value back" not in r or "escaped" in r
    return bad

sys.exit(1 if anyio.run(main) else 0)
