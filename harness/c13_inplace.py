"""C13 family "write, mutate in place, write again" (histories of ONE value object).

The property equates the bytes of the generated code with an interpreter of the definition applied to the *current*
values. The main tie (schema_tie) builds a fresh object for every encoding, so it never sees an object that is written
twice. Here ONE real object (a structure instance; the argument / result objects of a generated client call) lives
through a history

    write #0, mutate, write #1, mutate, write #2, ...        (all under the SAME settings object)

and every write must equal the compiled Lean interpreter's encoding of the value tree as it stands at that moment. The
interpreter is a pure function of (definition, configuration, value) — nothing to remember — so any dependence of the
real bytes on the history (memoised encodings, dirty flags that only see attribute assignment on the outer object,
keys built from object identities or lengths, ...) shows as a difference.

Mutations are *in place*, chosen type-directed from every site of the value tree and rotated over categories so that
every structure class sees every category it has a site for (over its configurations and steps):
  set:top:<kind>      attribute of the written object assigned (bytes -> other bytes of the same / another length,
                      string, integer +-, bool, variant tag, anydata class, whole list / map / structure replaced)
  set:nested          attribute of an inner structure assigned THROUGH the inner object (param.range.offset ^= 1), any depth
  set:elem            attribute of a structure that sits inside a list / map assigned through that element
  append / setitem / pop / (same inside nested containers: ...:deep)     list mutated, the attribute is not re-assigned
  mapnew / mapset / mapdel                                                dict mutated, the attribute is not re-assigned
Every write goes to a fresh StreamOut and, in addition, to one stream that accumulates all writes of the history
(its content must be the concatenation of the interpreter's encodings).
For methods: the same generated client object is called repeatedly with the SAME argument objects (mutated in place
between the calls; immutable arguments are replaced), and the recording server implementation returns the SAME result
object (mutated in place between the calls): request body and response body of every call vs the interpreter.

Replay: `/venv/bin/python /verif/harness/c13_inplace.py <replay.json>` re-runs the history of a reported violation on
the tree named by NX_REPO (default /repo) and prints the real bytes of every write.
"""
import ast, os, random, struct, sys, traceback

HERE = os.path.dirname(os.path.abspath(__file__))
for _p in (HERE, os.path.join(os.path.dirname(HERE), "tools"), os.path.join(os.path.dirname(HERE), "lib")):
    if _p not in sys.path: sys.path.insert(0, _p)

from schema_proto2lean import load_env, code, BASIC
import schema_values as SV
import schema_tie as T
import schema_c13_focus as F


# ---------------------------------------------------------------------------------------------
# sites of a value tree

def _kind(tyname):
    if tyname in ("buffer", "qbuffer"): return "bytes"
    if tyname in ("string", "stationurl"): return "str"
    if tyname in ("list", "map", "variant", "anydata", "bool"): return tyname
    if tyname in ("float", "double"): return "float"
    if tyname in BASIC: return "int"
    return "struct"


def sites(gen, ty, tree, path=(), ctxt="top", out=None):
    """every in-place mutation site of `tree` (of declared type `ty`): (category, op, path, info).
    ctxt: "top" (the container is the written object itself), "nested" (reached through structure attributes only),
    "elem" (reached through a list element / map value)."""
    if out is None: out = []
    k = tree[0]
    if k == "obj":
        for i, ((v, req), ft) in enumerate(zip(gen.fields(tree[1]), tree[2])):
            cat = "set:top:" + _kind(v["type"]["name"]) if ctxt == "top" else "set:" + ctxt
            out.append((cat, "set", path, (i, v["name"], v["type"], req)))
            sites(gen, v["type"], ft, path + (("attr", i, v["name"]),), "nested" if ctxt in ("top", "nested") else ctxt, out)
    elif k == "list" and ty["name"] == "list":
        et = ty["template"][0]
        deep = ":deep" if sum(1 for p in path if p[0] != "attr") or len(path) > 1 else ""
        out.append(("append" + deep, "append", path, (et,)))
        for j, x in enumerate(tree[1]):
            out.append(("setitem" + deep, "setitem", path, (j, et)))
            sites(gen, et, x, path + (("idx", j),), "elem", out)
        if tree[1]: out.append(("pop" + deep, "pop", path, (len(tree[1]) - 1,)))
    elif k == "map" and ty["name"] == "map":
        kt, vt = ty["template"]
        deep = ":deep" if sum(1 for p in path if p[0] != "attr") or len(path) > 1 else ""
        out.append(("mapnew" + deep, "mapnew", path, (kt, vt)))
        for j, (a, b) in enumerate(tree[1]):
            out.append(("mapset" + deep, "mapset", path, (j, vt)))
            sites(gen, vt, b, path + (("mval", j),), "elem", out)
        if tree[1]: out.append(("mapdel" + deep, "mapdel", path, (len(tree[1]) - 1,)))
    return out


def fresh(gen, ty, cur, cfg, depth, req, rng):
    """a value of type `ty` different from `cur` (None if none was found)"""
    n = ty["name"]
    if cur is not None:
        if cur[0] == "int" and n != "result" and rng.random() < 0.4:
            return ("int", cur[1] ^ 1)                                   # the small `+= n` style change
        if cur[0] == "bool": return ("bool", not cur[1])
        if cur[0] == "bytes" and cur[1] and rng.random() < 0.5:           # other bytes, same length
            b = bytearray(cur[1]); i = rng.randrange(len(b)); b[i] ^= 1 + rng.randrange(255)
            return ("bytes", bytes(b))
        if cur[0] == "str" and cur[1] and rng.random() < 0.4:             # other string, same length
            s = cur[1]; i = rng.randrange(len(s))
            c = "q" if s[i] != "q" else "r"
            return ("str", s[:i] + c + s[i + 1:])
    for _ in range(8):
        t = gen.gen(ty, cfg, min(depth, 3), req)
        if t != cur: return t
    t = F.Marker(gen, start=rng.randrange(1000)).val(ty, cfg, min(depth, 3))
    return t if t != cur else None


def tree_get(tree, path):
    for p in path:
        if p[0] == "attr": tree = tree[2][p[1]]
        elif p[0] == "idx": tree = tree[1][p[1]]
        elif p[0] == "mval": tree = tree[1][p[1]][1]
        elif p[0] == "arg": tree = tree[1][p[1]]
    return tree


def tree_put(tree, path, f):
    """tree with the node at `path` replaced by f(node)"""
    if not path: return f(tree)
    p = path[0]
    if p[0] == "attr":
        xs = list(tree[2]); xs[p[1]] = tree_put(xs[p[1]], path[1:], f); return (tree[0], tree[1], xs)
    if p[0] in ("idx", "arg"):
        xs = list(tree[1]); xs[p[1]] = tree_put(xs[p[1]], path[1:], f); return (tree[0], xs)
    if p[0] == "mval":
        xs = list(tree[1]); xs[p[1]] = (xs[p[1]][0], tree_put(xs[p[1]][1], path[1:], f)); return (tree[0], xs)
    raise ValueError(p)


def real_get(o, path):
    for p in path:
        if p[0] == "attr": o = getattr(o, p[2])
        elif p[0] in ("idx", "arg"): o = o[p[1]]
        elif p[0] == "mval": o = o[list(o.keys())[p[1]]]
    return o


def make_step(gen, site, tree, cfg, rng):
    """site -> step (op, path, payload) with concrete new values, or None. Payloads are value trees (+ their types)."""
    cat, op, path, info = site
    node = tree_get(tree, path)
    depth = len(path) + 1
    if op == "set":
        i, name, ty, req = info
        new = fresh(gen, ty, node[2][i], cfg, depth, req, rng)
        return None if new is None else (op, path, (i, name, ty, new))
    if op == "append":
        return (op, path, (info[0], gen.gen(info[0], cfg, min(depth, 3), True)))
    if op == "setitem":
        j, et = info
        new = fresh(gen, et, node[1][j], cfg, depth, True, rng)
        return None if new is None else (op, path, (j, et, new))
    if op in ("pop", "mapdel"):
        return (op, path, (info[0],))
    if op == "mapnew":
        kt, vt = info
        have = {a for a, _ in node[1]}
        for _ in range(10):
            key = gen.gen(kt, cfg, min(depth, 3), True)
            if key not in have:
                return (op, path, (kt, vt, key, gen.gen(vt, cfg, min(depth, 3), True)))
        return None
    if op == "mapset":
        j, vt = info
        new = fresh(gen, vt, node[1][j][1], cfg, depth, True, rng)
        return None if new is None else (op, path, (j, vt, new))
    raise ValueError(op)


def apply_tree(tree, step):
    op, path, pl = step
    if op == "settings": return tree              # the next write happens under other settings; the value stays
    if op == "set":
        def f(n):
            xs = list(n[2]); xs[pl[0]] = pl[3]; return (n[0], n[1], xs)
    elif op == "append":
        f = lambda n: (n[0], list(n[1]) + [pl[1]])
    elif op == "setitem":
        def f(n):
            xs = list(n[1]); xs[pl[0]] = pl[2]; return (n[0], xs)
    elif op in ("pop", "mapdel"):
        def f(n):
            xs = list(n[1]); del xs[pl[0]]; return (n[0], xs)
    elif op == "mapnew":
        f = lambda n: (n[0], list(n[1]) + [(pl[2], pl[3])])
    elif op == "mapset":
        def f(n):
            xs = list(n[1]); xs[pl[0]] = (xs[pl[0]][0], pl[2]); return (n[0], xs)
    else:
        raise ValueError(op)
    return tree_put(tree, path, f)


def apply_real(real, root, step):
    """the same change on the real object graph, in place: nothing above the container is touched"""
    op, path, pl = step
    if op == "settings": return
    o = real_get(root, path)
    if op == "set": setattr(o, pl[1], real.build_typed(pl[2], pl[3]))
    elif op == "append": o.append(real.build_typed(pl[0], pl[1]))
    elif op == "setitem": o[pl[0]] = real.build_typed(pl[1], pl[2])
    elif op == "pop": del o[pl[0]]
    elif op == "mapnew": o[real.build_typed(pl[0], pl[2])] = real.build_typed(pl[1], pl[3])
    elif op == "mapset": o[list(o.keys())[pl[0]]] = real.build_typed(pl[1], pl[2])
    elif op == "mapdel": del o[list(o.keys())[pl[0]]]
    else: raise ValueError(op)


def step_text(step):
    op, path, pl = step
    if op == "settings": return "(no change of the value; the next write is under (nex.version, struct_header, pid_size) = %r)" % (tuple(pl[0]),)
    where = "value" + "".join("." + p[2] if p[0] == "attr" else "[%d]" % p[1] if p[0] in ("idx", "arg") else "{key #%d}" % p[1] for p in path)
    if op == "set": return "%s.%s = %s" % (where, pl[1], SV.to_val(pl[3])[:120])
    if op == "append": return "%s.append(%s)" % (where, SV.to_val(pl[1])[:120])
    if op == "setitem": return "%s[%d] = %s" % (where, pl[0], SV.to_val(pl[2])[:120])
    if op == "pop": return "del %s[%d]" % (where, pl[0])
    if op == "mapnew": return "%s[%s] = %s (new key)" % (where, SV.to_val(pl[2])[:60], SV.to_val(pl[3])[:120])
    if op == "mapset": return "%s{key #%d} = %s" % (where, pl[0], SV.to_val(pl[2])[:120])
    if op == "mapdel": return "del %s{key #%d}" % (where, pl[0])
    return repr(step)


def is_top(cat):
    """categories that assign an attribute of the written object itself / replace a whole argument"""
    return cat.startswith("set:top:") or cat.startswith("replace:")


def pick(all_sites, group, turns, rng):
    """one site of the group ("deep": the written object's own attributes are NOT assigned — the change happens through an
    inner object, list or dict; "top": an attribute of the written object is assigned), categories of the group in strict
    rotation (`turns` = per-item counters that continue over the configurations); the other group when this one is empty"""
    cats = sorted({s[0] for s in all_sites if is_top(s[0]) == (group == "top")})
    if not cats:
        group = "deep" if group == "top" else "top"
        cats = sorted({s[0] for s in all_sites if is_top(s[0]) == (group == "top")})
        if not cats: return None
    t = turns.get(group, 0)
    turns[group] = t + 1
    cat = cats[t % len(cats)]
    return rng.choice([s for s in all_sites if s[0] == cat])


PLAN = ["deep", "top", "deep", "deep", "top", "deep"]


# ---------------------------------------------------------------------------------------------
# worker

def task(args):
    repo, name, cfgs, seed, steps, exe = args[:6]
    ci0 = args[6] if len(args) > 6 else 0
    res = {"family": "inplace", "module": name, "cases": 0, "writes": 0, "lines": 0, "tags": {}, "diffs": [], "keys": [], "samples": [],
           "error": None, "structs_with_containers": 0, "avail": [], "seen": []}
    try:
        _task(repo, name, cfgs, seed, steps, exe, res, ci0)
    except Exception:
        res["error"] = traceback.format_exc()
    return res


def dispatch(t):
    """one pool for both families: ("tie", args) -> schema_tie.task, ("inplace", args) -> task"""
    return T.task(t[1]) if t[0] == "tie" else task(t[1])


def load(repo, name):
    if repo not in sys.path[:1]: sys.path.insert(0, repo)
    import importlib, logging
    logging.disable(logging.CRITICAL)
    from nintendo.nex import common, streams, rmc, settings as nexsettings, notification
    mod = importlib.import_module("nintendo.nex." + name)
    if not os.path.abspath(mod.__file__).startswith(os.path.abspath(repo)):
        raise RuntimeError("module %s imported from %s, not from %s" % (name, mod.__file__, repo))
    env, problem = load_env(os.path.join(repo, "nintendo/files/proto"), repo, name)
    if env is None: raise RuntimeError(problem)
    return mod, env, common, streams, rmc, nexsettings, notification


def mk_settings(nexsettings, cfg):
    s = nexsettings.default()
    s["nex.version"] = cfg[0]; s["nex.struct_header"] = cfg[1]; s["nex.pid_size"] = cfg[2]
    return s


def write(streams, st, obj, acc):
    """-> 'ok <hex>' / 'err <Name>' of writing obj to a fresh stream (and, when that worked, to the accumulating one)"""
    try:
        out = streams.StreamOut(st); out.add(obj); rb = out.get()
    except Exception as e:
        return "err " + T.exc_name(e)
    if acc is not None:
        try: acc.add(obj)
        except Exception as e: return "err acc:" + T.exc_name(e)
    return "ok " + SV.hx(rb)


def _task(repo, name, cfgs, seed, steps, exe, res, ci0=0):
    mod, env, common, streams, rmc, nexsettings, notification = load(repo, name)
    rng = random.Random("inplace/%s/%s/%r" % (seed, name, cfgs[0]))
    gen = SV.Gen(env, rng)
    real = SV.Real(gen, mod, common, notification)
    tags = res["tags"]
    def tag(t, n=1): tags[t] = tags.get(t, 0) + n
    lines = env.driver_lines()
    nsetup = len(lines)
    seqs = []
    struct_names = [s["name"] for s in env.order if s["name"] in env.structs]
    def has_container(sname):
        return any(_kind(v["type"]["name"]) in ("struct", "list", "map", "anydata") for v, _ in gen.fields(sname))
    res["structs_with_containers"] = sum(1 for s in struct_names if has_container(s))

    # histories: marker start value `steps` mutations, random start value and methods half as many
    plans = {"m": (PLAN * steps)[:steps], "r": (PLAN * steps)[:max(1, steps // 2)]}
    mplan = (PLAN * steps)[:max(2, steps // 2)]
    per_cfg = {g: plans["m"].count(g) + plans["r"].count(g) for g in ("deep", "top")}
    mper_cfg = {g: mplan.count(g) for g in ("deep", "top")}
    avail, seen = set(), set()
    allcfgs = T.module_configs(env)
    nexes = sorted({c[0] for c in allcfgs})
    def other_cfg(cfg, r):
        """a configuration that differs in one axis: struct header, pid size, or the neighbouring nex.version of the module's list"""
        if r % 3 == 0: return (cfg[0], 1 - cfg[1], cfg[2])
        if r % 3 == 1: return (cfg[0], cfg[1], 12 - cfg[2])
        return (nexes[(nexes.index(cfg[0]) + 1 + (r // 3) % max(1, len(nexes) - 1)) % len(nexes)], cfg[1], cfg[2])
    for cj, cfg in enumerate(cfgs):
        ci = ci0 + cj            # index of the configuration in the module's list: the rotation continues over the slices
        st = mk_settings(nexsettings, cfg)
        cs = "%d %d %d %d" % (cfg[0], cfg[1], cfg[2], T.FUEL)
        # ---------------- structures through StreamOut.add
        for si, sname in enumerate(struct_names):
            ty = {"name": sname, "template": None}
            for base in ("m", "r"):
                tree = F.Marker(gen, start=ci + si).obj(sname, cfg) if base == "m" else gen.obj(sname, cfg)
                key = "inplace:%s:%s:%r:%s" % (name, sname, cfg, base)
                seq = {"kind": "struct", "key": key, "struct": sname, "cfg": cfg, "tree0": tree, "writes": [], "wcfg": [], "steps": [], "cats": [], "i0": len(lines)}
                try:
                    obj = real.build(tree)
                except Exception as e:
                    tag("inplace:build-failed"); continue
                acc = streams.StreamOut(st)
                seq["writes"].append(write(streams, st, obj, acc)); seq["wcfg"].append(cfg)
                lines.append("enc %s S %d %s" % (cs, code(sname), SV.to_val(tree)))
                plan = plans[base]
                turns = {g: ci * per_cfg[g] + (0 if base == "m" else plans["m"].count(g)) for g in per_cfg}
                if base == "m" and cj == 0:
                    avail.update((sname, s[0]) for s in sites(gen, ty, tree))
                for k in range(len(plan)):
                    site = pick(sites(gen, ty, tree), plan[k], turns, rng)
                    step = make_step(gen, site, tree, cfg, rng) if site else None
                    if step is None: continue
                    tree = apply_tree(tree, step)
                    apply_real(real, obj, step)
                    seq["steps"].append(step); seq["cats"].append(site[0]); seen.add((sname, site[0]))
                    seq["writes"].append(write(streams, st, obj, acc)); seq["wcfg"].append(cfg)
                    lines.append("enc %s S %d %s" % (cs, code(sname), SV.to_val(tree)))
                if base == "m":
                    # the same object once under other settings (other settings OBJECT, one axis differs), then under the first again
                    for c2 in (other_cfg(cfg, ci + si), cfg):
                        seq["steps"].append(("settings", (), (c2,))); seq["cats"].append("settings:" + ("back" if c2 == cfg else "header" if c2[1] != cfg[1] else "pid" if c2[2] != cfg[2] else "nex"))
                        seq["writes"].append(write(streams, st if c2 == cfg else mk_settings(nexsettings, c2), obj, acc if c2 == cfg else None)); seq["wcfg"].append(c2)
                        lines.append("enc %d %d %d %d S %d %s" % (c2[0], c2[1], c2[2], T.FUEL, code(sname), SV.to_val(tree)))
                try: seq["acc"] = SV.hx(acc.get())
                except Exception as e: seq["acc"] = "err " + T.exc_name(e)
                seqs.append(seq)
        # ---------------- methods through the generated client / server
        for p in env.protos:
            pname = p["name"]
            ccls, scls = getattr(mod, T.make_class_name(pname, "Client"), None), getattr(mod, T.make_class_name(pname, "Server"), None)
            if ccls is None or scls is None: continue
            for m in p["methods"]:
                if not m["supported"] or not (m["request"] or m["response"]): continue
                base = "m" if (ci + m["id"]) % 2 == 0 else "r"
                if base == "m":
                    mk = F.Marker(gen, start=ci + m["id"])
                    args = [mk.val(v["type"], cfg, 0) for v in m["request"]]
                    rets = [mk.val(v["type"], cfg, 0) for v in m["response"]]
                else:
                    args = [gen.gen(v["type"], cfg, 0, False) for v in m["request"]]
                    rets = [gen.gen(v["type"], cfg, 0, len(m["response"]) == 1) for v in m["response"]]
                key = "inplace:%s:%s.%s:%r" % (name, pname, m["name"], cfg)
                mref = "%d %d" % (code(pname), code(m["name"]))
                seq = {"kind": "method", "key": key, "proto": pname, "method": m, "cfg": cfg, "args0": list(args), "rets0": list(rets), "calls": [], "steps": [], "cats": [],
                       "i0": len(lines), "noresponse": p["noresponse"]}
                hold = {}
                try:
                    rargs = [real.build_typed(v["type"], t) for v, t in zip(m["request"], args)]
                    rrets = [real.build_typed(v["type"], t) for v, t in zip(m["response"], rets)]
                    if len(rrets) > 1:
                        hold["robj"] = rmc.RMCResponse()
                        for v, x in zip(m["response"], rrets): setattr(hold["robj"], v["name"], x)
                    elif len(rrets) == 1: hold["robj"] = rrets[0]
                    else: hold["robj"] = None
                    async def impl(client, *a, _hold=hold):
                        return _hold["robj"]
                    srv = scls()
                    setattr(srv, m["name"], impl)
                    fc = T.FakeClient(st, srv)
                    cli = ccls(fc)
                except Exception:
                    tag("inplace:build-failed"); continue
                def call():
                    n0 = len(fc.calls)
                    fc.response = None
                    try:
                        T.run_coro(getattr(cli, m["name"])(*rargs))
                        flow = "ok"
                    except Exception as e:
                        flow = "err " + T.exc_name(e)
                    body = fc.calls[n0][2] if len(fc.calls) > n0 else None
                    seq["calls"].append((flow, len(fc.calls) - n0, fc.calls[n0][:2] if body is not None else None, body, fc.response))
                    lines.append("req %s %s %s" % (cs, mref, SV.vals(args)))
                    lines.append("sresp %s %s %s" % (cs, mref, SV.vals(rets)))
                call()
                turns = {g: ci * mper_cfg[g] for g in mper_cfg}
                # the arguments / results as pseudo-lists so that the same site machinery applies
                for k in range(len(mplan)):
                    which = "args" if (k + ci + m["id"]) % 2 == 0 else "rets"
                    if which == "args" and not args: which = "rets"
                    if which == "rets" and (not rets or p["noresponse"]): which = "args"
                    vs, trees = (m["request"], args) if which == "args" else (m["response"], rets)
                    if not trees: continue
                    allsites = []
                    for ai, (v, t) in enumerate(zip(vs, trees)):
                        allsites.append(("replace:" + _kind(v["type"]["name"]), "replace", (), (ai, v["type"])))
                        for s in sites(gen, v["type"], t, (("arg", ai),), "top"):
                            allsites.append(s)
                    site = pick(allsites, mplan[k], turns, rng)
                    if site is None: continue
                    if site[1] == "replace":
                        ai, ty = site[3]
                        new = fresh(gen, ty, trees[ai], cfg, 0, which == "rets" and len(rets) == 1, rng)
                        if new is None: continue
                        step = ("replace", which, (ai, ty, new))
                        trees[ai] = new
                        rv = real.build_typed(ty, new)
                        if which == "args": rargs[ai] = rv
                        elif len(rets) > 1: setattr(hold["robj"], vs[ai]["name"], rv)
                        else: hold["robj"] = rv
                    else:
                        step0 = make_step(gen, site, ("list", trees), cfg, rng)
                        if step0 is None: continue
                        trees[:] = apply_tree(("list", trees), step0)[1]
                        if which == "args": root = rargs
                        elif len(rets) > 1: root = [getattr(hold["robj"], v["name"]) for v in vs]
                        else: root = [hold["robj"]]
                        apply_real(real, root, step0)
                        step = ("inplace", which, step0)
                    seq["steps"].append(step); seq["cats"].append(which + ":" + site[0])
                    call()
                seq["args"], seq["rets"] = list(args), list(rets)
                seqs.append(seq)

    res["avail"], res["seen"] = sorted(avail), sorted(seen)
    outs = T.driver_batch(exe, lines)
    res["lines"] = len(lines)
    for i in range(nsetup):
        if outs[i] != "ok":
            raise RuntimeError("driver rejected schema line %d: %r -> %r" % (i, lines[i][:200], outs[i]))

    kept = {"s": 0, "m": 0}
    def diff(grp, d):
        res["ndiffs"] = res.get("ndiffs", 0) + 1
        if kept[grp] < 12:
            kept[grp] += 1
            res["diffs"].append(d)

    for seq in seqs:
        res["cases"] += 1
        cfg = seq["cfg"]
        if seq["kind"] == "struct":
            models = outs[seq["i0"]:seq["i0"] + len(seq["writes"])]
            res["writes"] += len(models)
            bad = next((k for k, (r, mo) in enumerate(zip(seq["writes"], models)) if r != mo), None)
            changed = sum(1 for k in range(1, len(models)) if models[k] != models[k - 1])
            if bad is None and all(mo.startswith("ok ") for mo, wc in zip(models, seq["wcfg"]) if wc == cfg):
                want = SV.hx(b"".join(bytes.fromhex(mo[3:]) if mo[3:] != "-" else b"" for mo, wc in zip(models, seq["wcfg"]) if wc == cfg))
                if seq["acc"] != want:
                    bad = "acc"
            if bad is None:
                for c, k in zip(seq["cats"], range(1, len(models))):
                    tag("inplace:struct:%s:%s" % (c, "bytes-changed" if models[k] != models[k - 1] else "bytes-same"))
                if changed: res["keys"].append(seq["key"])
                if changed and len(res["samples"]) < 1 and len(models[-1]) < 200:
                    res["samples"].append({"module": name, "struct": seq["struct"], "cfg": list(cfg), "history": [step_text(s) for s in seq["steps"]], "last_write": models[-1][:160]})
                continue
            # ---- a write differs from the interpreter on the current values
            tree = seq["tree0"]; trees = [tree]
            for s in seq["steps"]:
                tree = apply_tree(tree, s); trees.append(tree)
            d = {"module": name, "struct": seq["struct"], "cfg": list(cfg), "family": "inplace", "key": seq["key"],
                 "initial_value": SV.to_val(seq["tree0"])[:6000], "history": ["write #0"] + [x for k, s in enumerate(seq["steps"]) for x in (step_text(s), "write #%d" % (k + 1))],
                 "writes_real": [w[:3000] for w in seq["writes"]], "writes_definition": [mo[:3000] for mo in models], "settings_of_each_write": [list(c) for c in seq["wcfg"]],
                 "replay_trees": {"tree0": repr(seq["tree0"]), "steps": repr(seq["steps"])}}
            if bad == "acc":
                d["what"] = "the same %s object written %d times into ONE stream (mutated in place in between): the stream is not the concatenation of the interpreter's encodings of the values at each write" % (seq["struct"], len(models))
                d["stream_real"] = seq["acc"][:6000]
                d["bad_write"] = "accumulating stream"
            else:
                d["bad_write"] = bad
                d["current_value"] = SV.to_val(trees[bad])[:6000]
                stale = [j for j in range(bad) if models[j] == seq["writes"][bad]]
                if bad == 0:
                    d["what"] = "bytes of generated %s.save differ from the interpreter of the definition (first write of the object)" % seq["struct"]
                else:
                    same = seq["wcfg"][bad] == cfg and not any(s[0] == "settings" for s in seq["steps"][:bad])
                    d["what"] = "%s object written, mutated in place (%s), written again %s: write #%d is not the interpreter's encoding of the current values%s" % (
                        seq["struct"], "; ".join(step_text(s) for s in seq["steps"][:bad] if s[0] != "settings")[:400],
                        "under the same settings" if same else "(settings of each write: %r)" % ([tuple(c) for c in seq["wcfg"][:bad + 1]],), bad,
                        " — it is the encoding of the values at write #%d (stale)" % stale[-1] if stale else "")
                    d["mutation_category"] = seq["cats"][bad - 1]
                    tag("inplace:DIFF:" + seq["cats"][bad - 1])
            diff("s", d)
        else:
            m = seq["method"]
            ncalls = len(seq["calls"])
            res["writes"] += ncalls
            # re-play the trees to know the values at each call
            args, rets = list(seq["args0"]), list(seq["rets0"])
            states = [(list(args), list(rets))]
            for s in seq["steps"]:
                vs = args if s[1] == "args" else rets
                if s[0] == "replace": vs[s[2][0]] = s[2][2]
                else: vs[:] = apply_tree(("list", vs), s[2])[1]
                states.append((list(args), list(rets)))
            bad, why = None, None
            for k, (flow, n, head, body, resp) in enumerate(seq["calls"]):
                mreq, msresp = outs[seq["i0"] + 2 * k], outs[seq["i0"] + 2 * k + 1]
                if flow != "ok":
                    if mreq.startswith("ok") and msresp.startswith("ok"):
                        bad, why = k, "real client/server flow failed (%s) where the interpreter succeeds" % flow
                        break
                    continue
                if n != 1:
                    bad, why = k, "the generated client sent %d requests for one call" % n; break
                realreq = "ok %d %d %s" % (head[0], head[1], SV.hx(body))
                if realreq != mreq:
                    bad, why = k, "request body of the generated client is not the interpreter's encoding of the current arguments"
                    seq["_real"], seq["_model"] = realreq, mreq
                    seq["_stale"] = [j for j in range(k) if outs[seq["i0"] + 2 * j] == realreq]
                    break
                if not seq["noresponse"]:
                    realresp = "ok " + SV.hx(resp)
                    if realresp != msresp:
                        bad, why = k, "response body of the generated server is not the interpreter's encoding of the current results"
                        seq["_real"], seq["_model"] = realresp, msresp
                        seq["_stale"] = [j for j in range(k) if outs[seq["i0"] + 2 * j + 1] == realresp]
                        break
            if bad is None:
                ch = 0
                for k in range(1, ncalls):
                    same = outs[seq["i0"] + 2 * k] == outs[seq["i0"] + 2 * k - 2] and outs[seq["i0"] + 2 * k + 1] == outs[seq["i0"] + 2 * k - 1]
                    ch += 0 if same else 1
                    if k - 1 < len(seq["cats"]):
                        tag("inplace:method:%s:%s" % (seq["cats"][k - 1], "bytes-same" if same else "bytes-changed"))
                if ch: res["keys"].append(seq["key"])
                continue
            d = {"module": name, "protocol": seq["proto"], "method": m["name"], "method_id": m["id"], "cfg": list(cfg), "family": "inplace", "key": seq["key"],
                 "initial_args": SV.vals(seq["args0"])[:4000], "initial_returns": SV.vals(seq["rets0"])[:4000],
                 "history": ["call #0"] + [x for k, s in enumerate(seq["steps"]) for x in ("%s: %s" % (s[1], step_text(s[2]) if s[0] == "inplace" else "value[%d] replaced by %s" % (s[2][0], SV.to_val(s[2][2])[:120])), "call #%d" % (k + 1))],
                 "bad_call": bad, "current_args": SV.vals(states[bad][0])[:4000], "current_returns": SV.vals(states[bad][1])[:4000],
                 "real": (seq.get("_real") or "")[:4000], "definition": (seq.get("_model") or "")[:4000],
                 "replay_trees": {"args0": repr(seq["args0"]), "rets0": repr(seq["rets0"]), "steps": repr(seq["steps"])}}
            stale = seq.get("_stale") or []
            d["what"] = "%s.%s called %d times on one generated client with the same argument / result objects (mutated in place in between): call #%d: %s%s" % (
                seq["proto"], m["name"], bad + 1, bad, why, " — they are the bytes of call #%d (stale)" % stale[-1] if stale else "")
            if bad > 0 and bad - 1 < len(seq["cats"]): tag("inplace:DIFF:" + seq["cats"][bad - 1])
            diff("m", d)


# ---------------------------------------------------------------------------------------------
# replay of a reported history on the real code

def replay_file(path):
    import json
    r = json.load(open(path))
    repo = os.environ.get("NX_REPO", "/repo")
    mod, env, common, streams, rmc, nexsettings, notification = load(repo, r["module"])
    gen = SV.Gen(env, random.Random(0)); real = SV.Real(gen, mod, common, notification)
    cfg = tuple(r["cfg"]); st = mk_settings(nexsettings, cfg)
    rt = r["replay_trees"]
    steps = ast.literal_eval(rt["steps"])
    if "struct" in r:
        tree = ast.literal_eval(rt["tree0"])
        obj = real.build(tree)
        print("write #0:", write(streams, st, obj, None))
        cur = st
        for k, s in enumerate(steps):
            apply_real(real, obj, s)
            if s[0] == "settings": cur = st if tuple(s[2][0]) == cfg else mk_settings(nexsettings, tuple(s[2][0]))
            print(step_text(s))
            print("write #%d:" % (k + 1), write(streams, cur, obj, None))
        print("definition:", *r["writes_definition"], sep="\n  ")
    else:
        print("method histories: build the arguments from 'initial_args', apply 'history' and compare with 'definition'; bad call:", r["bad_call"])
        print("real      :", r["real"]); print("definition:", r["definition"])


if __name__ == "__main__":
    replay_file(sys.argv[1])
