"""Deterministic virtual-time simulation of the network around the *public* PRUDP/RMC classes.

No source hooks: clocks, randomness and socket factories are substituted from outside.

    with Sim(seed) as sim:                       # installs virtual loop + patches
        net = sim.net                            # simulated datagram network
        sim.run(main())                          # run a coroutine to completion in virtual time

Datagram endpoints:
    srv_sock = net.bind(("10.0.0.1", 60000))             -> FakeUDPSocket  (send(data, addr), recv() -> (data, addr))
    cli_sock = net.connect(("10.0.0.2", 50000), ("10.0.0.1", 60000)) -> FakeUDPClient (send(data), recv())
Each transmission is given a *fate* by net.fate(tx) -> list of delays (seconds, [] = drop, two entries = duplicate).
Everything sent/delivered is recorded in net.log (tuples) for trace correspondence.

Stream endpoints (PRUDP lite over TCP/WebSocket): net.stream_pair(addr_a, addr_b) -> (FakeStream, FakeStream);
chunking of the byte stream is decided by net.chunker(data) -> list of chunks.

Factories: sim.install_factories() replaces prudp.connect_transport_socket / prudp.udp.bind /
prudp.serve_transport_socket so that prudp.connect/serve, rmc.connect/serve, backend.connect work unchanged.
"""
import os
import math
import asyncio, contextlib, heapq, random, types

import anyio
import anyio.lowlevel
from anynet import scheduler as anynet_scheduler, util as anynet_util
from nintendo.nex import prudp, common, kerberos


class VLoop(asyncio.SelectorEventLoop):
    """asyncio loop whose clock jumps to the next timer when nothing is ready."""

    def __init__(self):
        super().__init__()
        self._vtime = 0.0
        self.idle_hook = None     # called when the loop is about to block with no timers (deadlock detection)
        self.turns = 0
        self.max_turns = None     # bound on loop iterations: a session that never ends (a waiter nobody will wake while keep-alive
                                  # timers go on for ever) raises SimTimeout instead of spinning; deterministic, not wall-clock

    def time(self):
        return self._vtime

    def _run_once(self):
        self.turns += 1
        if self.max_turns is not None and self.turns > self.max_turns:
            raise SimTimeout("the simulated session did not end within %d loop turns (virtual time %.3f s)" % (self.max_turns, self._vtime))
        sched = self._scheduled
        while sched and sched[0]._cancelled:
            h = heapq.heappop(sched)
            h._scheduled = False
            self._timer_cancelled_count = max(0, self._timer_cancelled_count - 1)
        if not self._ready and sched:
            when = sched[0]._when
            if when > self._vtime:
                self._vtime = when
            # asyncio fires the timers with `when < time() + _clock_resolution` (1 ns): beyond 2^24 virtual seconds (194 days) the
            # nanosecond is lost in rounding, the due timer never fires and the loop spins for ever - keep the resolution above one ulp
            # (changes nothing below 2^24 s; found 2026-09-30: C11 thorough, sessions with two requests that run into the 10^7 s budget)
            ulp = math.ulp(self._vtime)
            if ulp >= 1e-9:
                self._clock_resolution = 2 * ulp
        elif not self._ready and not sched:
            if self.idle_hook is not None:
                self.idle_hook()
            else:
                raise Deadlock("virtual loop has nothing left to run")
        super()._run_once()


class Deadlock(Exception):
    pass


class SimTimeout(Exception):
    pass


def quant(x):
    """round a duration to a multiple of 2^-20 s"""
    return round(x * 1048576.0) / 1048576.0


def ticks(t):
    """virtual time in ticks of 2^-30 s (exact for the dyadic instants the simulation produces)"""
    v = t * 1073741824.0
    assert v == int(v), "non-dyadic instant %r" % t
    return int(v)


class Tx:
    __slots__ = ("n", "t", "src", "dst", "data", "g")

    def __init__(self, n, t, src, dst, data, g=0):
        self.n, self.t, self.src, self.dst, self.data = n, t, src, dst, data
        self.g = g        # index among the genuine transmissions (injected datagrams do not count)


class Net:
    def __init__(self, loop, rng):
        self.loop = loop
        self.rng = rng
        self.endpoints = {}      # addr -> endpoint with _deliver(data, src)
        self.log = []            # ("tx", n, t, src, dst, data, delays) / ("rx", n, t, src, dst, data)
        self.ntx = 0
        self.ngen = 0
        self.ninj = 0
        self.fate = lambda tx: [0.0]      # default: immediate delivery (still through the loop)
        self.chunker = lambda data: [data]
        self.on_rx = None
        self.on_tx = None         # called with every genuine transmission (scenarios use it to craft injections)

    # --- datagrams -------------------------------------------------------
    def bind(self, addr):
        s = FakeUDPSocket(self, addr)
        self.endpoints[addr] = s
        return s

    def connect(self, local, remote):
        s = FakeUDPClient(self, local, remote)
        self.endpoints[local] = s
        return s

    def transmit(self, src, dst, data):
        self.ntx += 1
        self.ngen += 1
        tx = Tx(self.ntx, self.loop.time(), src, dst, bytes(data), self.ngen)
        delays = list(self.fate(tx))
        self.log.append(("tx", tx.n, tx.t, src, dst, tx.data, tuple(delays)))
        if self.on_tx:
            self.on_tx(tx)
        for d in delays:
            # delays are quantised to 2^-20 s and given a strictly increasing offset of 2^-30 s units: all instants stay
            # dyadic (float arithmetic exact, the Lean model uses integer ticks of 2^-30 s), equal delays keep FIFO order
            # (heapq is not stable) and distinct transmissions never arrive at the same instant
            self.loop.call_later(quant(max(0.0, d)) + (self.ngen % 524288) * 2.0 ** -29, self._arrive, tx)

    def inject(self, src, dst, data, delay=0.0):
        """third-party / forged datagram (not produced by an endpoint)"""
        self.ntx += 1
        tx = Tx(self.ntx, self.loop.time(), src, dst, bytes(data))
        self.log.append(("inject", tx.n, tx.t, src, dst, tx.data, (delay,)))
        # injected datagrams use the odd tick offsets, genuine ones the even: injections never shift genuine instants
        self.ninj += 1
        self.loop.call_later(quant(delay) + ((2 * self.ninj + 1) % 1048576) * 2.0 ** -30, self._arrive, tx)
        return tx.n

    def _arrive(self, tx):
        ep = self.endpoints.get(tx.dst)
        self.log.append(("rx", tx.n, self.loop.time(), tx.src, tx.dst, tx.data, ep is not None and not ep.closed))
        if self.on_rx:
            self.on_rx(tx)
        if ep is not None and not ep.closed:
            ep._deliver(tx.data, tx.src)

    # --- streams -----------------------------------------------------------
    def stream_pair(self, addr_a, addr_b):
        a = FakeStream(self, addr_a, addr_b)
        b = FakeStream(self, addr_b, addr_a)
        a.peer, b.peer = b, a
        self.log.append(("sopen", self.loop.time(), addr_a, addr_b))      # (L1 stream replay, harness/l1_stream.py)
        return a, b


class _Inbox:
    def __init__(self):
        self.q = []
        self.ev = None
        self.closed = False

    def put(self, item):
        self.q.append(item)
        if self.ev is not None:
            self.ev.set()

    async def get(self):
        while not self.q:
            if self.closed:
                raise anyio.ClosedResourceError
            self.ev = anyio.Event()
            await self.ev.wait()
            self.ev = None
        return self.q.pop(0)


class FakeUDPSocket:
    """stands in for anynet.udp.UDPSocket (server side)"""

    def __init__(self, net, addr):
        self.net, self.addr = net, addr
        self.inbox = _Inbox()
        self.closed = False
        self.yield_on_send = False

    async def send(self, data, addr):
        await anyio.lowlevel.checkpoint_if_cancelled()      # a real socket's send is a cancellation point
        if self.yield_on_send:
            await anyio.sleep(0)
        self.net.transmit(self.addr, addr, data)

    async def recv(self):
        await anyio.sleep(0)      # a real socket read always passes through the event loop once
        return await self.inbox.get()

    def _deliver(self, data, src):
        self.inbox.put((data, src))

    async def close(self):
        self.closed = True

    def local_address(self):
        return self.addr


class FakeUDPClient:
    """stands in for anynet.udp.UDPClient (connected socket)"""

    def __init__(self, net, local, remote):
        self.net, self.local, self.remote = net, local, remote
        self.inbox = _Inbox()
        self.closed = False
        self.yield_on_send = False     # True: one checkpoint like a real socket's lock (interleaving experiments)
        self.send_delay = 0            # > 0: the socket blocks this long in send (a congested socket)

    async def send(self, data):
        await anyio.lowlevel.checkpoint_if_cancelled()      # a real socket's send is a cancellation point
        if self.send_delay:
            await anyio.sleep(self.send_delay)
        if self.yield_on_send:
            await anyio.sleep(0)
        self.net.transmit(self.local, self.remote, data)

    async def recv(self):
        await anyio.sleep(0)
        return await self.inbox.get()

    def _deliver(self, data, src):
        if src == self.remote:
            self.inbox.put(data)

    async def close(self):
        self.closed = True

    def local_address(self):
        return self.local

    def remote_address(self):
        return self.remote


class FakeStream:
    """one direction-pair of a reliable byte stream (TLS / WebSocket client object as used by prudp)"""

    def __init__(self, net, local, remote):
        self.net, self.local, self.remote = net, local, remote
        self.inbox = _Inbox()
        self.peer = None
        self.closed = False

    async def send(self, data):
        await anyio.lowlevel.checkpoint_if_cancelled()      # a real socket's send is a cancellation point
        if self.closed or self.peer.closed:
            self.net.log.append(("swfail", self.net.loop.time(), self.local, self.remote, bytes(data)))
            raise anyio.ClosedResourceError
        # one entry per write() call, whatever the chunker / the fate does with it (L1 stream replay)
        self.net.log.append(("swrite", self.net.loop.time(), self.local, self.remote, bytes(data)))
        if getattr(self.peer, "never_reads", False):
            # back-pressure: the peer does not read; once its (finite) receive window is full the write blocks for good
            self.peer.unread = getattr(self.peer, "unread", 0) + len(data)
            if self.peer.unread > getattr(self.peer, "window", 256):
                await anyio.sleep(1e9)
        for chunk in self.net.chunker(bytes(data)):
            self.net.sgen = getattr(self.net, "sgen", 0) + 1
            fate = getattr(self.net, "stream_fate", None)
            verdict = fate(self.local, self.remote, self.net.sgen, chunk) if fate else "deliver"
            if verdict == "break":
                # the underlying connection breaks at this write (reset): both ends see it
                self.net.log.append(("sbreak", self.net.loop.time(), self.local, self.remote, chunk))
                await self.close()
                raise anyio.BrokenResourceError
            if verdict == "drop":
                # a black hole: the write succeeds, nothing ever arrives (a frozen peer, a dead link before TCP gives up)
                self.net.log.append(("sdrop", self.net.loop.time(), self.local, self.remote, chunk))
                continue
            self.net.log.append(("stx", self.net.loop.time(), self.local, self.remote, chunk))
            self.net.loop.call_soon(self.peer.inbox.put, chunk)

    async def recv(self):
        await anyio.sleep(0)
        try:
            data = await self.inbox.get()
        except anyio.ClosedResourceError:
            self.net.log.append(("sgone", self.net.loop.time(), self.local, self.remote))      # the reader learns that the stream is gone
            raise anyio.ClosedResourceError
        self.net.log.append(("sread", self.net.loop.time(), self.local, self.remote, data))      # one entry per chunk read
        return data

    async def close(self):
        if not self.closed:
            self.net.log.append(("sclose", self.net.loop.time(), self.local, self.remote))      # from now on every write of either end raises
        self.closed = True
        self.inbox.closed = True
        if self.inbox.ev: self.inbox.ev.set()
        if self.peer:
            self.peer.inbox.closed = True
            if self.peer.inbox.ev: self.peer.inbox.ev.set()

    def local_address(self):
        return self.local

    def remote_address(self):
        return self.remote


class _Clock:
    def __init__(self, loop, epoch):
        self.loop, self.epoch = loop, epoch

    def monotonic(self):
        return self.loop.time()

    def time(self):
        return self.epoch + self.loop.time()

    def __getattr__(self, name):
        import time as _t
        return getattr(_t, name)


class _Rand:
    def __init__(self, rng):
        self.rng = rng
        self.log = []          # every value handed to the library (replayed into the Lean model as creation parameters)

    force = None           # {upper bound: value}: boundary values of the library's own random draws (e.g. the connection check)

    def randint(self, a, b):
        v = self.rng.randint(a, b)
        if self.force and b in self.force:
            v = self.force[b]
        self.log.append((a, b, v))
        return v

    def __getattr__(self, name):
        return getattr(self.rng, name)


class _Secrets:
    def __init__(self, rng):
        self.rng = rng

    def token_bytes(self, n):
        return self.rng.randbytes(n)


class Sim:
    def __init__(self, seed=0, epoch=1_700_000_000.0):
        self.seed = seed
        self.rng = random.Random(seed)
        self.epoch = epoch
        self._saved = []

    def __enter__(self):
        self.loop = VLoop()
        asyncio.set_event_loop(self.loop)
        self.net = Net(self.loop, random.Random(self.rng.random()))
        clock = _Clock(self.loop, self.epoch)
        self._patch(anynet_scheduler, "time", clock)
        self._patch(prudp, "time", clock)
        self._patch(common, "time", clock)
        self.prudp_rand = _Rand(random.Random(self.rng.random()))
        self._patch(prudp, "random", self.prudp_rand)
        self._patch(kerberos, "secrets", _Secrets(random.Random(self.rng.random())))
        self.clock = clock
        return self

    def __exit__(self, *a):
        if os.environ.get("NX_TURNS_LOG"):
            with open(os.environ["NX_TURNS_LOG"], "a") as f: f.write("%d %.1f\n" % (self.loop.turns, self.loop._vtime))
        for mod, name, old in reversed(self._saved):
            setattr(mod, name, old)
        self._saved = []
        try:
            self.loop.close()
        finally:
            asyncio.set_event_loop(None)

    def _patch(self, mod, name, new):
        self._saved.append((mod, name, getattr(mod, name)))
        setattr(mod, name, new)

    def now(self):
        return self.loop.time()

    def run(self, coro):
        return self.loop.run_until_complete(coro)

    # ---- socket factories ---------------------------------------------
    def install_factories(self, client_addr=("10.0.0.2", 50000), server_host="10.0.0.1", fixed_client_addr=False):
        """prudp.connect / prudp.serve / rmc.* / backend.* run over the simulated net."""
        sim = self
        counter = [0]

        @contextlib.asynccontextmanager
        async def connect_transport_socket(settings, host, port, context):
            counter[0] = 1 if fixed_client_addr else counter[0] + 1
            local = (client_addr[0], client_addr[1] + counter[0])
            if settings["prudp.transport"] == settings.TRANSPORT_UDP:
                sock = sim.net.connect(local, (host, port))
                try:
                    yield sock
                finally:
                    await sock.close()
            else:
                listener = sim.stream_listeners.get((host, port))
                if listener is None:
                    raise ConnectionRefusedError((host, port))
                a, b = sim.net.stream_pair(local, (host, port))
                listener(b)
                try:
                    yield a
                finally:
                    await a.close()

        @contextlib.asynccontextmanager
        async def udp_bind(host="", port=0, **kw):
            sock = sim.net.bind((host or server_host, port))
            try:
                yield sock
            finally:
                await sock.close()

        @contextlib.asynccontextmanager
        async def serve_transport_socket(handler, settings, host, port, context):
            async with anynet_util.create_task_group() as group:
                def listener(stream):
                    group.start_soon(handler, stream)
                sim.stream_listeners[(host or server_host, port)] = listener
                try:
                    yield
                finally:
                    sim.stream_listeners.pop((host or server_host, port), None)
                    group.cancel_scope.cancel()

        self.stream_listeners = {}
        self._patch(prudp, "connect_transport_socket", connect_transport_socket)
        fake_udp = types.SimpleNamespace(bind=udp_bind, connect=None)
        self._patch(prudp, "udp", fake_udp)
        self._patch(prudp, "serve_transport_socket", serve_transport_socket)


# ---- fates ---------------------------------------------------------------

def lossy_fate(rng, drop=0.1, dup=0.05, delay=0.1, max_delay=0.3, base=0.01):
    """fate function: each transmission independently dropped / duplicated / delayed (=> reordered)"""
    def fate(tx):
        r = rng.random()
        if r < drop:
            return []
        d = base
        if rng.random() < delay:
            d += rng.random() * max_delay
        if rng.random() < dup:
            return [d, base + rng.random() * max_delay]
        return [d]
    return fate
