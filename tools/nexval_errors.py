"""Translator: nintendo/nex/errors.py  ->  Lean data + obligations (C15 `error_table_bijective`).

Reads the *source* with `ast` (in the imported dict duplicate keys have already collapsed).
Returns the entries in source order and a description of how `error_codes` is defined."""
import ast


class TranslatorError(Exception):
    pass


def _const_int(node):
    if isinstance(node, ast.Constant) and isinstance(node.value, int) and not isinstance(node.value, bool):
        return node.value
    if isinstance(node, ast.UnaryOp) and isinstance(node.op, ast.USub):
        v = _const_int(node.operand)
        return None if v is None else -v
    return None


def extract(path):
    """-> (entries [(code, name, lineno)], codes_kind, codes_entries or None)"""
    src = open(path, encoding="utf8").read()
    tree = ast.parse(src)
    names_node = codes_node = None
    for node in tree.body:
        if isinstance(node, ast.Assign) and len(node.targets) == 1 and isinstance(node.targets[0], ast.Name):
            if node.targets[0].id == "error_names": names_node = node.value
            if node.targets[0].id == "error_codes": codes_node = node.value
        elif isinstance(node, (ast.Import, ast.ImportFrom, ast.Expr)):
            continue
        elif isinstance(node, ast.Assign):
            continue
        else:
            raise TranslatorError("errors.py: unexpected top-level statement at line %d (%s): the tables may be modified after definition"
                                  % (node.lineno, type(node).__name__))
    if not isinstance(names_node, ast.Dict):
        raise TranslatorError("errors.py: error_names is not a dict literal")
    entries = []
    for k, v in zip(names_node.keys, names_node.values):
        if k is None:
            raise TranslatorError("errors.py: dict unpacking inside error_names")
        c = _const_int(k)
        if c is None or c < 0 or not (isinstance(v, ast.Constant) and isinstance(v.value, str)):
            raise TranslatorError("errors.py: entry at line %d is not <non-negative int literal>: <str literal>" % k.lineno)
        entries.append((c, v.value, k.lineno))
    # error_codes = {name: code for code, name in error_names.items()}
    kind, centries = "unknown", None
    n = codes_node
    if isinstance(n, ast.DictComp) and len(n.generators) == 1:
        g = n.generators[0]
        tgt = g.target
        ok = (isinstance(tgt, ast.Tuple) and len(tgt.elts) == 2 and all(isinstance(e, ast.Name) for e in tgt.elts)
              and not g.ifs and not g.is_async
              and isinstance(g.iter, ast.Call) and not g.iter.args and not g.iter.keywords
              and isinstance(g.iter.func, ast.Attribute) and g.iter.func.attr == "items"
              and isinstance(g.iter.func.value, ast.Name) and g.iter.func.value.id == "error_names"
              and isinstance(n.key, ast.Name) and isinstance(n.value, ast.Name))
        if ok and n.key.id == tgt.elts[1].id and n.value.id == tgt.elts[0].id and tgt.elts[0].id != tgt.elts[1].id:
            kind = "inverse-comprehension"
    elif isinstance(n, ast.Dict):
        centries = []
        for k, v in zip(n.keys, n.values):
            c = _const_int(v) if v is not None else None
            if k is None or c is None or not (isinstance(k, ast.Constant) and isinstance(k.value, str)):
                raise TranslatorError("errors.py: error_codes entry at line %d is not <str literal>: <int literal>" % (k.lineno if k else 0))
            centries.append((k.value, c, k.lineno))
        kind = "literal"
    if kind == "unknown":
        raise TranslatorError("errors.py: error_codes is neither the inverse comprehension over error_names.items() nor a dict literal")
    return entries, kind, centries


NAME_BASE = 0x110001


def name_key(s):
    """injective positional code of a name: sum (cp_i + 1) * B^i  (Lean: Nx.Nex.encodeName)"""
    n = 0
    for ch in reversed(s):
        n = n * NAME_BASE + ord(ch) + 1
    return n


def lean_source(entries, kind, centries):
    """Lean file with the table (Nat-coded) and its obligations; returns (source, obligation theorem names)."""
    fuel = max([len(nm) for _, nm, _ in entries] + [0]) + 1
    src = ["import NxProofs.NexErrors", "open Nx Nx.Nex", "namespace Nx.Gen.Errors",
           "/-- codes of the `error_names` literal, source order -/",
           "def codes : List Nat := [%s]" % ", ".join(str(c) for c, _, _ in entries),
           "/-- names of the `error_names` literal, source order, as `encodeName` keys -/",
           "def keys : List Nat := [%s]" % ", ".join(str(name_key(nm)) for _, nm, _ in entries),
           "def table : ErrTable := genTable %d codes keys" % fuel, ""]
    obl = []
    def ob(name, stmt):
        obl.append(name)
        src.append("theorem %s : %s := by decide +kernel" % (name, stmt))
    ob("lengths_agree", "Nat.beq codes.length keys.length = true")
    ob("codes_nodup", "(sortedN codes || nodupN codes) = true")
    ob("names_nodup", "nodupN keys = true")
    ob("keys_are_names", "eqN ((genNames %d keys).map encodeName) keys = true" % fuel)
    ob("codes_below_error_bit", "allBelowN errorMask codes = true")
    ob("reserved_names_unused", "(notInN (encodeName successName) keys && notInN (encodeName unknownName) keys) = true")
    if kind == "literal":
        src.append("def ckeys : List Nat := [%s]" % ", ".join(str(name_key(nm)) for nm, _, _ in centries))
        src.append("def ccodes : List Nat := [%s]" % ", ".join(str(c) for _, c, _ in centries))
        ob("codes_literal_is_inverse", "checkInverseN codes keys ckeys ccodes = true")
    src.append("/-- names ↔ codes are inverse bijections on the table, `Result.error(name).name() = name`, no reserved name -/")
    src.append("theorem error_table_bijective : TableBijective table :=\n  tableBijective_of_gen %d codes keys lengths_agree codes_nodup names_nodup keys_are_names codes_below_error_bit reserved_names_unused" % fuel)
    obl.append("error_table_bijective")
    src.append("end Nx.Gen.Errors")
    return "\n".join(src) + "\n", obl
