import NxModel.Crypto.Md5
import NxModel.Crypto.Sha256
import NxModel.Crypto.Cmac
import NxModel.Crypto.Rsa
import NxModel.Crypto.Base64
import NxModel.Crypto.Crc16
/-!
# Request authentication codes and small codecs — mirrors of
`switch/dauth.py` (`calculate_mac`), `switch/aauth.py` (`auth_digital` certificate envelope, `verify_ticket`),
`nex/hpp.py` (signatures, response validation), `nnas.py` (`calc_password_hash`), `nasc.py` (base64 variant,
forms), `switch/__init__.py` (`ProdInfo.check`, device id, TLS key unwrap).
-/
namespace Nx.Misc
open Nx Nx.Crypto

def hexDigits (n width : Nat) : Bytes :=
  (List.range width).map fun i => b8 (hexDigit (n / 16 ^ (width - 1 - i) % 16)).toNat

def hexLower (b : Bytes) : Bytes := b.flatMap fun x => [b8 (hexDigit (x.toNat / 16)).toNat, b8 (hexDigit (x.toNat % 16)).toNat]
def upperAscii (c : UInt8) : UInt8 := if 97 ≤ c.toNat ∧ c.toNat ≤ 122 then b8 (c.toNat - 32) else c
def hexUpper (b : Bytes) : Bytes := (hexLower b).map upperAscii

def ascii (s : String) : Bytes := s.toUTF8.toList

/-! ## dauth -/

def dauthSource : Bytes :=
  [0x8b,0xe4,0x5a,0xbc,0xf9,0x87,0x02,0x15,0x23,0xca,0x4f,0x5e,0x23,0x00,0xdb,0xf0]

/-- `"master_key_%02x" % (key_generation - 1)` for `key_generation ≥ 1` -/
def masterKeyName (keygen : Nat) : Bytes :=
  let v := keygen - 1
  ascii "master_key_" ++ (if v < 256 then hexDigits v 2 else hexDigits v (Nat.log2 v / 4 + 1))

/-- `DAuthClient.calculate_mac(form, data)`: three ECB decryptions down the key ladder, CMAC over the
    UTF-8 form string, url-safe base64 without padding -/
def dauthMac (kekSource masterKey data form : Bytes) : Except Err Bytes := do
  let k1 ← aesEcbDecrypt masterKey kekSource
  let k2 ← aesEcbDecrypt k1 dauthSource
  let k3 ← aesEcbDecrypt k2 data
  let mac ← aesCmac k3 form
  pure (b64urlEncodeNoPad mac)

/-- `http.formencode(fields, False)`: `k=v` joined with `&`, nothing escaped -/
def formRaw : List (Bytes × Bytes) → Bytes
  | [] => []
  | [(k, v)] => k ++ [61] ++ v
  | (k, v) :: r => k ++ [61] ++ v ++ [38] ++ formRaw r

def decimal (n : Nat) : Bytes := ascii (toString n)

/-- the string `device_token` / `edge_token` sign: challenge, client id (`%016x`), ist, key generation, system
    version digest (+ vendor id for edge tokens with api version 7) -/
def dauthForm (challenge : Bytes) (clientId : Nat) (ist : Bool) (keygen : Nat) (digest : Bytes)
    (vendor : Option Bytes) : Bytes :=
  formRaw ([(ascii "challenge", challenge),
            (ascii "client_id", if clientId < 16 ^ 16 then hexDigits clientId 16 else hexDigits clientId (Nat.log2 clientId / 4 + 1)),
            (ascii "ist", ascii (if ist then "true" else "false")),
            (ascii "key_generation", decimal keygen),
            (ascii "system_version", digest)] ++
           match vendor with | some v => [(ascii "vendor_id", v)] | none => [])

/-- the `mac` field of a token request: challenge data is url-safe base64, re-padded and leniently decoded -/
def dauthTokenMac (kekSource masterKey : Bytes) (dataText : List Nat) (form : Bytes) : Except Err Bytes := do
  let t ← asciiOf dataText
  let data ← b64urlDecodeRepad t
  dauthMac kekSource masterKey data form

/-! ## aauth -/

def rsaModulus : Nat :=
  29035992201855096299482460046812718066621852011096836994348762849306378942456577312580648895443616535088601867223713942187399041485487277203442586338747171937547368410485350776845020398274929489679458317389206995127329190462230594029550820987390339204916496879108565068863591362496844602988110766097564477545097467537357318374996435660801207140575594087198900702173107472872347075928581552785924864629224487532561660713811577864368640322358092433182591089355065715995209202752330511548478896205428626608544326862478250567972711131275690463782843878547447137512047899190797982098870089661523253199182993983393803812441

def rsaExponent : Nat := 65537

def rdBE (b : Bytes) (off len : Nat) : Nat := natFromBytesBE ((b.drop off).take len)
def rdLE (b : Bytes) (off len : Nat) : Nat := natFromBytesBE ((b.drop off).take len).reverse

/-- `AAuthClient.verify_ticket(ticket, title_id)`: every failure is a ValueError -/
def verifyTicket (ticket : Bytes) (titleId : Nat) : Except Err Unit :=
  if ticket.length ≠ 0x2C0 then .error .value
  else if rdLE ticket 0 4 ≠ 0x10004 then .error .value
  else if rdBE ticket 0x2A0 8 ≠ titleId then .error .value
  else if rdBE ticket 0x2A8 8 ≠ rdBE ticket 0x285 1 then .error .value
  else .ok ()

/-- `auth_digital` (api version 3): `cert` and `cert_key` form fields for the 16 random key bytes `plainKey`
    and the 32 random OAEP seed bytes `seed` -/
def aauthEnvelope (n e : Nat) (ticket : Bytes) (titleId : Nat) (plainKey seed : Bytes) : Except Err (Bytes × Bytes) := do
  verifyTicket ticket titleId
  let enc ← aesCbcEncrypt plainKey (List.replicate 16 0) (pkcs7Pad ticket)
  let ek ← oaepEncrypt n e seed plainKey
  pure (b64urlEncodeNoPad enc, b64urlEncodeNoPad ek)

/-! ## hpp -/

def md5Iter : Nat → Bytes → Bytes
  | 0, k => k
  | n + 1, k => md5Iter n (md5 k)

/-- `KeyDerivationOld(base, pidCount).derive_key(password, pid)` -/
def deriveOld (base pidCount : Nat) (password : Bytes) (pid : Nat) : Bytes :=
  md5Iter (base + pid % pidCount) password

/-- `KeyDerivationNew(base, pidCount).derive_key(password, pid)`; `struct.pack("<Q")` range -/
def deriveNew (base pidCount : Nat) (password : Bytes) (pid : Nat) : Except Err Bytes :=
  if pid < 2 ^ 64 then .ok (md5Iter pidCount (md5Iter base password ++ u64le pid)) else .error .struct

/-- `bytes.ljust(8, b"\0")` -/
def ljust8 (b : Bytes) : Bytes := b ++ List.replicate (8 - b.length) 0

/-- `signature1`, `signature2` headers of an Hpp request over the encoded RMC message `data` -/
def hppSignatures (accessKey : Bytes) (password : Bytes) (pid : Nat) (data : Bytes) : Bytes × Bytes :=
  let key1 := ljust8 accessKey
  let key2 := deriveOld 65000 1024 password pid
  (hexUpper (hmacMd5 key1 data), hexUpper (hmacMd5 key2 data))

inductive HppOut where
  | body (b : Bytes)
  | rmcError (code : Nat)
  | err (e : Err)
  deriving DecidableEq, Repr

/-- what `HppClient.request` does with a 2xx response body -/
def hppValidate (callId method : Nat) (resp : Bytes) : HppOut :=
  match rdU32 resp with
  | .error e => .err e
  | .ok (size, s) =>
    if size ≠ s.length then .err .value else
    match rdU8 s with
    | .error e => .err e
    | .ok (okFlag, s) =>
      if okFlag = 0 then
        match rdU32 s with
        | .error e => .err e
        | .ok (code, s) =>
          match rdU32 s with
          | .error e => .err e
          | .ok (cid, s) =>
            if callId ≠ cid then .err .value
            else if !s.isEmpty then .err .value
            else .rmcError (code ||| 0x80000000)   -- `common.RMCError(error)` sets the error bit
      else
        match rdU32 s with
        | .error e => .err e
        | .ok (cid, s) =>
          if callId ≠ cid then .err .value else
          match rdU32 s with
          | .error e => .err e
          | .ok (mid, s) =>
            if mid ≠ (method ||| 0x8000) then .err .value else .body s

/-! ## nnas -/

/-- `calc_password_hash(pid, password)`: `struct.pack("<I")` range, ASCII-only password, SHA-256 hex -/
def nnasHash (pid : Nat) (password : List Nat) : Except Err Bytes :=
  if pid ≥ 2 ^ 32 then .error .struct
  else if !password.all (· < 128) then .error .unicode
  else .ok (hexLower (sha256 (u32le pid ++ [0x02, 0x65, 0x43, 0x46] ++ password.map b8)))

/-! ## nasc -/

def nascFwd (c : UInt8) : UInt8 := if c = 43 then 46 else if c = 47 then 45 else if c = 61 then 42 else c
def nascBack (c : UInt8) : UInt8 := if c = 46 then 43 else if c = 45 then 47 else if c = 42 then 61 else c

/-- `nasc.b64encode(data)` for bytes -/
def nascEncode (d : Bytes) : Bytes := (b2a d).map nascFwd

/-- `nasc.b64decode(text)` for ASCII text -/
def nascDecode (t : Bytes) : Except Err Bytes := a2b (t.map nascBack)

def nascDecodeStr (t : List Nat) : Except Err Bytes := do
  let a ← asciiOf t
  nascDecode a

def nascEncodeForm (f : List (Bytes × Bytes)) : List (Bytes × Bytes) := f.map fun (k, v) => (k, nascEncode v)

def nascDecodeForm : List (Bytes × Bytes) → Except Err (List (Bytes × Bytes))
  | [] => .ok []
  | (k, v) :: r =>
    match nascDecode v with
    | .error e => .error e
    | .ok d =>
      match nascDecodeForm r with
      | .error e => .error e
      | .ok r' => .ok ((k, d) :: r')

/-! ## prodinfo -/

/-- `ProdInfo.check(offset, size)`: `struct.unpack_from("<H", data, end)` needs two bytes at `end` -/
def prodCheck (data : Bytes) (offset size : Nat) : Except Err Unit :=
  if offset + size < 2 then .error .struct else   -- negative `end`: not reachable from the library's call sites
  let e := offset + size - 2
  if data.length < e + 2 then .error .struct
  else if prodCrc16 ((data.take e).drop offset) ≠ rdLE data e 2 then .error .value
  else .ok ()

/-- the independent statement of the same check -/
def prodCheckRef (data : Bytes) (offset size : Nat) : Except Err Unit :=
  if offset + size < 2 then .error .struct else
  let e := offset + size - 2
  if data.length < e + 2 then .error .struct
  else if refCrc16Arc 0x55AA ((data.take e).drop offset) ≠ rdLE data e 2 then .error .value
  else .ok ()

def hexValNat (c : UInt8) : Option Nat := hexVal (Char.ofNat c.toNat)

/-- `int(text, 16)` restricted to plain hex digits (what a device id is); anything else → ValueError -/
def parseHex (t : Bytes) : Except Err Nat :=
  if t.isEmpty then .error .value else
  t.foldl (fun acc c => match acc, hexValNat c with
    | .ok a, some v => .ok (a * 16 + v)
    | _, _ => .error .value) (.ok 0)

/-- `ProdInfo.get_device_id()` -/
def prodDeviceId (data : Bytes) : Except Err Nat := do
  prodCheck data 0x2A90 0x250
  parseHex ((data.take 0x2B66).drop 0x2B56)

/-- the private exponent `get_tls_key` recovers: checksum, then AES-CTR over 0x100 bytes with the 16-byte
    initial counter block stored in front of them -/
def prodTlsD (data kek : Bytes) : Except Err Nat := do
  prodCheck data 0x3AE0 0x140
  let initial := (data.take 0x3AF0).drop 0x3AE0
  let cipher := (data.take 0x3BF0).drop 0x3AF0
  let plain ← aesCtr kek initial cipher
  pure (natFromBytesBE plain)

/-- the checks of `get_tls_cert` before the DER parser runs: returns the certificate bytes -/
def prodTlsCert (data : Bytes) : Except Err Bytes := do
  prodCheck data 0xAD0 0x10
  if data.length < 0xAD4 then throw .struct
  let length := rdLE data 0xAD0 4
  if length > 0x800 then throw .value
  let cert := (data.take (0xAE0 + length)).drop 0xAE0
  if sha256 cert ≠ (data.take 0x1300).drop 0x12E0 then throw .value
  pure cert

end Nx.Misc
