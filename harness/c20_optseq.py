"""C20 — setter SEQUENCES on one client object in which an optional argument is given once and then omitted.

"Each client configuration setter observably changes the corresponding request field": a setter call describes a complete
configuration of its group — `set_device(id, serial, version)` means "this device, no certificate", whatever was configured before.
The other setter families of C20 always pass every argument; here every set_* of every HTTP client is discovered by inspection
(`inspect.signature`: required and optional parameters) and called in every SPELLING its signature allows:

    optional arguments given positionally up to the j-th (j = 0 .. k), every non-empty subset of them given by keyword, each of
    them passed explicitly as its default value (None / '' / ...), everything omitted

and on ONE object all pairs (spelling1(A), spelling2(B)) and triples (.., spelling3(C)) of calls with distinct argument tuples
A, B, C are made (all of them when there are few, the structured ones + a seeded sample otherwise), with and without a request in
between. Oracle: every public call of the client then produces exactly the request of a FRESH client on which only the last
call of the sequence was made (no stale header / form field from the earlier calls; nothing of the last call missing). Setters
without optional parameters go through the same engine (one spelling): the last call replaces the earlier one.

Clients: nnas.NNASClient (11 call shapes), nasc.NASCClient (2), hpp.HppClient (host), and the seven Switch clients through their
request callback (value setters; their call variants from switch_cases). For nnas / nasc the sequence is also replayed through the
Lean request model (driver ops `nnas` / `nasc`, setters folded in order with the defaults of the omitted arguments filled in), which
must produce the same bytes — theorems Nx.C20.nnas_setter_argument_persists / nnas_optional_headers_omitted_by_default are about
exactly this fold."""
import inspect, itertools, re
import anyio
from anynet import http
import switch_cases as sc
import api_boundary as ab

# three distinct full argument tuples per setter (optional parameters at non-default values)
VALUES = {
    "nnas": {
        "set_url": [("a.example",), ("b.example",), ("c.example",)],
        "set_client_id": [("ida",), ("idb",), ("idc",)],
        "set_client_secret": [("sa",), ("sb",), ("sc",)],
        "set_platform_id": [(0,), (1,), (3,)],
        "set_device_type": [(1,), (2,), (3,)],
        "set_device": [(1, "SER1", 0x260, "certA"), (2, "SER2", 0x270, "certB"), (3, "SER3", 0x280, "certC")],
        "set_locale": [(1, "NL", "en"), (2, "JP", "ja"), (4, "DE", "de")],
        "set_fpd_version": [(0,), (16,), (17,)],
        "set_environment": [("L1",), ("D1",), ("T1",)],
        "set_title": [(0x0005000010101000, 1), (0x0005000010102000, 2), (0x0005000010103000, 3)],
    },
    "nasc": {
        "set_url": [("a.example",), ("b.example",), ("c.example",)],
        "set_sdk_version": [(1, 2), (11, 4), (7, 9)],
        "set_title": [(0x0004000000030800, 1, "AAAA", "07", 1, "romA"), (0x0004000000030900, 2, "AMKE", "01", 2, "romB"), (0x0004000000030A00, 3, "CCCC", "09", 1, "romC")],
        "set_device": [("SER1", "aabbccddeeff", b"\x01\x02", "My 3DS", "1"), ("SER2", "001122334455", b"\x03", "Other é", "3"), ("SER3", "665544332211", b"\x04\x05", "Third", "4")],
        "set_network": [("aabbcc", "01:0000000000"), ("ddeeff", "02:1111111111"), ("001122", "03:2222222222")],
        "set_locale": [(3, 2), (1, 0), (2, 5)],
        "set_user": [(1234, "hmac1"), (5678, "hmac2"), (91011, "hmac3")],
        "set_password": [("pw1",), ("pw2",), ("pw3",)],
        "set_fpd_version": [(15,), (16,), (14,)],
        "set_environment": [("L1",), ("D1",), ("T1",)],
    },
    "hpp": {"set_environment": [("D1",), ("T1",), ("L1",)]},
}
SWITCH_VALUES = {
    "set_host": [("hosta.example",), ("hostb.example:8443",), ("hostc.example",)],
    "set_hosts": [("a.example", "b.example", "c.example"), ("d.example", "e.example", "f.example"), ("g.example", "h.example", "i.example")],
    "set_power_state": [("FA",), ("HA",), ("FA",)],
    "set_platform_region": [(1,), (2,), (1,)],
    "set_system_version": [(1700,), (1901,), (1800,)],
}
SKIP = ("set_context", "set_certificate", "set_request_callback")      # object identity: corr_C20.switch_setter_checks / legacy_checks


def signature_of(cls, setter):
    ps_ = [p for p in list(inspect.signature(getattr(cls, setter)).parameters.values())[1:] if p.kind in (p.POSITIONAL_OR_KEYWORD, p.KEYWORD_ONLY, p.POSITIONAL_ONLY)]
    req = [p for p in ps_ if p.default is inspect._empty]
    opt = [p for p in ps_ if p.default is not inspect._empty]
    return req, opt


def guess(p, k):
    """a non-default value for an optional parameter the tables do not know (a parameter added later): by the type of its default"""
    d = p.default
    if isinstance(d, bool): return not d
    if isinstance(d, int): return d + 1 + k
    if isinstance(d, bytes): return d + bytes([65 + k])
    return "%s%s%d" % (d or "", p.name[:3], k)


def spellings(req, opt, full):
    """[(label, args, kwargs, effective full tuple)] for one argument tuple"""
    nreq = len(req)
    r, o = tuple(full[:nreq]), tuple(full[nreq:])
    dflt = tuple(p.default for p in opt)
    out, seen = [], set()

    def add(label, args, kwargs, eff):
        key = (repr(args), repr(sorted(kwargs.items())))
        if key not in seen:
            seen.add(key); out.append((label, args, kwargs, eff))
    kwonly = [p.kind == p.KEYWORD_ONLY for p in opt]
    npos = kwonly.index(True) if True in kwonly else len(opt)
    for j in range(npos, -1, -1):
        add("first %d optional positionally" % j if j else "optionals omitted", r + o[:j], {}, r + o[:j] + dflt[j:])
    for n in range(1, len(opt) + 1):
        for sub in itertools.combinations(range(len(opt)), n):
            add("keywords " + ",".join(opt[i].name for i in sub), r, {opt[i].name: o[i] for i in sub}, r + tuple(o[i] if i in sub else dflt[i] for i in range(len(opt))))
    for i in range(len(opt)):
        add("%s=%r explicitly" % (opt[i].name, dflt[i]), r, dict({opt[t].name: o[t] for t in range(i)}, **{opt[i].name: dflt[i]}), r + o[:i] + dflt[i:])
        if i < npos:
            add("%s passed positionally as %r" % (opt[i].name, dflt[i]), r + o[:i] + (dflt[i],), {}, r + o[:i] + dflt[i:])
    return out


def show(setter, sp):
    _, args, kwargs, _ = sp
    return "%s(%s)" % (setter, ", ".join([("0x%X" % a if isinstance(a, int) and not isinstance(a, bool) and a > 9 else repr(a)) for a in args] + ["%s=%r" % kv for kv in kwargs.items()]))


def sequences(rng, F, quick):
    """index triples/pairs over the spellings of A, B, C; the LAST element is the one the oracle isolates"""
    n = len(F[0])
    pairs = [(i, j) for i in range(n) for j in range(n)]
    triples = [(i, j, k) for i in range(n) for j in range(n) for k in range(n)]
    lim = 150 if quick else 1500
    if len(triples) > lim:
        structured = [(0, n - 1, n - 1), (0, n - 1, 0), (n - 1, 0, n - 1), (0, 0, n - 1)] + [(0, j, n - 1) for j in range(n)] + [(i, n - 1, n - 1) for i in range(n)]
        triples = list(dict.fromkeys(structured + rng.sample(triples, lim)))
    return pairs, triples


# ------------------------------------------------------------------------------------------------ clients
class Legacy:
    """nnas / nasc / hpp: anynet.http.request replaced by a capturing stub"""

    def __init__(self, name):
        from nintendo import nnas, nasc
        from nintendo.nex import hpp, settings as nexsettings
        self.name = name
        self.cls = {"nnas": nnas.NNASClient, "nasc": nasc.NASCClient, "hpp": hpp.HppClient}[name]
        self.cap = []
        self.calls = {"nnas": ab.NNAS_CALLS, "nasc": ab.NASC_CALLS[:1], "hpp": [("request", (1, 2, b"x"))]}[name]
        self.nexsettings = nexsettings

    def fresh(self, setter):
        if self.name == "hpp":
            c = self.cls(self.nexsettings.default(), 0x1234, "v1", 5, "pw"); c.settings["prudp.access_key"] = "aabbccdd"
            return c
        c = self.cls()
        if self.name == "nasc":
            for nm, a in ab.NASC_BASE:
                if nm != setter and not (setter == "set_password" and nm == "set_user"):
                    getattr(c, nm)(*a)
        return c

    def base_tokens(self, setter):
        if self.name != "nasc": return []
        return [ab.enc_set(nm, a) for nm, a in ab.NASC_BASE if nm != setter and not (setter == "set_password" and nm == "set_user")]

    async def request(self, c, call, args):
        del self.cap[:]
        try:
            await getattr(c, call)(*args)
        except StopAsyncIteration:
            pass
        except Exception as e:
            return "err " + sc.exc_name(e)
        if not self.cap: return "none"
        url, data = self.cap[-1][0], self.cap[-1][1]
        if self.name == "hpp":
            m = re.search(rb"\r\nHost: ([^\r]+)\r\n", data)
            return "host %s / Host header %s" % (url, m.group(1).decode() if m else None)
        return ("ok " if self.name == "nasc" else "") + ab.hx(url) + "|" + ab.hx(data)

    def readable(self, r):
        if "|" in r:
            try: return bytes.fromhex(r.split("|")[1]).decode("utf-8", "replace")[:1500]
            except ValueError: pass
        return r[:1500]

    def model_line(self, c, setter, effs, call, args):
        if self.name == "nnas":
            return "nnas %s -- %s" % (" ".join(ab.enc_set(setter, e) for e in effs), ab.nnas_call_tok(call, args))
        if self.name == "nasc":
            return "nasc s:%s %s -- login n:%d s:%s s:%s" % (ab.hx(c.bss_id), " ".join(self.base_tokens(setter) + [ab.enc_set(setter, e) for e in effs]), args[0], ab.hx(args[1]), ab.hx(ab.DEVTIME))
        return None


class Switch:
    def __init__(self, mods, client):
        self.mods, self.name = mods, client
        self.devid = 0x6265A1B2C3D4E5F6 if client in ("dragons", "sun", "atumn") else None
        self.cls = type(sc.make_client(mods, client, self.devid))
        v = [(c, a) for c, a, t in sc.call_variants(client) if t in ab.GOOD_TAGS]
        seen, self.calls = set(), []
        for c, a in v:      # one variant per public call
            if c not in seen:
                seen.add(c); self.calls.append((c, a))

    def fresh(self, setter):
        cl = sc.make_client(self.mods, self.name, self.devid)
        cl._caps = []
        cur = [None]

        async def cb(host, req, context, cl=cl):
            cl._caps.append((host, re.sub(rb"(cert|cert_key)=[A-Za-z0-9_%-]+", rb"\g<1>=*", req.encode())))
            return sc.good_response(self.name, cur[0], req)
        cl._cur = cur
        cl.set_request_callback(cb)
        if self.name == "aauth" and setter != "set_system_version": cl.set_system_version(1400)
        return cl

    async def request(self, c, call, args):
        del c._caps[:]
        c._cur[0] = call
        try:
            await sc.invoke(c, self.name, call, args)
        except Exception as e:
            return "err %s after %r" % (sc.exc_name(e), [(h, d.decode("utf-8", "replace")) for h, d in c._caps])
        return repr([(h, d.decode("utf-8", "replace")) for h, d in c._caps])

    def readable(self, r): return r[:1500]
    def model_line(self, *a): return None


# ------------------------------------------------------------------------------------------------ run
def run(ctx, drv, mods):
    import datetime as _dt
    from nintendo import nasc
    quick = ctx.tier == "quick"
    real_request = http.request
    adapters = [Legacy("nnas"), Legacy("nasc"), Legacy("hpp")] + [Switch(mods, c) for c in sc.CLIENTS]
    cap_all = []

    async def fake(url, req, context=None, **kw):
        for a in adapters[:3]:
            a.cap.append((url, req.encode(), context))
        raise StopAsyncIteration

    class FixedDT(_dt.datetime):
        @classmethod
        def now(cls, tz=None): return cls(2024, 5, 6, 7, 8, 9)

    lines, reals, where = [], [], []
    reported = set()
    stats = {"setters": 0, "with_optional": [], "sequences": 0, "guessed": []}

    async def main():
        for ad in adapters:
            try:
                ad.fresh(None)
            except Exception:
                continue        # a client that cannot be constructed is reported by construct_checks / legacy_checks
            for setter in sorted(n for n in dir(ad.cls) if n.startswith("set_") and n not in SKIP):
                req, opt = signature_of(ad.cls, setter)
                table = VALUES.get(ad.name, SWITCH_VALUES if isinstance(ad, Switch) else {}).get(setter)
                if table is None:
                    continue        # unknown setter: reported as setter-unknown by corr_C20
                fulls = []
                for k, t in enumerate(table):
                    t = tuple(t)
                    if len(t) < len(req) + len(opt):      # a parameter the table does not know yet
                        t = t + tuple(guess(p, k) for p in (req + opt)[len(t):])
                        stats["guessed"].append("%s.%s" % (ad.name, setter))
                    fulls.append(t[:len(req) + len(opt)])
                stats["setters"] += 1
                if opt: stats["with_optional"].append("%s.%s(%s)" % (ad.name, setter, ",".join(p.name for p in opt)))
                F = [spellings(req, opt, t) for t in fulls]
                pairs, triples = sequences(ctx.rng, F, quick)
                calls = ad.calls
                # the reference: a fresh client with only the last call
                ref = {}

                async def reference(which, idx):
                    if (which, idx) not in ref:
                        c = ad.fresh(setter)
                        sp = F[which][idx]
                        try:
                            getattr(c, setter)(*sp[1], **sp[2])
                        except Exception as e:
                            ref[(which, idx)] = None; return None
                        ref[(which, idx)] = [await ad.request(c, call, args) for call, args in calls]
                    return ref[(which, idx)]

                async def one(seq, between):
                    """seq: [(which, idx)] — calls in order on one object"""
                    want = await reference(*seq[-1])
                    if want is None: return
                    c = ad.fresh(setter)
                    for n, (which, idx) in enumerate(seq):
                        sp = F[which][idx]
                        try:
                            getattr(c, setter)(*sp[1], **sp[2])
                        except Exception as e:
                            if await reference(which, idx) is None: return      # this spelling is refused on a fresh client too
                            key = "setter-sequence:%s.%s" % (ad.name, setter)
                            if key not in reported:
                                reported.add(key)
                                ctx.violation(key, "%s.%s is refused after earlier calls on the same object although a fresh client accepts it: %r" % (ad.cls.__name__, show(setter, sp), e),
                                              {"client": ad.name, "sequence": "; ".join(show(setter, F[w][i]) for w, i in seq[:n + 1]), "exception": repr(e)})
                            return
                        if between and n < len(seq) - 1:
                            await ad.request(c, *calls[n % len(calls)])
                    stats["sequences"] += 1
                    seq_txt = "c = %s(...); " % ad.cls.__name__ + "; ".join("c.%s%s" % (show(setter, F[w][i]), "; <a request>" if between and n < len(seq) - 1 else "") for n, (w, i) in enumerate(seq))
                    for ci, (call, args) in enumerate(calls):
                        got = await ad.request(c, call, args)
                        ctx.case(key=("optseq", ad.name, setter, tuple(seq), between, call, repr(args)), nontrivial=len(seq) > 1,
                                 tag="optseq:%s.%s:%s" % (ad.name, setter, "optional" if opt else "plain"),
                                 sample={"sequence": seq_txt, "call": ab.show_call(call, args)} if stats["sequences"] % 400 == 1 and ci == 0 else None)
                        if got != want[ci]:
                            key = "setter-sequence:%s.%s" % (ad.name, setter)
                            if key in reported: continue
                            reported.add(key)
                            last = F[seq[-1][0]][seq[-1][1]]
                            ctx.violation(key, "after %s the %s request of %s is not the request of a fresh client configured with %s alone: something of an earlier call survives (or something of the last call is missing)"
                                          % (seq_txt, ab.show_call(call, args), ad.cls.__name__, show(setter, last)),
                                          {"client": ad.name, "setter": setter, "sequence": seq_txt, "call": ab.show_call(call, args),
                                           "difference": {"only_after_sequence": [l for l in ad.readable(got).replace("&", "\r\n").split("\r\n") if l not in ad.readable(want[ci]).replace("&", "\r\n").split("\r\n")][:6],
                                                          "only_fresh_client": [l for l in ad.readable(want[ci]).replace("&", "\r\n").split("\r\n") if l not in ad.readable(got).replace("&", "\r\n").split("\r\n")][:6]},
                                           "request_after_sequence": ad.readable(got), "request_of_fresh_client": ad.readable(want[ci]),
                                           "how": "harness/c20_optseq.py: anynet.http.request / the request callback replaced by a capturing stub"})
                        elif len(seq) == 2 and not between:
                            ml = ad.model_line(c, setter, [F[w][i][3] for w, i in seq], call, args)
                            if ml is not None and (ci < 2 or not quick):
                                try:
                                    lines.append(ml); reals.append(got); where.append("%s.%s" % (ad.name, setter))
                                except ValueError:
                                    pass

                for i, j in pairs:
                    await one([(0, i), (1, j)], False)
                for i, j in (pairs if len(pairs) <= 36 else pairs[::max(1, len(pairs) // 36)]):
                    await one([(0, i), (1, j)], True)
                for i, j, k in triples:
                    await one([(0, i), (1, j), (2, k)], False)
                if len(F[0]) > 1:
                    n = len(F[0])
                    for i, j, k in [(0, n - 1, n - 1), (0, n - 1, 0), (n - 1, 0, n - 1)]:
                        await one([(0, i), (1, j), (2, k)], True)

    http.request = fake
    nasc.datetime.datetime = FixedDT
    try:
        anyio.run(main)
    finally:
        http.request = real_request
        nasc.datetime.datetime = _dt.datetime
    diffs = []
    if lines:
        ok_lines = []
        for l, r, w in zip(lines, reals, where):
            ok_lines.append((l, r, w))
        outs = drv.batch([l for l, _, _ in ok_lines])
        for (l, r, w), o in zip(ok_lines, outs):
            if r != o:
                diffs.append(("optseq", l[:600], r[:600], o[:600]))
    ctx.extra["optseq"] = {"setters": stats["setters"], "with_optional_parameters": sorted(set(stats["with_optional"])), "sequences": stats["sequences"],
                           "model_lines": len(lines), "values_guessed_for": sorted(set(stats["guessed"]))}
    return diffs
