import NxModel.Switch.Clients
/-!
# Era-consistency checkers over the translated per-version tables

The translator (`tools/switch_tables.py`, `ast`-based so duplicate keys stay visible) emits the tables
with strings coded as `List Nat` (code points) — `Coded`.  Every function here is a linear or quadratic
`Bool` checker that the kernel evaluates on every run (`decide +kernel` in the generated file); what a
`true` means is spelled out by the lifting lemmas in `NxProofs/Switch.lean`.
-/
namespace Nx.Switch
open Nx

abbrev CStr := List Nat

structure Coded where
  fw : Dict CStr
  dauthUA : Dict CStr
  digest : Dict CStr
  keygen : Dict Nat
  dauthApi : Dict Nat
  aauthUA : Dict CStr
  aauthApi : Dict Nat
  baasUA : Dict CStr
  fiveUA : Dict CStr
  latest : List Nat          -- LATEST_VERSION of dauth, aauth, baas, dragons, five, sun, atumn
  languages : List CStr
  docMin : Nat               -- "All system versions from `9.0.0` up to `19.0.1` are supported" in the reference pages
  docMax : Nat
  deriving Repr

def decodeStr (l : CStr) : String := String.ofList (l.map Char.ofNat)
def decodeDict (d : Dict CStr) : Dict String := d.map fun p => (p.1, decodeStr p.2)

def Coded.decode (c : Coded) : Tables :=
  { fw := decodeDict c.fw, dauthUA := decodeDict c.dauthUA, digest := decodeDict c.digest, keygen := c.keygen,
    dauthApi := c.dauthApi, aauthUA := decodeDict c.aauthUA, aauthApi := c.aauthApi, baasUA := decodeDict c.baasUA,
    fiveUA := decodeDict c.fiveUA,
    latestDauth := c.latest.getD 0 0, latestAauth := c.latest.getD 1 0, latestBaas := c.latest.getD 2 0,
    latestDragons := c.latest.getD 3 0, latestFive := c.latest.getD 4 0, latestSun := c.latest.getD 5 0,
    latestAtumn := c.latest.getD 6 0, languages := c.languages.map decodeStr }

/-! ## key columns -/

/-- the key lists of all nine tables (what `set_system_version` atomicity depends on) -/
structure Keys where
  fw : List Nat
  dauthUA : List Nat
  digest : List Nat
  keygen : List Nat
  dauthApi : List Nat
  aauthUA : List Nat
  aauthApi : List Nat
  baasUA : List Nat
  fiveUA : List Nat
  deriving DecidableEq, Repr

def keysOf {α : Type} (d : Dict α) : List Nat := d.map (·.1)

def Tables.keys (T : Tables) : Keys :=
  { fw := keysOf T.fw, dauthUA := keysOf T.dauthUA, digest := keysOf T.digest, keygen := keysOf T.keygen,
    dauthApi := keysOf T.dauthApi, aauthUA := keysOf T.aauthUA, aauthApi := keysOf T.aauthApi,
    baasUA := keysOf T.baasUA, fiveUA := keysOf T.fiveUA }

def Coded.keys (c : Coded) : Keys :=
  { fw := keysOf c.fw, dauthUA := keysOf c.dauthUA, digest := keysOf c.digest, keygen := keysOf c.keygen,
    dauthApi := keysOf c.dauthApi, aauthUA := keysOf c.aauthUA, aauthApi := keysOf c.aauthApi,
    baasUA := keysOf c.baasUA, fiveUA := keysOf c.fiveUA }

def Keys.all (k : Keys) : List (List Nat) :=
  [k.fw, k.dauthUA, k.digest, k.keygen, k.dauthApi, k.aauthUA, k.aauthApi, k.baasUA, k.fiveUA]

def subset (a b : List Nat) : Bool := a.all fun x => b.contains x

/-- every table has exactly the key set of the firmware-version table -/
def Keys.sameSets (k : Keys) : Bool := k.all.all fun l => subset l k.fw && subset k.fw l

def noDup : List Nat → Bool
  | [] => true
  | x :: r => !r.contains x && noDup r

/-- no dict literal repeats a key (a repeated key silently drops the earlier entry at import time) -/
def Keys.noDuplicates (k : Keys) : Bool := k.all.all noDup

def strictAsc : List Nat → Bool
  | a :: b :: r => a < b && strictAsc (b :: r)
  | _ => true

/-- the tables are written in ascending version order (needed to speak of "the previous entry") -/
def Keys.ascending (k : Keys) : Bool := k.all.all strictAsc

def maxOf (l : List Nat) : Nat := l.foldl max 0
def minOf (l : List Nat) : Nat := l.foldl min (l.headD 0)

/-- `LATEST_VERSION` of each of the seven modules is the largest key, and the documented range matches -/
def Coded.latestOk (c : Coded) : Bool :=
  c.latest.length == 7 && c.latest.all (· == maxOf (keysOf c.fw)) &&
  c.docMax == maxOf (keysOf c.fw) && c.docMin == minOf (keysOf c.fw)

/-- the property speaks of 41 supported system versions -/
def Coded.countOk (c : Coded) : Bool := (keysOf c.fw).length == 41

/-! ## version boundaries and monotone columns -/

/-- the boundaries at which the documentation and the tables let a request change shape -/
def boundaries : List Nat := [1300, 1500, 1800, 1900]

/-- no boundary `b` with `v₁ < b ≤ v₂` -/
def noBoundary (v₁ v₂ : Nat) : Bool := boundaries.all fun b => !(v₁ < b && b ≤ v₂)

/-- the column is constant between boundaries: `v₁ ≤ v₂` without a boundary in `(v₁, v₂]` ⇒ equal values -/
def eraConstant (d : Dict Nat) : Bool :=
  d.all fun p => d.all fun q => !(p.1 ≤ q.1 && noBoundary p.1 q.1) || p.2 == q.2

def monotone (d : Dict Nat) : Bool :=
  d.all fun p => d.all fun q => !(p.1 ≤ q.1) || p.2 ≤ q.2

/-- the value changes only when one of `steps` lies in `(v₁, v₂]` -/
def stepsOnlyAt (steps : List Nat) (d : Dict Nat) : Bool :=
  d.all fun p => d.all fun q => !(p.1 ≤ q.1 && steps.all fun b => !(p.1 < b && b ≤ q.1)) || p.2 == q.2

def Coded.apiEraOk (c : Coded) : Bool := eraConstant c.dauthApi && eraConstant c.aauthApi

def Coded.monotoneOk (c : Coded) : Bool := monotone c.keygen && monotone c.dauthApi && monotone c.aauthApi

/-- dauth API steps only at 13.0.0 (edge-token vendor id), aauth API only at 15.0.0 (contents authorization
    token instead of the ticket) and 19.0.0 (`auth_type`, gamecard challenge) — the documented switches -/
def Coded.apiStepsDocumented (c : Coded) : Bool := stepsOnlyAt [1300] c.dauthApi && stepsOnlyAt [1500, 1900] c.aauthApi

/-! ## strings: SDK versions, firmware strings, digests -/

def cs (s : String) : CStr := s.toList.map Char.toNat

def isDigitN (n : Nat) : Bool := 48 ≤ n && n ≤ 57

def readDecAux : List Nat → Nat → Nat × List Nat
  | [], acc => (acc, [])
  | c :: r, acc => if isDigitN c then readDecAux r (acc * 10 + (c - 48)) else (acc, c :: r)

/-- one or more decimal digits -/
def readDec (l : CStr) : Option (Nat × CStr) :=
  match l with
  | c :: _ => if isDigitN c then some (readDecAux l 0) else none
  | [] => none

def expect (c : Nat) (l : CStr) : Option CStr :=
  match l with
  | x :: r => if x = c then some r else none
  | [] => none

/-- the rest of `l` after the first occurrence of `pat` -/
def afterSub (pat : CStr) : CStr → Option CStr
  | [] => if pat.isEmpty then some [] else none
  | c :: r => if pat.isPrefixOf (c :: r) then some ((c :: r).drop pat.length) else afterSub pat r

/-- the maximal prefix of version characters (digits and dots) -/
def verToken (l : CStr) : CStr := l.takeWhile fun c => isDigitN c || c == 46

/-- `a.b.c.d` → `a` -/
def sdkMajor (tok : CStr) : Option Nat :=
  match readDec tok with
  | some (a, r) =>
    (do let r ← expect 46 r; let (_, r) ← readDec r; let r ← expect 46 r; let (_, r) ← readDec r
        let r ← expect 46 r; let (_, r) ← readDec r; if r.isEmpty then some a else none)
  | none => none

/-- the token after `"SDK "` -/
def sdkOf (ua : CStr) : Option CStr := (afterSub (cs "SDK ") ua).map verToken
/-- the token after `"Add-on "` -/
def addonOf (ua : CStr) : Option CStr := (afterSub (cs "Add-on ") ua).map verToken

def lookupC {α : Type} (d : Dict α) (k : Nat) : Option α := (d.find? (·.1 == k)).map (·.2)

/-- for every version: the dauth user agent names an SDK `a.b.c.d` with `a = version / 100`, and the aauth,
    baas and five user agents of that version name the same SDK, as SDK and as Add-on -/
def Coded.sdkOk (c : Coded) : Bool :=
  c.dauthUA.all fun (v, ua) =>
    match sdkOf ua with
    | some tok =>
      sdkMajor tok == some (v / 100) && (addonOf ua).isNone &&
      [c.aauthUA, c.baasUA, c.fiveUA].all fun t =>
        match lookupC t v with
        | some u => sdkOf u == some tok && addonOf u == some tok
        | none => false
    | none => false

/-- SDK major is non-decreasing in the version (follows from `sdkOk`, kept as its own named demand) -/
def Coded.sdkMonotone (c : Coded) : Bool :=
  c.dauthUA.all fun (v₁, u₁) => c.dauthUA.all fun (v₂, u₂) =>
    !(v₁ ≤ v₂) || (match (sdkOf u₁).bind sdkMajor, (sdkOf u₂).bind sdkMajor with
                   | some a, some b => a ≤ b
                   | _, _ => false)

/-- every baas user-agent template formats with a module name (exactly one `%s`, no stray `%`) -/
def Coded.baasTemplatesOk (c : Coded) : Bool :=
  c.baasUA.all fun (_, u) => templateOk (u.map Char.ofNat)

/-- `"M.m.p-…"` → `M*100 + m*10 + p` (m, p single digits) -/
def fwVersion (s : CStr) : Option Nat := do
  let (a, r) ← readDec s
  let r ← expect 46 r
  let (b, r) ← readDec r
  let r ← expect 46 r
  let (p, r) ← readDec r
  let r ← expect 45 r
  if r.isEmpty || b ≥ 10 || p ≥ 10 then none else some (a * 100 + b * 10 + p)

def hexValN (c : Nat) : Option Nat :=
  if 48 ≤ c && c ≤ 57 then some (c - 48) else if 97 ≤ c && c ≤ 102 then some (c - 87) else none

def readHex2 (l : CStr) : Option (Nat × CStr) :=
  match l with
  | a :: b :: r => do let x ← hexValN a; let y ← hexValN b; pure (16 * x + y, r)
  | _ => none

def isB64Url (c : Nat) : Bool :=
  (48 ≤ c && c ≤ 57) || (65 ≤ c && c ≤ 90) || (97 ≤ c && c ≤ 122) || c == 45 || c == 95

/-- `"CusHY#00MMmmpp#<43 base64url chars>="` → `MM*100 + mm*10 + pp` -/
def digestVersion (s : CStr) : Option Nat := do
  let r ← if (cs "CusHY#").isPrefixOf s then some (s.drop 6) else none
  let (z, r) ← readHex2 r
  let (a, r) ← readHex2 r
  let (b, r) ← readHex2 r
  let (p, r) ← readHex2 r
  let r ← expect 35 r
  if z != 0 || b ≥ 10 || p ≥ 10 then none
  else if r.length == 44 && (r.take 43).all isB64Url && r.drop 43 == [61] then some (a * 100 + b * 10 + p) else none

/-- every entry spells its own version, or repeats the previous entry verbatim (an alias) -/
def spellsOrAlias (ver : CStr → Option Nat) : Option CStr → Dict CStr → Bool
  | _, [] => true
  | prev, (v, s) :: r => (ver s == some v || prev == some s) && spellsOrAlias ver (some s) r

def Coded.firmwareOk (c : Coded) : Bool := spellsOrAlias fwVersion none c.fw
def Coded.digestOk (c : Coded) : Bool := spellsOrAlias digestVersion none c.digest

/-- a version is an alias in the firmware table iff it is one in the digest table -/
def Coded.aliasesAgree (c : Coded) : Bool :=
  c.fw.all fun (v, s) => match lookupC c.digest v with
    | some d => (fwVersion s == some v) == (digestVersion d == some v)
    | none => false

/-! ## invitation languages -/

/-- the language tags the invitation server documents (wiki "Online Play Invitation Server"; the Switch's
    language list without the two legacy Chinese codes) -/
def documentedLanguages : List String :=
  ["en-US", "en-GB", "ja", "fr", "de", "es-419", "es", "it", "nl", "fr-CA", "pt", "ru", "zh-Hans", "zh-Hant", "ko", "pt-BR"]

def isLowerN (c : Nat) : Bool := 97 ≤ c && c ≤ 122
def isAlnumN (c : Nat) : Bool := isDigitN c || isLowerN c || (65 ≤ c && c ≤ 90)

/-- two lower-case letters, optionally `-` and 2–4 alphanumerics -/
def tagWellFormed (t : CStr) : Bool :=
  match t with
  | a :: b :: r => isLowerN a && isLowerN b &&
      (r.isEmpty || (r.head? == some 45 && 2 ≤ (r.drop 1).length && (r.drop 1).length ≤ 4 && (r.drop 1).all isAlnumN))
  | _ => false

def Coded.languagesOk (c : Coded) : Bool :=
  c.languages == documentedLanguages.map cs && c.languages.all tagWellFormed

end Nx.Switch
