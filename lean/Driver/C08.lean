import NxModel.Prudp.PacketIO
import NxModel.Prudp.Payload
import NxModel.DriverUtil
import NxModel.Crypto.Inflate
/-! line-protocol driver for the C08 reference (signatures, key chain, payload transformation, connection request)

  v0ck cv key data                         -> <nat>
  v0datasig sv key sk <packet> | v0sig sv key sk cs <packet> | v0connsig ip port          -> <hex>
  v1sig key sk cs <packet> | v1connsig ip port | liteconnsig ip port                      -> <hex>
  litesig key cs <packet>                                                                -> <hex> | none
  v0emit sv cv fv key sk cs <packet> | v1emit key sk cs <packet> | liteemit key cs <packet> -> ok <hex>
  modkey k | unrelinit k | unrelkey ukey pid session -> <hex> ;  subkeys k n -> <hex>,<hex>,…
  pnew transport compression maxsub -> ok ; pkey k -> ok | err N
  penc type flags sub pid session payload z -> ok <hex> | err N
  pdec type flags sub pid session data <inflated-hex>|fail -> ok <hex> | err N
  pdecz type flags sub pid session data                  -> the same, with the Lean inflater instead of the oracle argument
  zinf <hex>                                              -> ok <hex> | err      (zlib.decompress)
  zchk <payload> <z>                                      -> ok | bad           (does the deflate oracle z inflate to payload?)
  kerbenc key data | kerbdec key data -> ok <hex> | err N
  connreq pidsize pid cid check sk ticket -> ok <hex> | err N ; connresp check -> <hex>
  chkresp <check>|none data -> ok | err N
-/
open Nx Nx.Prudp

def natsOf (l : List String) : Option (List Nat) := l.mapM String.toNat?

def step (st : PayState) (line : String) : PayState × String :=
  match line.splitOn " " with
  | ["v0ck", cv, key, data] =>
    match parseV0Cfg "0" cv "0" key, fromHex data with
    | some c, some d => (st, toString (v0Checksum c d))
    | _, _ => (st, "bad-op")
  | "v0datasig" :: sv :: key :: sk :: pk =>
    match parseV0Cfg sv "0" "0" key, fromHex sk, parsePacket pk with
    | some c, some sk, some p => (st, hexOut (v0DataSignature c p sk))
    | _, _, _ => (st, "bad-op")
  | "v0sig" :: sv :: key :: sk :: cs :: pk =>
    match parseV0Cfg sv "0" "0" key, fromHex sk, fromHex cs, parsePacket pk with
    | some c, some sk, some cs, some p => (st, hexOut (v0PacketSignature c p sk cs))
    | _, _, _, _ => (st, "bad-op")
  | ["v0connsig", ip, port] =>
    match fromHex ip, port.toNat? with
    | some ip, some port => (st, hexOut (v0ConnectionSignature ip port))
    | _, _ => (st, "bad-op")
  | "v1sig" :: key :: sk :: cs :: pk =>
    match fromHex key, fromHex sk, fromHex cs, parsePacket pk with
    | some key, some sk, some cs, some p => (st, hexOut (v1PacketSignature key p sk cs))
    | _, _, _, _ => (st, "bad-op")
  | ["v1connsig", ip, port] =>
    match fromHex ip, port.toNat? with
    | some ip, some port => (st, hexOut (v1ConnectionSignature ip port))
    | _, _ => (st, "bad-op")
  | ["liteconnsig", ip, port] =>
    match fromHex ip, port.toNat? with
    | some ip, some port => (st, hexOut (liteConnectionSignature ip port))
    | _, _ => (st, "bad-op")
  | "litesig" :: key :: cs :: pk =>
    match fromHex key, fromHex cs, parsePacket pk with
    | some key, some cs, some p => (st, showOptBytes (litePacketSignature key p cs))
    | _, _, _ => (st, "bad-op")
  | "v0emit" :: sv :: cv :: fv :: key :: sk :: cs :: pk =>
    match parseV0Cfg sv cv fv key, fromHex sk, fromHex cs, parsePacket pk with
    | some c, some sk, some cs, some p => (st, "ok " ++ hexOut (v0Emit c p sk cs))
    | _, _, _, _ => (st, "bad-op")
  | "v1emit" :: key :: sk :: cs :: pk =>
    match fromHex key, fromHex sk, fromHex cs, parsePacket pk with
    | some key, some sk, some cs, some p => (st, "ok " ++ hexOut (v1Emit key p sk cs))
    | _, _, _, _ => (st, "bad-op")
  | "liteemit" :: key :: cs :: pk =>
    match fromHex key, fromHex cs, parsePacket pk with
    | some key, some cs, some p => (st, "ok " ++ hexOut (liteEmit key p cs))
    | _, _, _ => (st, "bad-op")
  | ["modkey", k] =>
    match fromHex k with
    | some k => (st, hexOut (modifyKey k))
    | none => (st, "bad-op")
  | ["subkeys", k, n] =>
    match fromHex k, n.toNat? with
    | some k, some n => (st, ",".intercalate ((substreamKeys k n).map hexOut))
    | _, _ => (st, "bad-op")
  | ["unrelinit", k] =>
    match fromHex k with
    | some k => (st, hexOut (initUnreliableKey k))
    | none => (st, "bad-op")
  | ["unrelkey", k, pid, se] =>
    match fromHex k, pid.toNat?, se.toNat? with
    | some k, some pid, some se => (st, hexOut (makeUnreliableKey k pid se))
    | _, _, _ => (st, "bad-op")
  | ["pnew", t, c, m] =>
    match t.toNat?, c.toNat?, m.toNat? with
    | some t, some c, some m => (PayState.init t c m, "ok")
    | _, _, _ => (st, "bad-op")
  | ["pkey", k] =>
    match fromHex k with
    | some k =>
      match st.setSessionKey k with
      | .ok s => (s, "ok")
      | .error e => (st, "err " ++ e.name)
    | none => (st, "bad-op")
  | ["penc", ty, fl, sub, pid, se, pl, z] =>
    match natsOf [ty, fl, sub, pid, se], fromHex pl, fromHex z with
    | some [ty, fl, sub, pid, se], some pl, some z =>
      let (r, s) := st.encode ty fl sub pid se pl z
      (s, showRes r)
    | _, _, _ => (st, "bad-op")
  | ["pdec", ty, fl, sub, pid, se, data, inf] =>
    match natsOf [ty, fl, sub, pid, se], fromHex data, (if inf = "fail" then some none else (fromHex inf).map some) with
    | some [ty, fl, sub, pid, se], some data, some inf =>
      let (r, s) := st.decode ty fl sub pid se data (fun _ => inf)
      (s, showRes r)
    | _, _, _ => (st, "bad-op")
  | ["pdecz", ty, fl, sub, pid, se, data] =>
    match natsOf [ty, fl, sub, pid, se], fromHex data with
    | some [ty, fl, sub, pid, se], some data =>
      let (r, s) := st.decode ty fl sub pid se data Nx.Crypto.zlibDecompress
      (s, showRes r)
    | _, _ => (st, "bad-op")
  | ["zinf", d] =>
    match fromHex d with
    | some d => (st, match Nx.Crypto.zlibDecompress d with | some o => "ok " ++ hexOut o | none => "err")
    | none => (st, "bad-op")
  | ["zchk", pl, z] =>
    match fromHex pl, fromHex z with
    | some pl, some z => (st, if Nx.Crypto.zlibDecompress z == some pl then "ok" else "bad")
    | _, _ => (st, "bad-op")
  | ["kerbenc", k, d] =>
    match fromHex k, fromHex d with
    | some k, some d => (st, showRes (kerbEncrypt k d))
    | _, _ => (st, "bad-op")
  | ["kerbdec", k, d] =>
    match fromHex k, fromHex d with
    | some k, some d => (st, showRes (kerbDecrypt k d))
    | _, _ => (st, "bad-op")
  | ["connreq", ps, pid, cid, chk, sk, ticket] =>
    match natsOf [ps, pid, cid, chk], fromHex sk, fromHex ticket with
    | some [ps, pid, cid, chk], some sk, some ticket => (st, showRes (buildConnectionRequest ps pid cid chk sk ticket))
    | _, _, _ => (st, "bad-op")
  | ["connresp", chk] =>
    match chk.toNat? with
    | some chk => (st, hexOut (connectionResponse chk))
    | none => (st, "bad-op")
  | ["chkresp", chk, data] =>
    match parseOptNat chk, fromHex data with
    | some chk, some data =>
      match checkConnectionResponse chk data with
      | .ok _ => (st, "ok")
      | .error e => (st, "err " ++ e.name)
    | _, _ => (st, "bad-op")
  | _ => (st, "bad-op")

def main : IO Unit := runState (PayState.init 0 0 0) step
