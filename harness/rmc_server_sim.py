"""A raw peer against the real `RMCClient.start(servers)` with generated server classes whose user
methods are scripted. One *session* = one RMCClient + its receive loop fed a sequence of request
datagrams; for every request the peer records the datagrams sent back, whether the loop survived,
and what the real `server.handle(...)` did (observed by wrapping it on the instance).

A case is JSON-able:
  {"module","class","method","call_id","body"(hex),"minor","protocol"(override|None),
   "script":{"mode":"stub|ok|raise|wrong|missing|partial|wrongpos","exc":name,"code":int|str|None,"yields":n,"vseed":int,"k":int,
             "path":[...],"w":value token,"slot":declared type,"where":"top.<T>|in0|in1"},
   (wrongpos = the well-typed result of `vseed` with ONE wrong value `w` at `path`, see rmc_results.py)
   (partial = a well-typed result in which the k-th response value / a late element or field of the value is of the
    wrong type, so that encoding fails after part of the response has already been written)
   "kind": tag, "extract": "ok"|"other"|"observed"}
"""
import collections, importlib, logging, random, struct, asyncio
import anyio
from nintendo.nex import rmc, common, streams, settings as nexsettings
import rmc_values as V
import rmc_results as RES
import rmc_frames as FR

logging.getLogger("nintendo.nex").setLevel(logging.CRITICAL + 1)
for _n in ("rmc", "common"):
    logging.getLogger("nintendo.nex." + _n).setLevel(logging.CRITICAL + 1)


def hx(b): return b.hex() if b else "-"


# ---- exception catalogue: name -> (factory, class as the except chain of handle_request sees it) ----
class SubTypeError(TypeError): pass
class SubIndexError(IndexError): pass
class SubMemoryError(MemoryError): pass
class SubKeyError(KeyError): pass
class TypeAndKey(TypeError, KeyError): pass
class KeyAndType(KeyError, TypeError): pass     # isinstance(e, TypeError) is tested first
class IndexAndKey(IndexError, KeyError): pass
class KeyAndIndex(KeyError, IndexError): pass   # IndexError is tested before KeyError
class MyError(Exception): pass
class SubRMCError(common.RMCError): pass
class MyBase(BaseException): pass

EXC = {
    "TypeError": (lambda: TypeError("t"), "type"),
    "IndexError": (lambda: IndexError("i"), "index"),
    "MemoryError": (lambda: MemoryError(), "memory"),
    "KeyError": (lambda: KeyError("k"), "key"),
    "SubTypeError": (lambda: SubTypeError(), "type"),
    "SubIndexError": (lambda: SubIndexError(), "index"),
    "SubMemoryError": (lambda: SubMemoryError(), "memory"),
    "SubKeyError": (lambda: SubKeyError(), "key"),
    "TypeAndKey": (lambda: TypeAndKey(), "type"),
    "KeyAndType": (lambda: KeyAndType(), "type"),
    "IndexAndKey": (lambda: IndexAndKey(), "index"),
    "KeyAndIndex": (lambda: KeyAndIndex(), "index"),
    "LookupError": (lambda: LookupError(), "other"),
    "ValueError": (lambda: ValueError("v"), "other"),
    "UnicodeDecodeError": (lambda: UnicodeDecodeError("utf8", b"\xff", 0, 1, "x"), "other"),
    "OverflowError": (lambda: OverflowError("Buffer overflow"), "other"),
    "ZeroDivisionError": (lambda: ZeroDivisionError(), "other"),
    "RuntimeError": (lambda: RuntimeError("r"), "other"),
    "RecursionError": (lambda: RecursionError(), "other"),
    "NotImplementedError": (lambda: NotImplementedError(), "other"),
    "AttributeError": (lambda: AttributeError("a"), "other"),
    "OSError": (lambda: OSError(5, "io"), "other"),
    "ConnectionResetError": (lambda: ConnectionResetError(), "other"),
    "TimeoutError": (lambda: TimeoutError(), "other"),
    "AssertionError": (lambda: AssertionError(), "other"),
    "StopAsyncIteration": (lambda: StopAsyncIteration(), "other"),
    "struct.error": (lambda: struct.error("s"), "other"),
    "EndOfStream": (lambda: anyio.EndOfStream(), "other"),
    "ClosedResourceError": (lambda: anyio.ClosedResourceError(), "other"),
    "Exception": (lambda: Exception("e"), "other"),
    "MyError": (lambda: MyError(), "other"),
    "ExceptionGroup": (lambda: ExceptionGroup("g", [ValueError("v"), TypeError("t")]), "other"),
    "ExceptionGroupOfTypeErrors": (lambda: ExceptionGroup("g", [TypeError("t")]), "other"),
    # not `Exception`s: nothing in handle_request answers them, they leave the loop
    "MyBase": (lambda: MyBase(), "base"),
    "BaseExceptionGroup": (lambda: BaseExceptionGroup("g", [MyBase()]), "base"),
    "CancelledError": (lambda: asyncio.CancelledError(), "base"),
}
MAPPED = ["TypeError", "IndexError", "MemoryError", "KeyError"]
UNMAPPED = [k for k, v in EXC.items() if v[1] == "other"]
SUBCLASSED = [k for k, v in EXC.items() if v[1] in ("type", "index", "memory", "key") and k not in MAPPED]
BASES = [k for k, v in EXC.items() if v[1] == "base"]


def classify(e):
    """how the except clauses of handle_request see an exception (the order of the code)"""
    if isinstance(e, common.RMCError): return "rmc:%d" % e.result().code()
    if not isinstance(e, Exception): return "base"
    if isinstance(e, TypeError): return "type"
    if isinstance(e, IndexError): return "index"
    if isinstance(e, MemoryError): return "memory"
    if isinstance(e, KeyError): return "key"
    return "other"


WrongType = RES.WrongType   # an object of a class no generated handler expects


def corrupt_late(b, value):
    """make `value` fail late in its encoding; returns (value, corrupted?)"""
    if isinstance(value, list):
        return value + [WrongType()], True
    if isinstance(value, common.Structure) and type(value) not in (common.Data, common.NullData):
        hier = [c for c in value.get_hierarchy() if c is not common.Data]
        for c in reversed(hier):
            try: fields = b._for_class(c).loads(c)
            except V.Unbuildable: continue
            if fields:
                setattr(value, fields[-1][0], WrongType())
                return value, True
    return WrongType(), False


# a session's configuration is one int: PRUDP minor version + 100 * index of the NEX version in the settings
# (the structures' version-gated attributes — `if settings["nex.version"] >= 30500: if version >= 1:` — are only
#  read / written under the later NEX versions)
NEX_VERSIONS = [0, 30500, 30800, 40500]


def config_settings(cfg):
    S = nexsettings.default()
    S["nex.version"] = NEX_VERSIONS[cfg // 100]
    return S


class Peer:
    def __init__(self, minor):
        self.minor = minor % 100
        self.inbox = collections.deque()
        self.sent = []
        self.idle = False
        self.wakeup = None
        self.closed = False
        self.send_yields = 0
    def minor_version(self): return self.minor
    def pid(self): return 1234
    def local_address(self): return ("127.0.0.1", 1)
    def remote_address(self): return ("127.0.0.1", 2)
    def local_sid(self): return 1
    def remote_sid(self): return 1
    async def send(self, data):
        for _ in range(self.send_yields): await anyio.sleep(0)
        self.sent.append(data)
    async def recv(self):
        while True:
            if self.inbox:
                self.idle = False
                return self.inbox.popleft()
            if self.closed: raise anyio.EndOfStream
            self.idle = True
            self.wakeup = anyio.Event()
            await self.wakeup.wait()
            self.wakeup = None
    def push(self, data):
        self.inbox.append(data)
        self.idle = False
        if self.wakeup is not None: self.wakeup.set()
    async def close(self): self.closed = True; self.push_eof()
    async def disconnect(self): self.closed = True; self.push_eof()
    def push_eof(self):
        if self.wakeup is not None: self.wakeup.set()


_BUILDERS = {}
def builder(modname):
    if modname not in _BUILDERS:
        _BUILDERS[modname] = V.Builder(importlib.import_module("nintendo.nex." + modname), random.Random(0))
    return _BUILDERS[modname]


class Cell:
    def __init__(self):
        self.script = None
        self.called = None
        self.calls = []          # (class, user method) of every scripted user method entered since the request was pushed
        self.handled = []        # (class, method id) of every generated handle() entered since the request was pushed
        self.observed = None
        self.observed_type = None
        self.value_error = None
        self.ref = None          # reference reading of the current request's parameters (rmc_frames), if the case carries one
        self.schema = None
        self.args = None         # the arguments the user method was invoked with, rendered in the shape of `ref`


def instrument(srvinfo, cell, subclass=None):
    """instance of the generated server class with scripted user methods and an observed handle();
    `subclass`: cls -> the user's subclass of the generated class to instantiate instead (harness/c11_objects.py)"""
    mod = importlib.import_module("nintendo.nex." + srvinfo["module"])
    cls = getattr(mod, srvinfo["class"])
    srv = (subclass(cls) if subclass else cls)()
    b = builder(srvinfo["module"])
    def make_user(m):
        stub = getattr(srv, m["user"])
        async def user(client, *args):
            sc = cell.script
            cell.called = m["user"]
            cell.calls.append([srvinfo["class"], m["user"]])
            if cell.ref is not None:
                if cell.ref.get("out") == "ok" and cell.ref.get("tree") is not None:
                    cell.args = FR.render_real(args, cell.ref["tree"], cell.schema)
                else:
                    cell.args = FR.describe(args)
            for _ in range(sc.get("yields", 0)): await anyio.sleep(0)
            if sc.get("delay_ms") is not None: await anyio.sleep(sc["delay_ms"] / 1000.0)    # (virtual time: c11_objects.py)
            mode = sc["mode"]
            if mode == "stub": return await stub(client, *args)
            if mode == "raise":
                if sc["exc"] == "RMCError":
                    if sc.get("code") is None: raise common.RMCError()
                    raise common.RMCError(sc["code"])     # an unknown *name* raises KeyError right here
                if sc["exc"] == "SubRMCError": raise SubRMCError(sc["code"])
                raise EXC[sc["exc"]][0]()
            if mode == "wrong": return WrongType()
            if mode == "missing":
                obj = rmc.RMCResponse()
                drop = sc.get("k", len(m["fields"]) - 1) % len(m["fields"])     # which field is missing (default: the last)
                for i, f in enumerate(m["fields"]):
                    if i != drop: setattr(obj, f, 0)
                return obj
            if mode in ("ok", "partial", "wrongpos"):
                b.rng = random.Random(sc["vseed"] + 1)
                try:
                    rv = b.response_value(srvinfo["class"], m["user"], m["resp"], m["fields"])
                except V.Unbuildable as e:
                    cell.value_error = str(e)
                    raise
                if mode == "partial":
                    if m["resp"] == "m":
                        setattr(rv, m["fields"][sc["k"] % len(m["fields"])], WrongType())
                    else:
                        rv, _ = corrupt_late(b, rv)
                if mode == "wrongpos":
                    rv = RES.corrupt(m, rv, sc["path"], sc["w"])
                return rv
            raise ValueError(mode)
        return user
    for m in srvinfo["methods"]:
        if m["supported"]:
            setattr(srv, m["user"], make_user(m))
    orig = srv.handle
    async def handle(client, method_id, input, output):
        cell.handled.append([srvinfo["class"], method_id])
        try:
            await orig(client, method_id, input, output)
        except BaseException as e:
            cell.observed = classify(e)
            cell.observed_type = type(e).__name__
            raise
        cell.observed = "ret:" + hx(output.get())
    srv.handle = handle
    return srv


def make_request(protocol, method, call_id, body):
    """request datagram, written independently of RMCMessage.encode"""
    if protocol < 0x7F: p = bytes([0x80 | protocol])
    else: p = bytes([0xFF]) + struct.pack("<H", protocol)
    payload = p + struct.pack("<II", call_id, method) + body
    return struct.pack("<I", len(payload)) + payload


def valid_body(srvinfo, m, settings, vseed):
    b = builder(srvinfo["module"])
    b.rng = random.Random(vseed)
    return b.request_body(m["req_exprs"], settings)[0]


def prebuild(srvinfos):
    cell = Cell()
    return cell, [instrument(si, cell) for si in srvinfos]


async def run_session(srvinfos, cases, minor=0, max_yields=200, prebuilt=None):
    """srvinfos: translator records of the servers registered in this session; cases: list of case dicts
    (case["srv"] = index into srvinfos or None). returns list of result dicts.
    A session is one connection: a new RMCClient (and, unless `prebuilt`, new server objects)."""
    cell, servers = prebuilt if prebuilt else prebuild(srvinfos)
    peer = Peer(minor)
    S = config_settings(minor)
    if any(c.get("ref") for c in cases): cell.schema = FR.schema_for(S)
    client = rmc.RMCClient(S, peer)
    state = {"loop": "alive"}
    async def loop():
        try:
            await client.start(servers)
            state["loop"] = "returned"
        except BaseException as e:
            if isinstance(e, asyncio.CancelledError) and state.get("teardown"): raise
            state["loop"] = "crash:" + type(e).__name__
    results = []
    async with anyio.create_task_group() as tg:
        tg.start_soon(loop)
        for _ in range(3): await anyio.sleep(0)
        for case in cases:
            if state["loop"] != "alive":
                results.append({"skipped": True}); continue
            cell.script = case["script"]; cell.called = None; cell.observed = None; cell.value_error = None; cell.observed_type = None
            cell.calls = []; cell.handled = []
            cell.ref = case.get("ref"); cell.args = None
            peer.sent = []
            peer.send_yields = case["script"].get("send_yields", 0)
            peer.push(bytes.fromhex(case["datagram"]))
            n = 0
            while not peer.idle and state["loop"] == "alive" and n < max_yields:
                await anyio.sleep(0); n += 1
            results.append({"sent": [d.hex() for d in peer.sent], "loop": state["loop"], "observed": cell.observed,
                            "called": cell.called is not None, "hang": n >= max_yields, "observed_type": cell.observed_type, "value_error": cell.value_error,
                            "closed": client.closed, "calls": cell.calls, "handled": cell.handled, "args": cell.args})
        state["teardown"] = True
        tg.cancel_scope.cancel()
    return results


def run_sessions(jobs, prebuilt=None):
    """jobs: list of (srvinfos, cases, minor)"""
    async def main():
        out = []
        for srvinfos, cases, minor in jobs:
            out.append(await run_session(srvinfos, cases, minor, prebuilt=prebuilt))
        return out
    return anyio.run(main)


def run_fresh(srvinfos, cases, minor, fresh_servers_every=50):
    """every case on its own fresh connection (new RMCClient + receive loop); the server objects are rebuilt
    every `fresh_servers_every` cases (the generated classes keep no per-request state)"""
    async def main():
        out = []
        pre = None
        for i, case in enumerate(cases):
            if pre is None or i % fresh_servers_every == 0: pre = prebuild(srvinfos)
            out.append((await run_session(srvinfos, [case], minor, prebuilt=pre))[0])
        return out
    return anyio.run(main)
