"""C16 helper families: state that one object carries from one call to the next.

(1) kd_sequences: ONE KeyDerivationOld / KeyDerivationNew object used for a whole sequence of derivations
    (same password with `pid % pid_count` descending / ascending / repeating, passwords interleaved, a sibling
    object of the same class with other parameters used in between); after every step the result is compared
    with a fresh object, the independent reference and (through the driver line) the Lean model, and the
    object's parameters must be what they were.
(2) settings_sequences: ONE settings object shared by a sequence of ServerTicket / ClientTicket operations in
    which some operation RAISES (bit-flipped / truncated / wrong-key ticket, session key of the wrong size,
    id or time stamp out of range) followed by genuine operations: the settings object reads the same after
    every call, tickets issued earlier are still accepted with their fields, new ciphertexts still equal the
    reference construction. A failing oracle reports the whole sequence up to the failing step.

Every step is also a line for the compiled Lean model, whose configuration is an explicit parameter of every
operation (that is what "the settings are not changed by a call" means on the model side).
"""
import hashlib, struct
from nintendo.nex import kerberos, common, settings as nexsettings
import nexval_gen as G


# ------------------------------------------------------------------------------------------------ (1)
def _kd_plan(rng, pidc, npw):
    """list of (password index, pid): residues of pid modulo pid_count going down, up, staying, for one password
    and for several passwords interleaved"""
    m = max(pidc, 1)
    hi = m - 1
    plan = [(0, 1023), (0, 1024), (0, 123456), (0, 1337), (0, 1337), (0, 1336), (0, 1338)]      # residues hi,0 / 576,313 / repeat / down / up
    plan += [(0, hi), (0, m), (0, m + hi), (0, 0), (0, hi), (0, hi + m * rng.randint(1, 1 << 20))]
    a, b = sorted([rng.randrange(m), rng.randrange(m)])
    plan += [(0, a), (0, b), (0, a), (1, b), (0, b), (1, a), (1, b), (0, a)]
    for _ in range(6):
        plan.append((rng.randrange(npw), rng.choice([rng.randrange(m), rng.randrange(4 * m + 1), rng.getrandbits(32), rng.getrandbits(64)])))
    big = rng.getrandbits(64)
    plan += [(2 % npw, big), (2 % npw, big - (big % m)), (2 % npw, big), (0, big)]
    return plan


def kd_sequences(ctx, B, violation, ref_old, ref_new, wrap, quick):
    rng = ctx.rng
    steps = 0
    fams = []
    # (class name, params or None for the constructor defaults, how many plan steps)
    fams.append(("old", None, 10 if quick else 31))
    fams.append(("old", None, 6 if quick else 31))
    for p in [(5, 10), (3, 7), (0, 1), (2, 1024), (1, 2), (0, 3), (7, 1000)]: fams.append(("old", p, 31))
    fams.append(("new", None, 31))
    for p in [(5, 10), (3, 7), (0, 1), (1, 0), (2, 3), (0, 0)]: fams.append(("new", p, 31))
    if not quick:
        fams += [("old", (rng.randint(0, 40), rng.randint(1, 2000)), 31) for _ in range(20)]
        fams += [("new", (rng.randint(0, 40), rng.randint(0, 40)), 31) for _ in range(20)]
    for fi, (kind, params, nsteps) in enumerate(fams):
        cls = kerberos.KeyDerivationOld if kind == "old" else kerberos.KeyDerivationNew
        ref = ref_old if kind == "old" else ref_new
        mk = (lambda: cls()) if params is None else (lambda: cls(*params))
        b, p = params if params is not None else ((65000, 1024) if kind == "old" else (1, 1))
        sib_params = (b + 1, p + 1)
        try:
            obj = mk()
            sibling = cls(*sib_params)
        except Exception as e:
            violation("derive-seq-%s:construct" % kind, "KeyDerivation%s could not be constructed: %r" % (kind.capitalize(), e), {"scheme": kind, "params": params})
            continue
        attrs0 = (getattr(obj, "base_count", None), getattr(obj, "pid_count", None))
        n0 = rng.randint(0, 64)
        pws = [rng.randbytes(n0), rng.randbytes(n0), rng.randbytes(rng.randint(0, 64))]
        if fi % 3 == 0: pws[0] = b"password"
        if fi % 3 == 1: pws[1] = pws[0][:-1] + bytes([pws[0][-1] ^ 1]) if pws[0] else b"\0"      # same length, common prefix
        plan = _kd_plan(rng, p, len(pws))
        if nsteps < 7: plan = plan[13:13 + nsteps]            # the interleaved block: a, b, a, (other password) b, b, ...
        elif nsteps < len(plan): plan = plan[:7] + rng.sample(plan[7:], nsteps - 7)
        hist = []
        for si, (pi, pid) in enumerate(plan):
            pw = pws[pi]
            steps += 1
            real = wrap(lambda: G.hx(obj.derive_key(pw, pid)))
            hist.append({"password": pw.hex(), "pid": pid, "result": real})
            B.add("kd.%s %d %d %s %d" % (kind, b, p, G.hx(pw), pid), real, ("kd." + kind, "seq"))
            fresh = wrap(lambda: G.hx(mk().derive_key(pw, pid)))
            defined = (p != 0) if kind == "old" else pid < 1 << 64
            want = "ok " + G.hx(ref(pw, pid, b, p)) if defined else fresh
            info = {"scheme": kind, "constructor_args": list(params) if params is not None else "defaults", "base_count": b, "pid_count": p,
                    "how": "ONE KeyDerivation%s object, derive_key called for each entry of `sequence` in order; the last entry is the failing call" % kind.capitalize(),
                    "sequence": list(hist), "fresh_object": fresh, "reference": want}
            if real != want or fresh != want:
                violation("derive-seq-%s:%d,%d" % (kind, b, p),
                          "derive_key call #%d on one KeyDerivation%s(%d,%d) object differs from the reference derivation (shared object %s, fresh object %s)"
                          % (si, kind.capitalize(), b, p, "differs" if real != want else "agrees", "differs" if fresh != want else "agrees"), info)
                break
            if (getattr(obj, "base_count", None), getattr(obj, "pid_count", None)) != attrs0:
                violation("derive-seq-%s:params-changed" % kind, "derive_key changed the iteration parameters of its KeyDerivation%s object" % kind.capitalize(),
                          dict(info, params_now=[repr(getattr(obj, "base_count", None)), repr(getattr(obj, "pid_count", None))]))
                break
            if si % 5 == 4 and not (kind == "old" and b >= 1000):
                # another object of the same class with other parameters in between (state kept on the class / module)
                rs = wrap(lambda: G.hx(sibling.derive_key(pw, pid)))
                sb, sp = sib_params
                B.add("kd.%s %d %d %s %d" % (kind, sb, sp, G.hx(pw), pid), rs, ("kd." + kind, "seq-sibling"))
                if (kind == "new" and pid < 1 << 64) or kind == "old":
                    ws = "ok " + G.hx(ref(pw, pid, sb, sp))
                    if rs != ws:
                        violation("derive-seq-%s:sibling" % kind, "a second KeyDerivation%s(%d,%d) object used between the calls of the first differs from the reference derivation" % (kind.capitalize(), sb, sp),
                                  dict(info, sibling_args=[sb, sp], sibling_result=rs, sibling_reference=ws))
                        break
    ctx.extra["one_object_derivation_steps"] = steps
    ctx.extra["one_object_derivation_sequences"] = len(fams)


# ------------------------------------------------------------------------------------------------ (2)
def _snapshot(S):
    out = {}
    for name in sorted(nexsettings.Settings.field_types):
        try: out[name] = repr(S[name])
        except Exception as e: out[name] = "<%s>" % type(e).__name__
    return out


def _pidb(ps, pid): return struct.pack("<Q", pid) if ps == 8 else struct.pack("<I", pid)


def _flip_positions(rng, ct, ver):
    """byte offsets to damage: for a version-1 server ticket one in each region (length of the ticket key, the
    ticket key, length of the envelope, the body, the tag)"""
    n = len(ct)
    if ver == 1 and n > 40:
        return [rng.randrange(0, 4), rng.randrange(4, 20), rng.randrange(20, 24), rng.randrange(24, n - 16), rng.randrange(n - 16, n)]
    return [rng.randrange(0, max(1, n - 16)), rng.randrange(max(0, n - 16), n)]


def settings_sequences(ctx, B, violation, pinned, ref_envelope, wrap, hmac_equivalent, other_keys, gen_key, quick):
    rng = ctx.rng
    configs = [(ks, ps, ver) for ks in (16, 32) for ps in (4, 8) for ver in (0, 1)]
    nops = nraise = nseq = 0
    for (ks, ps, ver) in configs:
        for si in range((6 if ver == 1 else 2) if quick else (60 if ver == 1 else 20)):
            nseq += 1
            S = G.make_settings(pid_size=ps, key_size=ks, ticket_version=ver)        # the one settings object of this sequence
            snap0 = _snapshot(S)
            keys = [rng.randbytes(rng.choice([16, 32]))] if si % 2 == 0 else [gen_key(rng), gen_key(rng)]
            issued = {"st": [], "ct": []}       # (key, ciphertext, expected decrypt line)
            hist = []
            dead = [False]
            changed_at = []

            def fail(key_, what, extra=None):
                info = {"key_size": ks, "pid_size": ps, "version": ver,
                        "how": "ONE settings object (pid_size/key_size/ticket_version as given, otherwise defaults) passed to every call of `sequence` in order, kerberos.secrets.token_bytes "
                               "returning `ticket_key` for the call that draws; the last entry is the failing call",
                        "settings_at_start": {k: v for k, v in snap0.items() if k.startswith(("kerberos.", "nex."))},
                        "sequence": list(hist)}
                if extra: info.update(extra)
                if changed_at: info["settings_changed"] = {"by_call_number": changed_at[0][0], "op": changed_at[0][1], "fields_before_after": changed_at[0][2]}
                violation(key_, what, info)
                dead[0] = True

            def after(opname):
                """the settings object must read the same after every call; a change is reported after the genuine calls that
                follow had their chance to show what it does to real tickets"""
                if dead[0] or changed_at: return
                snap = _snapshot(S)
                if snap != snap0:
                    changed_at.append((len(hist) - 1, opname, {k: [snap0[k], snap[k]] for k in snap0 if snap0[k] != snap[k]}))

            def settle():
                if changed_at and not dead[0]:
                    n, opname, ch = changed_at[0]
                    fail("settings-changed-by:%s" % opname.split(":")[0], "the settings object passed to %s (call #%d of the sequence) reads differently after the call: %r" % (opname, n, ch))

            def st_enc(genuine=True, why=""):
                nonlocal nops, nraise
                key = rng.choice(keys)
                ts, pid, sk = G.gen_datetime_value(rng), G.gen_int(rng, 0, 1 << (32 if ps == 4 else 64)), rng.randbytes(ks)
                if why == "sk": sk = rng.randbytes(rng.choice([0, ks - 1, ks + 1, 48 - ks]))
                elif why == "pid": pid = 1 << (32 if ps == 4 else 64)
                elif why == "ts": ts = 1 << 64
                st = kerberos.ServerTicket(); st.timestamp, st.source, st.session_key = common.DateTime(ts), pid, sk
                n0 = len(pinned.calls)
                real = wrap(lambda: G.hx(st.encrypt(key, S)))
                drawn = pinned.calls[n0:]
                tk = drawn[0][1] if drawn else b""
                nops += 1
                op = "ServerTicket.encrypt" + (":bad-" + why if why else "")
                hist.append({"op": op, "key": key.hex(), "timestamp": ts, "source": pid, "session_key": sk.hex(), "ticket_key": tk.hex(), "result": real[:600]})
                B.add("st.enc %d %d %d %s %s %d %d %s" % (ks, ps, ver, G.hx(key), G.hx(tk), ts, pid, G.hx(sk)), real, ("st.enc", "sseq" + ("-" + why if why else "")))
                if not genuine:
                    nraise += 1
                    if real.startswith("ok "): fail("server-ticket-encrypt-accepted-bad-%s" % why, "ServerTicket.encrypt accepted a %s it must refuse" % {"sk": "session key of the wrong size", "pid": "source id that does not fit the id width", "ts": "time stamp that does not fit 64 bits"}[why])
                    elif (st.timestamp.value(), st.source, st.session_key) != (ts, pid, sk): fail("server-ticket-fields-changed", "a refused ServerTicket.encrypt changed the ticket object's fields")
                    after(op); return
                if [n for n, _ in drawn] != ([16] if ver == 1 else []):
                    fail("server-ticket-randomness-draws-sseq:v%d" % ver, "ServerTicket.encrypt drew randomness %r times" % [n for n, _ in drawn]); return
                plain = struct.pack("<Q", ts) + _pidb(ps, pid) + sk
                if ver == 1:
                    e = ref_envelope(hashlib.md5(key + tk).digest(), plain)
                    want = struct.pack("<I", 16) + tk + struct.pack("<I", len(e)) + e
                else: want = ref_envelope(key, plain)
                if real != "ok " + G.hx(want):
                    fail("server-ticket-reference-sseq:%d/%d/v%d" % (ks, ps, ver), "a genuine ServerTicket.encrypt late in a sequence over one settings object differs from the reference construction (or was refused)", {"reference": want.hex()}); return
                if (st.timestamp.value(), st.source, st.session_key) != (ts, pid, sk): fail("server-ticket-fields-changed", "ServerTicket.encrypt changed the ticket object's fields"); return
                issued["st"].append((key, want, "ok %d %d %s" % (ts, pid, G.hx(sk))))
                after(op)

            def ct_enc(genuine=True, why=""):
                nonlocal nops, nraise
                key = rng.choice(keys)
                sk, pid, internal = rng.randbytes(ks), G.gen_int(rng, 0, 1 << (32 if ps == 4 else 64)), rng.randbytes(rng.choice([0, rng.randint(1, 40)]))
                if why == "sk": sk = rng.randbytes(rng.choice([0, ks - 1, ks + 1, 48 - ks]))
                elif why == "pid": pid = 1 << (32 if ps == 4 else 64)
                t = kerberos.ClientTicket(); t.session_key, t.target, t.internal = sk, pid, internal
                n0 = len(pinned.calls)
                real = wrap(lambda: G.hx(t.encrypt(key, S)))
                drawn = pinned.calls[n0:]
                nops += 1
                op = "ClientTicket.encrypt" + (":bad-" + why if why else "")
                hist.append({"op": op, "key": key.hex(), "session_key": sk.hex(), "target": pid, "internal": internal.hex(), "result": real[:600]})
                B.add("ct.enc %d %d %s %s %d %s" % (ks, ps, G.hx(key), G.hx(sk), pid, G.hx(internal)), real, ("ct.enc", "sseq" + ("-" + why if why else "")))
                if drawn: fail("client-ticket-drew-randomness", "ClientTicket.encrypt drew randomness"); return
                if not genuine:
                    nraise += 1
                    if real.startswith("ok "): fail("client-ticket-encrypt-accepted-bad-%s" % why, "ClientTicket.encrypt accepted a %s it must refuse" % {"sk": "session key of the wrong size", "pid": "target id that does not fit the id width"}[why])
                    elif (t.session_key, t.target, t.internal) != (sk, pid, internal): fail("client-ticket-fields-changed", "a refused ClientTicket.encrypt changed the ticket object's fields")
                    after(op); return
                want = ref_envelope(key, sk + _pidb(ps, pid) + struct.pack("<I", len(internal)) + internal)
                if real != "ok " + G.hx(want):
                    fail("client-ticket-reference-sseq:%d/%d" % (ks, ps), "a genuine ClientTicket.encrypt late in a sequence over one settings object differs from the reference construction (or was refused)", {"reference": want.hex()}); return
                if (t.session_key, t.target, t.internal) != (sk, pid, internal): fail("client-ticket-fields-changed", "ClientTicket.encrypt changed the ticket object's fields"); return
                issued["ct"].append((key, want, "ok %s %d %s" % (G.hx(sk), pid, G.hx(internal))))
                after(op)

            def dec(kind, how="genuine", which=None):
                """decrypt a ticket issued earlier in this sequence: as it is, damaged, or under another key"""
                nonlocal nops, nraise
                if not issued[kind]: return
                key, ct, expect = issued[kind][which if which is not None else rng.randrange(len(issued[kind]))]
                data, k2 = ct, key
                if how == "flip":
                    pos = rng.choice(_flip_positions(rng, ct, ver if kind == "st" else 0))
                    d = bytearray(ct); d[pos] ^= 1 << rng.randrange(8); data = bytes(d)
                elif how == "trunc":
                    data = ct[:rng.choice([0, 1, 4, 19, 20, 23, 24, len(ct) - 17, len(ct) - 16, len(ct) - 1, rng.randrange(len(ct))]) % len(ct)]
                elif how == "wrongkey":
                    cands = [k for k in other_keys(rng, key) if not hmac_equivalent(k, key)]
                    k2 = rng.choice(cands)
                if kind == "st":
                    def f():
                        x = kerberos.ServerTicket.decrypt(data, k2, S)
                        return "%d %d %s" % (x.timestamp.value(), x.source, G.hx(x.session_key))
                    line = "st.dec %d %d %d %s %s" % (ks, ps, ver, G.hx(k2), G.hx(data))
                    op = "ServerTicket.decrypt"
                else:
                    def f():
                        x = kerberos.ClientTicket.decrypt(data, k2, S)
                        return "%s %d %s" % (G.hx(x.session_key), x.target, G.hx(x.internal))
                    line = "ct.dec %d %d %s %s" % (ks, ps, G.hx(k2), G.hx(data))
                    op = "ClientTicket.decrypt"
                n0 = len(pinned.calls)
                real = wrap(f)
                nops += 1
                if how != "genuine": op += ":" + how
                hist.append({"op": op, "key": k2.hex(), "data": data.hex(), "result": real[:600]})
                B.add(line, real, (kind + ".dec", "sseq-" + how))
                if len(pinned.calls) != n0: fail("ticket-decrypt-drew-randomness", "%s drew randomness" % op); return
                if how == "genuine":
                    if real != expect:
                        fail("%s-ticket-roundtrip-sseq:%d/%d/v%d" % ("server" if kind == "st" else "client", ks, ps, ver),
                             "a genuine ticket issued earlier in the sequence is no longer decrypted to its fields (%s) by %s with the same key and the same settings object" % (real[:80], op), {"expected": expect})
                        return
                else:
                    nraise += 1
                    if real.startswith("ok "):
                        fail("%s-ticket-%s-accepted-sseq" % ("server" if kind == "st" else "client", how), "%s accepted a %s" % (op, {"flip": "ticket with one bit flipped", "trunc": "truncated ticket", "wrongkey": "ticket under another key"}[how]),
                             {"original": ct.hex(), "original_key": key.hex()})
                        return
                after(op)

            def genuine_round():
                """what must still work after anything else: old tickets open, new tickets equal the reference and open"""
                for f in (lambda: dec("st", "genuine", 0), lambda: dec("ct", "genuine", 0), st_enc, lambda: dec("st", "genuine", -1), ct_enc, lambda: dec("ct", "genuine", -1)):
                    if dead[0]: return
                    f()

            raising = [lambda: dec("st", "flip"), lambda: dec("st", "trunc"), lambda: dec("st", "wrongkey"),
                       lambda: dec("ct", "flip"), lambda: dec("ct", "trunc"), lambda: dec("ct", "wrongkey"),
                       lambda: st_enc(False, "sk"), lambda: ct_enc(False, "sk"), lambda: st_enc(False, "pid"), lambda: ct_enc(False, "pid"), lambda: st_enc(False, "ts")]
            st_enc()
            if not dead[0]: ct_enc()
            order = list(range(len(raising)))
            rng.shuffle(order)
            # every kind of refused call once per sequence (rotating start), each followed by the genuine round;
            # now and then two refused calls in a row
            take = order if not quick else order[:7]
            i = 0
            while i < len(take) and not dead[0]:
                raising[take[i]]()
                if not dead[0] and rng.random() < 0.25 and i + 1 < len(take):
                    i += 1
                    raising[take[i]]()
                if not dead[0]: genuine_round()
                settle()
                i += 1
    ctx.extra["one_settings_object_sequences"] = nseq
    ctx.extra["one_settings_object_operations"] = nops
    ctx.extra["one_settings_object_refused_operations"] = nraise
