"""C18 — every supported console version yields well-formed, era-consistent requests.

1. translator obligations: per-version tables (ast) -> Nat-coded Lean, kernel-checked Bool checkers
2. exhaustive correspondence: versions x 7 clients x every public call x argument variants, byte-exact
   comparison of the request(s) the real client hands to its request callback with the compiled model
3. set_system_version sweeps (known/unknown versions) vs the model, response classification vs the model
4. property oracles directly on the real code (boundary-only shape changes, that version's values,
   atomic refusal, validation, error mapping)
5. ONE client shared by TWO tasks: setters called at every scheduling point of a call in flight, every single request must be
   the request of one configuration (harness/c18_shared.py)
6. well-formed error documents at the edges of their format x every error status x every call / request (harness/c18_errors.py)
"""
import json, logging, os, re
import anyio
from anynet import http
import vf
import switch_tables as st
import switch_cases as sc
import switch_validation as sv
import c18_unicode as cu
import c18_shared as csh
import c18_errors as cer

LEVEL = "proof"


# ---------------------------------------------------------------------------------------------
def obligations(ctx, data):
    src = st.emit_lean(data)
    lines = src.split("\n")
    where = {}
    for i, l in enumerate(lines):
        m = re.match(r"theorem (\w+)", l)
        if m: where[i + 1] = m.group(1)
    ok, out = ctx.lean_check("SwitchTables_C18", src)
    failed = set()
    for m in re.finditer(r"SwitchTables_C18\.lean:(\d+):\d+: error", out):
        ln = int(m.group(1))
        cands = [k for k in where if k <= ln]
        if cands: failed.add(where[max(cands)])
        else: failed.add("<preamble>")
    if not ok and not failed:
        failed.add("<file>")
    names = [where[k] for k in sorted(where)]
    # a theorem that uses a failed one is not discharged either (Lean keeps elaborating after an error)
    changed = True
    while changed:
        changed = False
        for k in sorted(where):
            if where[k] not in failed and any(re.search(r"\b%s\b" % re.escape(f), lines[k - 1].split(":=", 1)[-1]) for f in failed):
                failed.add(where[k]); changed = True
    for n in names:
        ctx.obligation(n not in failed)
    return failed, out


def language_findings(ctx, mods, data):
    """failing inputs behind a broken `languages_documented`: documented tags the real client rejects,
    undocumented tags it accepts"""
    found = 0

    async def probe(lang):
        case = {"client": "five", "devid": None, "ver": "init", "cfg": {}, "call": "send_invitation",
                "args": ["acc", [1], 1, 2, b"", {lang: "m"}, False, 0]}
        return await sc.run_case(mods, case)

    async def main():
        nonlocal found
        for lang in sc.DOCUMENTED_LANGUAGES:
            r = await probe(lang)
            if not r["ok"]:
                found += 1
                ctx.violation("five-language-rejected:" + lang,
                              "FiveClient.send_invitation rejects the documented language tag %r: %r (five.LANGUAGES = %r)" % (lang, r["exc"], data["languages"]),
                              {"call": "FiveClient().send_invitation('acc', [1], 1, 2, b'', {%r: 'm'})" % lang, "exception": repr(r["exc"]),
                               "LANGUAGES": data["languages"], "fix": "fixes/C18_languages.diff"})
        for lang in data["languages"]:
            if lang not in sc.DOCUMENTED_LANGUAGES:
                r = await probe(lang)
                if r["ok"]:
                    found += 1
                    ctx.violation("five-language-accepted:" + lang,
                                  "FiveClient.send_invitation accepts %r, which is not a documented language tag" % lang,
                                  {"call": "FiveClient().send_invitation('acc', [1], 1, 2, b'', {%r: 'm'})" % lang, "LANGUAGES": data["languages"]})
    anyio.run(main)
    return found


# ---------------------------------------------------------------------------------------------
def build_cases(ctx, versions, quick):
    cases = []
    for client in sc.CLIENTS:
        devids = [0x6265A1B2C3D4E5F6] if client in ("dragons", "sun", "atumn") else [None]
        variants = sc.call_variants(client)
        for ver in ["init"] + versions:
            for devid in devids:
                for call, args, tag in variants:
                    cases.append({"client": client, "devid": devid, "ver": ver, "cfg": {}, "call": call, "args": args, "tag": tag})
        # dragons without a device id: every call but the dauth-style one must refuse
        if client == "dragons":
            for ver in [1412, 1500, 1901]:
                for call, args, tag in variants:
                    cases.append({"client": client, "devid": None, "ver": ver, "cfg": {}, "call": call, "args": args, "tag": tag + "/nodevice"})
        # non-default configuration on a few versions (host / power state / region are values, not shape)
        for ver in [1210, 1701, 1800, 1901]:
            for call, args, tag in variants:
                cfg = {"hosts": ["h1.example:8443", "h2.example", "h3.example"] if client == "dragons" else ["localhost:12345"]}
                if client in ("dauth", "aauth", "baas"): cfg["power"] = "HA"
                if client == "dauth": cfg["region"] = 2
                cases.append({"client": client, "devid": devids[0], "ver": ver, "cfg": cfg, "call": call, "args": args, "tag": tag + "/cfg"})
    return cases


def key_of(case):
    return "%s/%s/%s/%s%s" % (case["client"], case["ver"], case["call"], case["tag"], "" if case["devid"] is not None or case["client"] not in ("dragons",) else "")


# ---------------------------------------------------------------------------------------------
def expected_values(data, client, ver, devid):
    """that version's table values, straight from the ast tables (last duplicate wins, as in Python)"""
    t = {n: dict(p) for n, p in data["tables"].items()}
    fw = t["fw"].get(ver)
    nim = None if devid is None or fw is None else "NintendoSDK Firmware/%s (platform:NX; did:%016x; eid:lp1)" % (fw, devid)
    return {"dauthUA": t["dauthUA"].get(ver), "digest": t["digest"].get(ver), "keygen": t["keygen"].get(ver),
            "dauthApi": t["dauthApi"].get(ver), "aauthUA": t["aauthUA"].get(ver), "aauthApi": t["aauthApi"].get(ver),
            "baasUA": t["baasUA"].get(ver), "fiveUA": t["fiveUA"].get(ver), "nim": nim}


def values_oracle(data, case, res):
    """the captured request carries that version's user agent / API version / key generation / digest. None or text."""
    client, ver = case["client"], case["ver"]
    if ver == "init": ver = data["latest"][client]
    ev = expected_values(data, client, ver, case["devid"])
    for cap in res["caps"]:
        method, path, query, headers, body = sc.split_request(cap["data"])
        hd = dict(headers)
        ua = hd.get("User-Agent")
        form = dict(sc.form_pairs(body.decode())) if body and "json" not in hd.get("Content-Type", "") else {}
        if client == "dauth":
            if ver < 1800 and ua != ev["dauthUA"]: return "dauth user agent %r is not that of %d (%r)" % (ua, ver, ev["dauthUA"])
            if not path.startswith("/v%d/" % ev["dauthApi"]): return "dauth path %s is not API v%d" % (path, ev["dauthApi"])
            if form.get("key_generation") != str(ev["keygen"]): return "key_generation %r is not %r" % (form.get("key_generation"), ev["keygen"])
            if "system_version" in form and form["system_version"] != ev["digest"]: return "system_version digest %r is not that of %d" % (form["system_version"], ver)
            if path.endswith("token") and "system_version" not in form: return "token request without system_version digest"
        elif client == "aauth":
            if ver < 1800 and ua != ev["aauthUA"]: return "aauth user agent %r is not that of %d" % (ua, ver)
            if not path.startswith("/v%d/" % ev["aauthApi"]): return "aauth path %s is not API v%d" % (path, ev["aauthApi"])
        elif client == "baas":
            mod = "nnFriends" if ("/users/" in path and method in ("PATCH", "GET")) else "nnAccount"
            if ua != ev["baasUA"] % mod: return "baas user agent %r is not that of %d" % (ua, ver)
        elif client == "five":
            if ua != ev["fiveUA"]: return "five user agent %r is not that of %d" % (ua, ver)
        elif client == "dragons":
            if case["call"] == "contents_authorization_token_for_aauth":
                if ver < 1800 and ua != ev["dauthUA"]: return "dragons (dauth-style) user agent %r is not that of %d" % (ua, ver)
            elif ua != ev["nim"]: return "dragons user agent %r is not that of %d" % (ua, ver)
        elif client in ("sun", "atumn"):
            if ua != ev["nim"]: return "%s user agent %r is not that of %d" % (client, ua, ver)
    return None


# ---------------------------------------------------------------------------------------------
def mask_random(data):
    """the API-3 auth_digital request carries a ticket encrypted under a fresh random key"""
    return re.sub(rb"(cert|cert_key)=[A-Za-z0-9_%-]+", rb"\1=*", data)


def stateful_walk(ctx, mods, data, versions, cases, results):
    """ONE object per client, switched up and down through all supported versions (unknown versions interleaved),
    every public call after every switch: each request must equal the request a freshly constructed client sends
    for that version (requests are a function of the current configuration, not of the client's history)."""
    fresh = {}
    for c, r in zip(cases, results):
        if not c["cfg"] and c["ver"] != "init" and "/nodevice" not in c["tag"]:
            fresh[(c["client"], c["call"], c["tag"], c["ver"])] = (c, r)
    rng = ctx.rng
    known = set(versions)
    walk = sorted(versions) + sorted(versions, reverse=True)
    extra = list(versions); rng.shuffle(extra)
    walk += extra + extra[:10][::-1]
    unknown = [v for v in [0, 899, 1005, 1702, 1799, 1899, 1902, 2000, 10000] if v not in known]
    steps = []
    for v in walk:
        if rng.random() < 0.25: steps.append(rng.choice(unknown))
        steps.append(v)
    n_calls = [0]

    async def main():
        for client in sc.CLIENTS:
            devid = 0x6265A1B2C3D4E5F6 if client in ("dragons", "sun", "atumn") else None
            variants = sc.call_variants(client)
            # every call, at most three variants each (the first ones listed: the plain / default shapes)
            per, chosen = {}, []
            for call, args, tag in variants:
                if per.get(call, 0) < 3 and not tag.startswith(("lang:", "nolang:")):
                    per[call] = per.get(call, 0) + 1; chosen.append((call, args, tag))
            cl = sc.make_client(mods, client, devid)
            caps = []
            cur = {"call": None}

            async def cb(host, req, context):
                caps.append({"host": host, "data": req.encode()})
                return sc.good_response(client, cur["call"], req)
            cl.set_request_callback(cb)
            current = data["latest"][client]
            history = []
            for v in steps:
                try:
                    cl.set_system_version(v)
                    if v not in known:
                        ctx.violation("set-version-accepts:%s:%d" % (client, v), "%s.set_system_version accepts the unknown version %d" % (client, v), {"client": client, "version": v})
                        continue
                    current = v
                except ValueError:
                    if v in known:
                        ctx.violation("set-version-refuses:%s:%d" % (client, v), "%s.set_system_version refuses %d on a reused client" % (client, v), {"client": client, "version": v, "history": history[-6:]})
                        continue
                history.append(v)
                for call, args, tag in chosen:
                    key = (client, call, tag, current)
                    if key not in fresh: continue
                    fc, fr = fresh[key]
                    caps.clear(); cur["call"] = call
                    try:
                        await sc.invoke(cl, client, call, args)
                        got = ("ok", [(x["host"], mask_random(x["data"])) for x in caps])
                    except Exception as e:
                        got = ("err", sc.exc_name(e))
                    exp = ("ok", [(x["host"], mask_random(x["data"])) for x in fr["caps"]]) if fr["ok"] else ("err", sc.exc_name(fr["exc"]))
                    n_calls[0] += 1
                    ctx.case(key="walk/%s/%s/%s/%d/%d" % (client, call, tag, current, len(history)), nontrivial=True, tag="walk:%s.%s" % (client, call))
                    if got != exp:
                        def show(x): return [d.decode("utf-8", "replace") for _, d in x[1]] if x[0] == "ok" else x[1]
                        ctx.violation("stateful:%s:%s:%d" % (client, call, current),
                                      "%s.%s (%s) on a client that was switched through versions %s sends a different request at %d than a freshly "
                                      "constructed client configured for %d" % (client, call, tag, history[-4:], current, current),
                                      {"client": client, "call": call, "variant": tag, "version": current, "set_system_version_history": history[-12:],
                                       "request_reused_client": show(got), "request_fresh_client": show(exp)})
    anyio.run(main)
    ctx.extra["stateful_walk_calls"] = n_calls[0]
    ctx.extra["stateful_walk_steps"] = len(steps)


# ---------------------------------------------------------------------------------------------
def validation_sweep(ctx, mods, data, versions, drv, tbl_lines, diffs):
    """`input validation accepts exactly the well-formed values it names`: for every validated input of every client the values
    generated by harness/switch_validation.py (mutations of every byte / field the check covers, one at a time and in pairs, and of
    what it does not cover) on fresh clients, on ONE reused client per class, and on the compiled model."""
    rng = ctx.rng
    quick = ctx.tier == "quick"
    api = dict(data["tables"]["aauthApi"])
    api3 = [v for v in versions if api.get(v) == 3]
    api4 = [v for v in versions if api.get(v, 0) >= 4]
    full_ticket = set(api3) if not quick else ({rng.choice(api3)} if api3 else set())
    inv_versions = ["init"] + versions
    if quick:
        pick = {versions[0], versions[-1]} | {v for v in versions if v in (1810, 1900)} | set(rng.sample(versions, 3))
        inv_versions = ["init"] + sorted(pick)
    variants = {c: [x for x in sc.call_variants(c) if x[2] in ("plain", "app", "system")] for c in ("dragons", "sun", "atumn")}
    cases = []
    for v in api3:
        cases += sv.ticket_cases(rng, v, v in full_ticket)
    for v in api4 + ["init"]:
        cases += sv.token_cases(rng, v, not quick)
    for i, v in enumerate(inv_versions):
        cases += sv.invitation_cases(rng, v, (not quick) or i == 0, sc.DOCUMENTED_LANGUAGES)
    for v in ["init"] + versions:
        cases += sv.login_cases(v)
        cases += sv.device_cases(v, variants)
    # non-ASCII text in every input with a length limit / format check (harness/c18_unicode.py): all of it on the constructor
    # default and on one version chosen by the seed, a seed-chosen part on the other invitation versions (all of it everywhere in thorough)
    n0 = len(cases)
    uni_full = {"init", rng.choice(versions)} if quick else set(inv_versions)
    for v in inv_versions + sorted(uni_full - set(inv_versions)):
        cases += cu.cases(rng, v, sc.DOCUMENTED_LANGUAGES, v in uni_full)
    for v in (api4 if not quick else sorted({api4[0], api4[-1], rng.choice(api4)}) if api4 else []) + ["init"]:
        cases += cu.token_cases(rng, v)
    for v in (versions if not quick else sorted({versions[0], versions[-1]} | {x for x in versions if x in (1701, 1800)})) + ["init"]:
        cases += cu.login_cases(v)
    ctx.extra["validation_nonascii_cases"] = len(cases) - n0
    ctx.extra["validation_nonascii_full_versions"] = sorted(str(v) for v in uni_full)

    # the AES key of the API-3 ticket encryption is recorded on its way through (pass-through wrapper) so that the
    # ticket that was sent can be compared with the ticket that was given
    keys = []
    orig_random = getattr(mods["aauth"], "get_random_bytes", None)
    if orig_random is not None:
        def recording(n):
            k = orig_random(n)
            keys.append(k); del keys[:-4]
            return k
        mods["aauth"].get_random_bytes = recording

    def report(c, why, how, extra=None):
        fam = {"ticket": "aauth-ticket", "token": "aauth-token", "invitation": "five-invitation", "login": "baas-login", "device": c["client"] + "-device"}[c["carried"]]
        replay = {"client": c["client"], "version": c["ver"], "call": c["call"], "device_id": c["devid"], "input": c["note"], "expected": c["expect"],
                  "python": sv.describe(c), "args": [x.hex() if isinstance(x, (bytes, bytearray)) else (x if isinstance(x, (int, str, bool, type(None), list)) else repr(x)) for x in c["args"]]}
        if extra: replay.update(extra)
        ctx.violation("validation:%s:%s:%s%s" % (fam, c["ver"], c["tag"], how),
                      "%s.%s at %s, %s: %s" % (c["client"], c["call"], c["ver"], c["note"], why), json.loads(json.dumps(replay, default=repr)))

    results = []

    async def fresh():
        for c in cases:
            try:
                r = await sc.run_case(mods, c)
            except Exception as e:
                r = {"ok": False, "exc": e, "caps": [], "setup_failed": True}
            results.append(r)
            why = sv.judge(c, r, keys)
            ctx.case(key="val/%s/%s/%s/%s" % (c["client"], c["ver"], c["devid"], c["tag"]), nontrivial=True,
                     tag="val:%s.%s:%s" % (c["client"], c["call"], c["expect"]),
                     sample={"case": c["tag"], "version": c["ver"], "expect": c["expect"], "real": sc.real_line(r)[:120]} if ctx.evaluations % 2999 == 0 else None)
            if why: report(c, why, "")

    # ONE object per (client, device id): the same values in another order, versions switched in between; a refusal or an
    # acceptance must not depend on what the object was asked before
    async def reused():
        groups = {}
        for c, r in zip(cases, results):
            if r.get("setup_failed"): continue
            groups.setdefault((c["client"], c["devid"]), {}).setdefault(c["ver"], []).append((c, r))
        n = 0
        for (client, devid), byver in groups.items():
            cl = sc.make_client(mods, client, devid)
            caps, cur = [], {"call": None}
            async def cb(host, req, context, caps=caps, cur=cur, client=client):
                caps.append({"host": host, "data": req.encode()})
                return sc.good_response(client, cur["call"], req)
            cl.set_request_callback(cb)
            order = [v for v in byver if v != "init"]
            rng.shuffle(order)
            for v in order:
                try: cl.set_system_version(v)
                except Exception: continue      # reported by the set_system_version sweeps
                todo = list(byver[v])
                rng.shuffle(todo)
                if quick and len(todo) > 400: todo = todo[:400]
                history = []
                for c, r in todo:
                    caps.clear(); cur["call"] = c["call"]
                    try:
                        await sc.invoke(cl, client, c["call"], c["args"])
                        got = ("ok", [(x["host"], mask_random(x["data"])) for x in caps])
                    except Exception as e:
                        got = ("err", sc.exc_name(e), len(caps))
                    exp = ("ok", [(x["host"], mask_random(x["data"])) for x in r["caps"]]) if r["ok"] else ("err", sc.exc_name(r["exc"]), len(r["caps"]))
                    n += 1
                    if got != exp:
                        why = sv.judge(c, {"ok": got[0] == "ok", "exc": ValueError() if got[1:2] == ("ValueError",) else Exception(got[1]) if got[0] == "err" else None,
                                           "caps": [{"data": d, "host": h} for h, d in got[1]] if got[0] == "ok" else [None] * got[2]}, None) \
                              or "the outcome differs from that of a freshly constructed client"
                        report(c, why + " — on a client that handled %d other call(s) at this version before" % len(history), ":reused",
                               {"previous_calls_on_this_object": history[-5:], "reused": repr(got)[:600], "fresh": repr(exp)[:600]})
                    history.append(c["tag"])
        ctx.extra["validation_reused_calls"] = n

    import time
    t0 = time.time()
    try:
        anyio.run(fresh)
        t1 = time.time()
        anyio.run(reused)
    finally:
        if orig_random is not None:
            mods["aauth"].get_random_bytes = orig_random

    # values that are not version numbers at all: refused, client unchanged (state and next request)
    async def not_versions():
        for client in sc.CLIENTS:
            devid = 0x6265A1B2C3D4E5F6 if client in ("dragons", "sun", "atumn") else None
            call, args = REP_CALL[client]
            for base in ["init", versions[0], 1412, 1800]:
                if base != "init" and base not in versions: continue
                ref = await sc.run_case(mods, {"client": client, "devid": devid, "ver": base, "cfg": {}, "call": call, "args": args})
                for bad in sv.NOT_VERSIONS + cu.not_versions(versions):
                    if isinstance(bad, (int, float)) and not isinstance(bad, bool) and bad in versions: continue
                    if isinstance(bad, bool) and int(bad) in versions: continue
                    cl = sc.make_client(mods, client, devid)
                    caps = []
                    async def cb(host, req, context, caps=caps, client=client, call=call):
                        caps.append(req.encode())
                        return sc.good_response(client, call, req)
                    cl.set_request_callback(cb)
                    if base != "init": cl.set_system_version(base)
                    before = {k: repr(v) for k, v in vars(cl).items() if k != "request_callback"}
                    ctx.case(key="notver/%s/%s/%r" % (client, base, bad), nontrivial=True, tag="val:set_system_version:refuse")
                    try:
                        cl.set_system_version(bad)
                        ctx.violation("set-version-accepts:%s:%r" % (client, bad), "%s.set_system_version accepts %r, which is not a supported version" % (client, bad),
                                      {"client": client, "configured": base, "version": repr(bad)})
                        continue
                    except Exception:
                        pass
                    after = {k: repr(v) for k, v in vars(cl).items() if k != "request_callback"}
                    try:
                        await sc.invoke(cl, client, call, args)
                    except Exception:
                        pass
                    if after != before or caps != [x["data"] for x in ref["caps"]]:
                        ctx.violation("set-version-partial:%s:%r" % (client, bad), "%s.set_system_version(%r) was refused but left the client changed" % (client, bad),
                                      {"client": client, "configured": base, "version": repr(bad),
                                       "changed_attributes": sorted(k for k in set(before) | set(after) if before.get(k) != after.get(k)),
                                       "next_request": [x.decode("utf-8", "replace") for x in caps], "expected_request": [x["data"].decode("utf-8", "replace") for x in ref["caps"]]})
    t2 = time.time()
    anyio.run(not_versions)
    t3 = time.time()

    # the same values on the compiled model
    idx = [i for i, c in enumerate(cases) if c["model"] and not results[i].get("setup_failed")]
    lines = [sc.model_line(cases[i], results[i]) for i in idx]
    outs = drv.batch(tbl_lines + lines)[len(tbl_lines):]
    for i, line, model in zip(idx, lines, outs):
        real = sc.real_line(results[i])
        if real != model:
            diffs.append((cases[i], results[i], line, real, model))
    ctx.traces_validated += len(lines)
    ctx.extra["validation_seconds"] = {"fresh": round(t1 - t0, 1), "reused": round(t2 - t1, 1), "not_versions": round(t3 - t2, 1), "model": round(time.time() - t3, 1)}
    ctx.extra["validation_cases"] = len(cases)
    ctx.extra["validation_model_lines"] = len(lines)
    ctx.extra["validation_full_ticket_versions"] = sorted(full_ticket)
    ctx.extra["validation_invitation_versions"] = [str(v) for v in inv_versions]


# ---------------------------------------------------------------------------------------------
STATUSES = [200, 201, 204, 299, 100, 199, 300, 301, 304, 400, 401, 403, 404, 418, 500, 503, 599]


def error_payloads(client, data):
    """(payload, tag) — every documented code, well-formed and malformed error payloads, success payloads"""
    P = [(None, "nojson"), ({}, "empty-dict"), ([], "empty-list"), ({"value": "v", "count": 3}, "success"), ({"count": 0}, "success2"),
         ([1, 2], "list"), ("text", "str"), (7, "num"), (0, "zero"), (True, "true"), (False, "false")]
    codes = sorted(set(data["errors"].get(client, {}).get({"dauth": "DAuthError", "aauth": "AAuthError", "five": "FiveError"}.get(client, ""), {}).values())
                   | set(v for k, v in data["doc_errors"].get(client, {}).items() if not k.startswith("CLIENT_ID")))
    if client in ("dauth", "aauth"):
        for c in codes:
            P.append(({"errors": [{"code": "%04d" % c, "message": "m%d" % c}]}, "code-str"))
            P.append(({"errors": [{"code": c, "message": "m"}]}, "code-int"))
        P += [({"errors": [{"code": "0004", "message": "a"}, {"code": "0007", "message": "b"}]}, "two-errors"),
              ({"errors": [{"code": " 12 ", "message": None}]}, "code-ws"), ({"errors": [{"code": "-3", "message": 5}]}, "code-neg"),
              ({"errors": [{"code": True, "message": "t"}]}, "code-bool"),
              ({"errors": []}, "mal:empty"), ({"errors": {}}, "mal:dict"), ({"errors": "x"}, "mal:str"), ({"errors": ""}, "mal:emptystr"),
              ({"errors": None}, "mal:null"), ({"errors": 5}, "mal:num"),
              ({"errors": [{"code": "0004"}]}, "mal:nomessage"), ({"errors": [{"message": "m"}]}, "mal:nocode"),
              ({"errors": [{"code": "abc", "message": "m"}]}, "mal:code-text"), ({"errors": [{"code": None, "message": "m"}]}, "mal:code-null"),
              ({"errors": [{"code": "", "message": "m"}]}, "mal:code-empty"), ({"errors": [{"code": [1], "message": "m"}]}, "mal:code-list"),
              ({"errors": ["x"]}, "mal:entry-str"), ({"errors": [[1]]}, "mal:entry-list"), ({"errors": [None]}, "mal:entry-null"),
              ({"errors": [{"code": "0004", "message": "m"}, {"code": "0005"}]}, "mal:second-nomessage"),
              (["errors"], "mal:list-contains"), ("xerrorsx", "mal:str-contains"), ({"error": {"code": 1}}, "other-key")]
    elif client == "baas":
        full = {"type": "t", "errorCode": "invalid_token", "title": "Invalid", "detail": "d", "status": 401, "instance": "i"}
        P += [(dict(full), "full"), (dict(full, errorCode=1234), "code-int"), (dict(full, errorCode=None), "code-null")]
        for k in ["type", "title", "detail", "status", "instance"]:
            d = dict(full); del d[k]
            P.append((d, "mal:no-" + k))
        P += [({"errorCode": "x"}, "mal:only-code"), (["errorCode"], "mal:list-contains"), ("an errorCode!", "mal:str-contains")]
    elif client == "five":
        for c in codes:
            P.append(({"error": {"code": "%04d" % c, "message": "m%d" % c}}, "code-str"))
            P.append(({"error": {"code": c, "message": "m"}}, "code-int"))
        P += [({"error": {"code": "x", "message": "m"}}, "mal:code-text"), ({"error": {"code": "0002"}}, "mal:nomessage"),
              ({"error": {"message": "m"}}, "mal:nocode"), ({"error": "x"}, "mal:str"), ({"error": None}, "mal:null"), ({"error": []}, "mal:list"),
              ({"error": {}}, "mal:empty"), (["error"], "mal:list-contains"), ("terror", "mal:str-contains"), ({"errors": [{"code": 1, "message": ""}]}, "other-key")]
    elif client == "dragons":
        full = {"type": "https://x/errors/invalid_parameter", "title": "Bad", "detail": "d", "number": 1234}
        P += [(dict(full), "full"), (dict(full, **{"invalid-params": [{"name": "n"}]}), "full-params"), (dict(full, number="0042"), "number-str")]
        for k in ["type", "title", "detail", "number"]:
            d = dict(full); del d[k]
            P.append((d, "mal:no-" + k))
        P += [(dict(full, type=5), "mal:type-num"), (dict(full, type=None), "mal:type-null"), (["type"], "mal:list")]
    elif client == "sun":
        P += [({"error": {"code": "0001", "message": "m"}}, "full"), ({"error": {"code": 5, "message": None}}, "code-int"),
              ({"error": {"code": "1"}}, "mal:nomessage"), ({"error": {"message": "m"}}, "mal:nocode"), ({"error": "x"}, "mal:str"),
              ({"error": None}, "mal:null"), ({"other": 1}, "mal:other-key"), (["error"], "mal:list")]
    return P


REP_CALL = {"dauth": ("challenge", []), "aauth": ("auth_system", [1, 2, "t"]), "baas": ("register", ["acc"]),
            "dragons": ("publish_device_linked_elicenses", ["t"]), "five": ("get_inbox", ["acc", 1]), "sun": ("system_update_meta", []),
            "atumn": ("download_content", ["cid"])}


def classify_real(mods, client, res):
    if res["ok"]:
        v = res["value"]
        if client == "atumn": return "ok None"
        return "ok None" if v is None else "ok " + sc.jhex(v)
    e = res["exc"]
    if isinstance(e, http.HTTPResponseError): return "http %d" % e.response.status_code
    m = mods[client]
    typed = {"dauth": "DAuthError", "aauth": "AAuthError", "baas": "BAASError", "dragons": "DragonsError", "five": "FiveError", "sun": "SunError"}.get(client)
    if typed and isinstance(e, getattr(m, typed)):
        if client in ("dauth", "aauth", "five", "sun"): return "typed %s %s" % (sc.jhex(e.code), sc.jhex(e.message))
        if client == "baas": return "typed %s %s" % (sc.jhex(e.name), sc.jhex(e.title))
        if client == "dragons": return "typed %s %s" % (sc.jhex(e.status), sc.jhex(e.title))
    return "raises"


def mapping_oracle(client, status, payload, tag, real, ret="json"):
    """the property on the real code for the unambiguous classes of input. None or text."""
    ok2 = status // 100 == 2
    if ret == "count" and ok2 and tag in ("nojson", "empty-dict", "empty-list"):
        return None if real == "raises" else "a success payload without `count` cannot yield a count, got " + real
    key = {"dauth": "errors", "aauth": "errors", "baas": "errorCode", "five": "error"}.get(client)
    if tag in ("code-str", "code-int", "full", "full-params", "two-errors"):
        if client in ("dragons", "sun") and ok2:
            return None if real.startswith("ok ") else "2xx response with a JSON body should return it, got " + real
        if not real.startswith("typed "): return "a well-formed error payload must raise the typed error, got " + real
        code = {"dauth": lambda: int(payload["errors"][0]["code"]), "aauth": lambda: int(payload["errors"][0]["code"]),
                "five": lambda: int(payload["error"]["code"]), "baas": lambda: payload["errorCode"], "dragons": lambda: payload["number"],
                "sun": lambda: payload["error"]["code"]}[client]()
        if real.split(" ")[1] != sc.jhex(code): return "typed error does not carry the server's code %r" % (code,)
        return None
    if tag in ("nojson", "empty-dict", "empty-list", "success", "success2"):
        if ok2:
            return None if real.startswith("ok ") else "success must return the payload, got " + real
        if client in ("dragons", "sun") and payload:   # these two treat any JSON body of a failed response as an error document
            return None if (real.startswith("typed") or real == "raises") else "failed response with JSON must raise, got " + real
        return None if real == "http %d" % status else "a bare HTTP failure must raise HTTPResponseError, got " + real
    if tag.startswith("mal:") and key is not None:
        return None if not real.startswith("ok ") else "a malformed error payload must not be returned as success: " + real
    return None


# ---------------------------------------------------------------------------------------------
def _cap_violations(ctx, per_family=4):
    """at most `per_family` reports per (kind, client) so that one defect does not flood the output"""
    orig, seen = ctx.violation, {}
    def limited(key, what, replay, no_input=False):
        parts = key.split(":")
        fam = parts[0] + ":" + (parts[1].split(".")[0] if len(parts) > 1 else "")
        is_known = any(k.get("status", "open") == "open" and k["property"] == ctx.prop and k["key"] == key for k in ctx._known)
        if not is_known:
            seen[fam] = seen.get(fam, 0) + 1
            if seen[fam] > per_family: return
        return orig(key, what, replay, no_input)
    ctx.violation = limited


def run(ctx):
    _cap_violations(ctx)
    quick = ctx.tier == "quick"
    logging.disable(logging.CRITICAL)   # the clients log every scripted server error
    mods = sc.load_modules()
    data = st.extract(vf.REPO)
    ctx.rule = ("exhaustive: every key of common.FIRMWARE_VERSIONS (+ the constructor default) x 7 clients x every public call x argument "
                "variants (validation limits, every documented language tag, optional parameters), plus non-default host/power/region; "
                "each real call runs against a scripted request callback and every request handed to it is compared byte for byte with "
                "the compiled Lean model; set_system_version swept over 880..1930 and outliers; response classification over "
                "status x payload (every documented error code, malformed payloads); per call and per feature (method / header order / "
                "query keys / body keys / outcome) the captured real requests may change only at the boundaries documented for that call; ONE "
                "object per client is walked up and down through all versions (unknown ones interleaved, order from the seed) with every public "
                "call after every switch and must send exactly the fresh-client request; ONE object shared by TWO tasks: a second task calls every "
                "setter (version pairs across every boundary / extremes / seed-chosen, host(s), power state, region, TLS context, certificate, callback, "
                "all at once, there and back) at EVERY scheduling point of every public call and each single request must be the request of one "
                "configuration; well-formed error documents at the edges of their format (problem type forms, optional members, code spellings, texts) x "
                "every error status x every call / request of the call must raise the documented class with the server's values. A case is non-trivial when it issues a request or "
                "is refused by a validation rule; distinct = distinct (client, version, call, variant)")
    # second reader of the tables
    for p in st.crosscheck_import(data, "nintendo.switch"):
        ctx.corr_break("switch-table-translation", p, {"detail": p})
    dup = [(n, k) for n, pairs in data["tables"].items() for k in {k for k, _ in pairs} if [x for x, _ in pairs].count(k) > 1]

    # ---- 1. generated obligations
    failed, out = obligations(ctx, data)
    ctx.extra["generated_obligations_failed"] = sorted(failed)

    versions = sorted({k for k, _ in data["tables"]["fw"]})
    drv = ctx.driver()
    tbl_lines = st.driver_lines(data)

    # ---- 2. request correspondence + oracles
    cases = build_cases(ctx, versions, quick)
    results = []

    async def run_all():
        for c in cases:
            try:
                results.append(await sc.run_case(mods, c))
            except Exception as e:   # constructor or set_system_version failed
                results.append({"ok": False, "exc": e, "caps": [], "setup_failed": True})
    anyio.run(run_all)

    lines = [sc.model_line(c, r) for c, r in zip(cases, results)]
    outs = drv.batch(tbl_lines + lines)[len(tbl_lines):]
    diffs = []
    shapes = {}
    for c, r, line, model in zip(cases, results, lines, outs):
        real = sc.real_line(r)
        nontrivial = bool(r["caps"]) or not r["ok"]
        ctx.case(key=key_of(c), nontrivial=nontrivial, tag="%s.%s:%s" % (c["client"], c["call"], "ok" if r["ok"] else sc.exc_name(r["exc"])),
                 sample={"case": key_of(c), "line": line[:160], "real": real[:200]} if ctx.evaluations % 1499 == 0 else None)
        if real != model:
            diffs.append((c, r, line, real, model))
        # oracle: that version's values
        if r["ok"]:
            why = values_oracle(data, c, r)
            if why:
                ctx.violation("values:%s:%s:%s" % (c["client"], c["call"], c["ver"]), "request does not carry that version's values: " + why,
                              {"case": key_of(c), "why": why, "requests": [x["data"].decode("utf-8", "replace") for x in r["caps"]]})
            for cap in r["caps"]:
                if not cap["ctx_ok"] or (c["client"] != "dragons" and "hosts" in c["cfg"] and cap["host"] != c["cfg"]["hosts"][0]):
                    ctx.violation("callback-args:%s:%s" % (c["client"], c["call"]), "request callback did not receive the configured host/context",
                                  {"case": key_of(c), "host": cap["host"]})
        # collect shapes for the boundary oracle (default configuration, a device id where one is needed)
        if not c["cfg"] and c["ver"] != "init" and "/nodevice" not in c["tag"]:
            sh = ("err", sc.exc_name(r["exc"])) if not r["ok"] else tuple(sc.shape_of(x["data"]) for x in r["caps"])
            shapes.setdefault((c["client"], c["call"], c["tag"]), {})[c["ver"]] = (sh, r)
    ctx.traces_validated = len(lines)

    # oracle: every feature of every public call changes only at the boundaries documented *for that call and feature*,
    # and the changes the changelog names do happen there (directly on the captured real requests)
    for (client, call, tag), byver in shapes.items():
        vs = sorted(byver)
        allowed = sc.era_allowed(client, call)
        feats = {v: sc.features_of(byver[v][1]) for v in vs}
        def reqs(v): return [x["data"].decode("utf-8", "replace") for x in byver[v][1]["caps"]] or [repr(byver[v][1].get("exc"))]
        for a, b in zip(vs, vs[1:]):
            for f in sc.era_diff(feats[a], feats[b]):
                if not any(a < x <= b for x in allowed[f]):
                    ctx.violation("era:%s:%s:%s:%d-%d" % (client, call, f, a, b),
                                  "%s.%s (%s): the %s of the request change between %d and %d; the documentation and the tables allow a change of this "
                                  "feature of this call only at %s" % (client, call, tag, f, a, b, sorted(allowed[f]) or "no version"),
                                  {"client": client, "call": call, "variant": tag, "feature": f, "versions": [a, b], "allowed_boundaries": sorted(allowed[f]),
                                   "request_a": reqs(a), "request_b": reqs(b)})
        for f, bd in sc.era_required(client, call, tag):
            lo = [v for v in vs if v < bd]; hi = [v for v in vs if v >= bd]
            if lo and hi and feats[lo[-1]][0] == "ok" and feats[hi[0]][0] == "ok" and f not in sc.era_diff(feats[lo[-1]], feats[hi[0]]):
                ctx.violation("era-missing:%s:%s:%s:%d" % (client, call, f, bd),
                              "%s.%s (%s): the %s of the request must change at %d (docs/changelog.md) but are the same at %d and %d"
                              % (client, call, tag, f, bd, lo[-1], hi[0]),
                              {"client": client, "call": call, "variant": tag, "feature": f, "boundary": bd, "versions": [lo[-1], hi[0]],
                               "request_a": reqs(lo[-1]), "request_b": reqs(hi[0])})

    stateful_walk(ctx, mods, data, versions, cases, results)

    # ONE client shared by TWO tasks: a setter called while a call is in flight (harness/c18_shared.py)
    csh.run(ctx, mods, versions, drv, tbl_lines, diffs)

    # oracle: validation accepts exactly the well-formed values
    for c, r in zip(cases, results):
        t = c["tag"].split("/")[0]
        if c["client"] == "five" and c["call"] == "send_invitation":
            want_ok = t in ("plain", "empty", "limits-ok") or t.startswith("lang:")
            if t.startswith("lang:") and not r["ok"]:
                continue   # reported once, below, with the known-finding key
            if t.startswith("nolang:") and t[7:] in data["languages"]:
                continue   # likewise (an undocumented tag that the list contains)
            if want_ok != r["ok"]:
                ctx.violation("validation:five:%s" % t, "send_invitation validation is wrong for variant %s: %s" % (t, "rejected" if want_ok else "accepted"),
                              {"case": key_of(c), "args": repr(c["args"])[:400], "exception": repr(r.get("exc"))})
        if c["client"] == "baas" and c["call"] == "login" and c["ver"] != "init" and t == "no-country":
            if (c["ver"] >= 1800) == r["ok"]:
                ctx.violation("validation:baas-login:%s" % c["ver"], "na_country must be required from 18.0.0 on and only then",
                              {"case": key_of(c), "exception": repr(r.get("exc"))})
    if language_findings(ctx, mods, data) == 0 and "languages_documented" in failed:
        ctx.corr_break("languages_documented", "five.LANGUAGES is not the documented list but the real validation shows no difference", {"languages": data["languages"]})

    validation_sweep(ctx, mods, data, versions, drv, tbl_lines, diffs)

    # ---- 3. set_system_version sweeps
    sweep = list(range(880, 1931)) + [0, 1, 9, 90, 10000, 190100, 1901, 1002]
    sv_lines, sv_real = [], []
    ATTRS = {"dauth": ["system_version", "user_agent", "system_digest", "key_generation", "api_version"],
             "aauth": ["system_version", "user_agent", "api_version"], "baas": ["system_version", "user_agent"],
             "five": ["system_version", "user_agent"], "dragons": ["system_version", "user_agent_nim", "user_agent_dauth"],
             "sun": ["user_agent"], "atumn": ["user_agent"]}

    def show_state(cl, client):
        out = []
        for a in ATTRS[client]:
            v = getattr(cl, a)
            out.append("None" if v is None else (str(v) if isinstance(v, int) else sc.hx(v)))
        return " ".join(out)

    for client in sc.CLIENTS:
        for devid in ([0xABCDEF0123] if client in ("sun", "atumn") else [None, 0xABCDEF0123] if client == "dragons" else [None]):
            cl = sc.make_client(mods, client, devid)
            groups = ["ok " + show_state(cl, client)]
            for v in sweep:
                before = show_state(cl, client)
                try:
                    cl.set_system_version(v)
                    groups.append("ok " + show_state(cl, client))
                    known = v in versions
                    if not known:
                        ctx.violation("set-version-accepts:%s:%d" % (client, v), "%s.set_system_version accepts the unknown version %d" % (client, v), {"client": client, "version": v})
                    else:
                        ev = expected_values(data, client, v, devid)
                        exp = {"dauth": [str(v), sc.hx(ev["dauthUA"] or ""), sc.hx(ev["digest"] or ""), str(ev["keygen"]), str(ev["dauthApi"])],
                               "aauth": [str(v), sc.hx(ev["aauthUA"] or ""), str(ev["aauthApi"])], "baas": [str(v), sc.hx(ev["baasUA"] or "")],
                               "five": [str(v), sc.hx(ev["fiveUA"] or "")],
                               "dragons": [str(v), "None" if ev["nim"] is None else sc.hx(ev["nim"]), sc.hx(ev["dauthUA"] or "")],
                               "sun": [sc.hx(ev["nim"] or "")], "atumn": [sc.hx(ev["nim"] or "")]}[client]
                        if show_state(cl, client).split(" ") != exp:
                            ctx.violation("set-version-row:%s:%d" % (client, v), "%s.set_system_version(%d) does not take every field from that version's row" % (client, v),
                                          {"client": client, "version": v, "state": show_state(cl, client), "expected": exp})
                except Exception as e:
                    after = show_state(cl, client)
                    groups.append("err %s %s" % (sc.exc_name(e), after))
                    if after != before:
                        ctx.violation("set-version-partial:%s:%d" % (client, v), "%s.set_system_version(%d) raised %r and left the client changed" % (client, v, e),
                                      {"client": client, "version": v, "before": before, "after": after})
                    elif v in versions:
                        ctx.violation("set-version-refuses:%s:%d" % (client, v), "%s.set_system_version refuses the supported version %d: %r" % (client, v, e), {"client": client, "version": v})
                ctx.case(key="setver/%s/%s/%d" % (client, devid, v), nontrivial=True, tag="setver:" + groups[-1].split(" ")[0])
            sv_real.append(";".join(groups))
            sv_lines.append("setver %s %s %s" % (client, "none" if devid is None else devid, " ".join(str(v) for v in sweep)))
    sv_out = drv.batch(tbl_lines + sv_lines)[len(tbl_lines):]
    for line, real, model in zip(sv_lines, sv_real, sv_out):
        if real != model:
            rg, mg = real.split(";"), model.split(";")
            i = next((i for i, (x, y) in enumerate(zip(rg, mg)) if x != y), min(len(rg), len(mg)))
            diffs.append(({"client": line.split(" ")[1], "call": "set_system_version", "ver": (["init"] + sweep)[i] if i < len(sweep) + 1 else "?", "tag": "sweep", "devid": None},
                          None, line[:80] + " …", rg[i] if i < len(rg) else "<missing>", mg[i] if i < len(mg) else "<missing>"))
    ctx.traces_validated += len(sv_lines) * (len(sweep) + 1)

    # ---- 4. response classification
    rlines, rreal, rmeta = [], [], []
    rcases = []
    for client in sc.CLIENTS:
        payloads = error_payloads(client, data)
        calls = [(REP_CALL[client][0], REP_CALL[client][1])]
        if not quick or True:
            calls += [(call, args) for call, args, tag in sc.call_variants(client) if tag in ("plain", "baas", "default", "app") and call != REP_CALL[client][0]]
        for ci, (call, args) in enumerate(calls):
            for status in (STATUSES if ci == 0 else [200, 404, 500]):
                for payload, tag in payloads:
                    if ci > 0 and not (tag in ("nojson", "success", "code-str", "full") or tag.startswith("mal:no")):
                        continue
                    if client in ("dauth", "atumn") and call in ("device_token", "edge_token", "download_content_metadata") :
                        continue   # two-step calls: the first response must be a success for the second request to exist
                    rcases.append((client, call, args, status, payload, tag))

    async def run_resp():
        for client, call, args, status, payload, tag in rcases:
            def responder(i, req, status=status, payload=payload):
                r = http.HTTPResponse(status)
                if payload is not None: r.json = payload
                if client == "atumn": r.body = b"\x01"
                return r
            case = {"client": client, "devid": 0x1234 if client in ("dragons", "sun", "atumn") else None, "ver": "init", "cfg": {}, "call": call, "args": args}
            res = await sc.run_case(mods, case, responder)
            rreal.append(classify_real(mods, client, res))
    anyio.run(run_resp)
    for client, call, args, status, payload, tag in rcases:
        toks = ["-"] if payload is None else sc.to_jtokens(payload)
        rlines.append("resp %s %s %d %s" % (client, sc.ret_kind(client, call), status, " ".join(toks)))
    rout = drv.batch(rlines)
    for (client, call, args, status, payload, tag), line, real, model in zip(rcases, rlines, rreal, rout):
        ctx.case(key="resp/%s/%s/%d/%s/%s" % (client, call, status, tag, json.dumps(payload, sort_keys=True)[:40]), nontrivial=True,
                 tag="resp:%s:%s" % (client, model.split(" ")[0]),
                 sample={"resp": [client, call, status, payload], "model": model[:100], "real": real[:100]} if ctx.evaluations % 1999 == 0 else None)
        if real != model:
            diffs.append(({"client": client, "call": call, "ver": "init", "tag": "resp:%d:%s" % (status, tag), "devid": None}, None, line, real, model))
        why = mapping_oracle(client, status, payload, tag, real, sc.ret_kind(client, call))
        if why:
            ctx.violation("error-mapping:%s:%s:%s" % (client, tag, status), "%s.%s with status %d and payload %r: %s" % (client, call, status, payload, why),
                          {"client": client, "call": call, "status": status, "payload": payload, "real": real, "why": why})
    ctx.traces_validated += len(rlines)

    # error documents at the edges of their format, every error status, every call and every request of it (harness/c18_errors.py)
    cer.run(ctx, mods, data, drv, diffs)

    # ---- failing obligations -> failing inputs
    for name in sorted(failed):
        if name in ("languages_documented", "validation_actual", "hyp_languages"):
            continue   # handled by language_findings
        if name.startswith("hyp_") or name.endswith("_actual"):
            continue   # consequences of the named obligations above
        replay = {"obligation": name, "lean_output": out[-1500:]}
        if name == "no_duplicate_keys" and dup:
            for n, k in dup:
                ctx.violation("table-duplicate-key:%s:%d" % (n, k), "dict literal %s repeats key %d (the earlier entry is silently dropped)" % (n, k), dict(replay, table=n, key=k))
            continue
        if name in ("same_key_sets", "atomic_actual", "count_41", "ascending_keys", "shape_actual"):
            fwk = set(versions)
            found = False
            for n, pairs in data["tables"].items():
                ks = {k for k, _ in pairs}
                for k in sorted(fwk ^ ks):
                    found = True
                    ctx.violation("table-keys:%s:%d" % (n, k), "table %s and FIRMWARE_VERSIONS disagree on version %d" % (n, k), dict(replay, table=n, version=k))
            if found or any(v[0].startswith("set-version") or v[0].startswith("table-") for v in ctx.violations): continue
        if any(not v[3] for v in ctx.violations) or ctx.known_hits:
            # a concrete failing input was already reported by the oracles; name the table entry as well if we can
            pass
        entry = first_bad_entry(name, data)
        if entry:
            ctx.violation("table-entry:%s:%s" % (name, entry[0]), "era-consistency obligation %s fails at %s" % (name, entry[1]), dict(replay, entry=entry[1]))
        elif not ctx.violations:
            ctx.corr_break(name, "generated obligation %s no longer checks" % name, replay)

    if diffs and not [v for v in ctx.violations if not v[3]] and not ctx.known_hits:
        c, r, line, real, model = diffs[0]
        ctx.corr_break("switch-model-correspondence", "real client and Lean model disagree on %d case(s)" % len(diffs),
                       {"first_case": "%s/%s/%s/%s" % (c["client"], c["ver"], c["call"], c["tag"]), "line": line[:2000], "real": real[:3000], "model": model[:3000]})
    ctx.extra["correspondence_lines"] = len(lines) + len(sv_lines) + len(rlines)
    ctx.extra["correspondence_diffs"] = len(diffs)
    ctx.extra["versions"] = len(versions)
    ctx.extra["request_cases"] = len(cases)
    ctx.extra["response_cases"] = len(rcases)
    ctx.extra["first_diffs"] = [{"case": "%s/%s/%s/%s" % (d[0]["client"], d[0]["ver"], d[0]["call"], d[0]["tag"]), "real": d[3][:300], "model": d[4][:300]} for d in diffs[:3]]
    ctx.exhaustive = True


def first_bad_entry(name, data):
    """Python re-statement of the era-consistency checkers, used only to name the offending table entry"""
    t = data["tables"]
    def sdk(ua):
        m = re.search(r"SDK (\d+)\.(\d+)\.(\d+)\.(\d+)", ua)
        return m.group(0)[4:] if m else None
    try:
        if name in ("sdk_consistent", "sdk_monotone"):
            prev = 0
            for v, ua in t["dauthUA"]:
                s = sdk(ua)
                if s is None or int(s.split(".")[0]) != v // 100: return ("dauthUA:%d" % v, "dauth.USER_AGENT[%d] = %r (SDK major must be %d)" % (v, ua, v // 100))
                for n in ("aauthUA", "baasUA", "fiveUA"):
                    u = dict(t[n]).get(v)
                    if u is None or sdk(u) != s or ("Add-on " + s) not in u: return ("%s:%d" % (n, v), "%s[%d] = %r does not name SDK %s" % (n, v, u, s))
        if name in ("firmware_spelling", "aliases_agree"):
            prev = None
            for v, s in t["fw"]:
                m = re.match(r"(\d+)\.(\d)\.(\d)-.+", s)
                if not ((m and int(m.group(1)) * 100 + int(m.group(2)) * 10 + int(m.group(3)) == v) or s == prev):
                    return ("fw:%d" % v, "FIRMWARE_VERSIONS[%d] = %r" % (v, s))
                prev = s
        if name in ("digest_spelling", "aliases_agree"):
            prev = None
            for v, s in t["digest"]:
                m = re.match(r"CusHY#00([0-9a-f]{2})([0-9a-f]{2})([0-9a-f]{2})#[A-Za-z0-9_-]{43}=$", s)
                if not ((m and int(m.group(1), 16) * 100 + int(m.group(2), 16) * 10 + int(m.group(3), 16) == v) or s == prev):
                    return ("digest:%d" % v, "SYSTEM_VERSION_DIGEST[%d] = %r" % (v, s))
                prev = s
        if name == "aliases_agree":
            dg = dict(t["digest"])
            for v, s in t["fw"]:
                m = re.match(r"(\d+)\.(\d)\.(\d)-.+", s)
                fw_spells = bool(m and int(m.group(1)) * 100 + int(m.group(2)) * 10 + int(m.group(3)) == v)
                d = dg.get(v, "")
                m = re.match(r"CusHY#00([0-9a-f]{2})([0-9a-f]{2})([0-9a-f]{2})#", d)
                dg_spells = bool(m and int(m.group(1), 16) * 100 + int(m.group(2), 16) * 10 + int(m.group(3), 16) == v)
                if fw_spells != dg_spells:
                    return ("digest:%d" % v, "version %d: FIRMWARE_VERSIONS says %r but SYSTEM_VERSION_DIGEST is %r (a device_token request at %d sends another version's digest)" % (v, s, d, v))
        if name in ("columns_monotone", "api_era_constant", "api_steps_documented"):
            steps = {"keygen": None, "dauthApi": [1300], "aauthApi": [1500, 1900]}
            for n in ("keygen", "dauthApi", "aauthApi"):
                pairs = sorted(t[n])
                for (a, x), (b, y) in zip(pairs, pairs[1:]):
                    if y < x: return ("%s:%d" % (n, b), "%s decreases from %d (%d) to %d (%d)" % (n, x, a, y, b))
                    if steps[n] is not None and x != y and not any(a < s <= b for s in steps[n]):
                        return ("%s:%d" % (n, b), "%s steps from %d to %d between %d and %d, not a documented boundary" % (n, x, y, a, b))
        if name == "latest_is_max":
            mx = max(k for k, _ in t["fw"])
            for c, v in data["latest"].items():
                if v != mx: return ("latest:%s" % c, "%s.LATEST_VERSION = %d but the largest supported version is %d" % (c, v, mx))
            return ("doc-range", "documented range %r vs keys %d..%d" % (data["doc_range"], min(k for k, _ in t["fw"]), mx))
        if name == "baas_templates":
            for v, u in t["baasUA"]:
                if u.count("%") != 1 or "%s" not in u: return ("baasUA:%d" % v, "baas.USER_AGENT[%d] = %r" % (v, u))
        if name == "count_41":
            return ("count", "%d supported versions, the property names 41" % len(t["fw"]))
    except Exception as e:
        return ("checker-crash", repr(e))
    return None
