import NxModel.Bytes
/-! helpers shared by the line-protocol drivers -/
namespace Nx

def chomp (s : String) : String :=
  let l := s.toList.reverse.dropWhile (fun c => c == '\n' || c == '\r')
  String.ofList l.reverse

/-- stateless driver: one output line per input line -/
partial def runLines (step : String → String) : IO Unit := do
  let i ← IO.getStdin
  let o ← IO.getStdout
  let rec go : IO Unit := do
    let line ← i.getLine
    if line.isEmpty then return ()
    o.putStrLn (step (chomp line))
    go
  go

/-- stateful driver -/
partial def runState {σ : Type} (init : σ) (step : σ → String → σ × String) : IO Unit := do
  let i ← IO.getStdin
  let o ← IO.getStdout
  let rec go (s : σ) : IO Unit := do
    let line ← i.getLine
    if line.isEmpty then return ()
    let (s', out) := step s (chomp line)
    o.putStrLn out
    go s'
  go init

def words (s : String) : List String := (s.splitOn " ").filter (· ≠ "")

end Nx
