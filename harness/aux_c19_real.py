"""Wrappers that run the real NintendoClients helpers for the C19 correspondence and map their
exceptions to the `Nx.Err` names. Nothing here re-implements the library; it only calls it."""
import asyncio, base64, hashlib, struct, os, tempfile
from anynet import http, streams as astreams
from nintendo import miis, nasc, nnas
from nintendo import switch as nswitch
from nintendo.switch import dauth, aauth
from nintendo.nex import hpp, settings as nexsettings, common as nexcommon, kerberos


def exc_name(e):
    if isinstance(e, struct.error): return "StructError"
    if isinstance(e, UnicodeError): return "UnicodeError"
    if isinstance(e, OverflowError): return "OverflowError"
    if isinstance(e, ValueError): return "ValueError"
    if isinstance(e, TypeError): return "TypeError"
    if isinstance(e, IndexError): return "IndexError"
    if isinstance(e, KeyError): return "KeyError"
    if isinstance(e, ZeroDivisionError): return "ZeroDivisionError"
    return "Other:" + type(e).__name__


def hx(b): return b.hex() if b else "-"
def cps(s): return ",".join(str(ord(c)) for c in s) if s else "-"
def unhx(s): return b"" if s == "-" else bytes.fromhex(s)

_loop = None
def run(coro):
    global _loop
    if _loop is None:
        _loop = asyncio.new_event_loop()
    return _loop.run_until_complete(coro)


# ------------------------------------------------------------------ Mii
def mii_object(names, kinds, vals):
    m = miis.MiiData()
    for n, k, v in zip(names, kinds, vals):
        if k in ("flag", "flagBits") and isinstance(v, int) and v in (0, 1) and v is not True and v is not False:
            pass
        if k == "raw": v = bytes(v)
        elif k == "wstr": v = "".join(chr(c) for c in v)
        elif k == "u8s": v = list(v)
        setattr(m, n, v)
    return m


def mii_build(names, kinds, vals):
    try:
        return "ok " + hx(mii_object(names, kinds, vals).build())
    except Exception as e:
        return "err " + exc_name(e)


def mii_vals_of(m, names, kinds):
    out = []
    for n, k in zip(names, kinds):
        v = getattr(m, n)
        if k == "raw": out.append(list(v))
        elif k == "wstr": out.append([ord(c) for c in v])
        elif k == "u8s": out.append(list(v))
        else: out.append(int(v))
    return out


def show_vals(vals):
    return " ".join(("l:" + (",".join(map(str, v)) if v else "-")) if isinstance(v, list) else str(v) for v in vals)


def mii_parse(names, kinds, data):
    try:
        m = miis.MiiData.parse(data)
    except Exception as e:
        return "err " + exc_name(e)
    return "ok " + show_vals(mii_vals_of(m, names, kinds))


def mii_swap(data):
    try:
        return "ok " + hx(miis.MiiData().swap_endian(data))
    except Exception as e:
        return "err " + exc_name(e)


def bits_write(ws, vs):
    s = astreams.BitStreamOut(">")
    for w, v in zip(ws, vs):
        if w == 8 and v < 256 and (v & 1): s.u8(v)          # exercises write() at any alignment
        elif w == 16 and v < 65536 and (v & 1): s.u16(v)
        elif w == 1 and v < 2: s.bit(v)
        else: s.bits(v, w)
    return "ok " + hx(s.get())


def bits_read(ws, data, how):
    s = astreams.BitStreamIn(data, ">")
    out = []
    try:
        for w, h in zip(ws, how):
            if w == 8 and h: out.append(s.u8())
            elif w == 16 and h: out.append(s.u16())
            elif w == 1 and h: out.append(s.bit())
            else: out.append(s.bits(w))
    except Exception as e:
        return "err " + exc_name(e)
    return "ok " + (",".join(map(str, out)) if out else "-")


# ------------------------------------------------------------------ base64 family
def wrap(f, *a, text=False):
    try:
        r = f(*a)
    except Exception as e:
        return "err " + exc_name(e)
    if isinstance(r, str): r = r.encode("ascii")
    return "ok " + hx(r)


def url_enc_nopad(d): return base64.b64encode(d, b"-_").decode().rstrip("=")
def url_dec_repad(data):
    # verbatim from DAuthClient.device_token / edge_token (the library has no helper for it);
    # the same path is exercised through the real client in `dauth_token`
    if len(data) % 4 != 0:
        data += "=" * (4 - len(data) % 4)
    return base64.b64decode(data, "-_")


def form_pairs(d):
    return " ".join(hx(k.encode() if isinstance(k, str) else k) + " " + hx(v.encode() if isinstance(v, str) else v) for k, v in d.items()) if d else "-"


# ------------------------------------------------------------------ dauth
def dauth_client(keys, version=None):
    c = dauth.DAuthClient(keys)
    if version is not None: c.set_system_version(version)
    return c


def dauth_mac(kek, master, keygen_name, data, form):
    keys = {"aes_kek_generation_source": kek, keygen_name: master}
    c = dauth.DAuthClient(keys)
    c.key_generation = int(keygen_name[-2:], 16) + 1
    try:
        return "ok " + hx(c.calculate_mac(form, data).encode())
    except Exception as e:
        return "err " + exc_name(e)


def dauth_token(keys, version, region, challenge, data_text, client_id, edge, vendor, client=None):
    """runs the real device_token/edge_token against a scripted server; returns (result line, captured request, client).
    With `client` the SAME DAuthClient object is reused (set_system_version / set_platform_region applied to it)."""
    c = dauth.DAuthClient(keys) if client is None else client
    if version is not None: c.set_system_version(version)
    if region is not None: c.set_platform_region(region)
    cap = []
    async def cb(host, req, ctx):
        cap.append(req)
        r = http.HTTPResponse(200)
        if req.path.endswith("/challenge"):
            r.json = {"challenge": challenge, "data": data_text}
        else:
            r.json = {"device_auth_token": "t", "dtoken": "t"}
        return r
    c.set_request_callback(cb)
    try:
        if edge: run(c.edge_token(client_id, vendor))
        else: run(c.device_token(client_id))
    except Exception as e:
        return "err " + exc_name(e), None, c
    raw = dict(cap[1].rawform)
    mac = raw.pop("mac")
    form = "&".join("%s=%s" % (k, v) for k, v in raw.items())   # the order the library put them in
    return "ok " + hx(mac.encode()) + " " + hx(form.encode()), cap[1], c


# ------------------------------------------------------------------ aauth
def make_ticket(rng, title_id, rev=None, bad=None):
    t = bytearray(rng.randbytes(0x2C0))
    struct.pack_into("<I", t, 0, 0x10004)
    struct.pack_into(">Q", t, 0x2A0, title_id)
    rev = t[0x285] if rev is None else rev
    t[0x285] = rev
    struct.pack_into(">Q", t, 0x2A8, rev)
    if bad == "size": t = t[:-1] if rng.random() < 0.5 else t + b"\0"
    elif bad == "sig": struct.pack_into("<I", t, 0, rng.choice([0x10003, 0x10005, 0x04000100, 0]))
    elif bad == "title": struct.pack_into(">Q", t, 0x2A0, title_id ^ (1 << rng.randrange(64)))
    elif bad == "rev": struct.pack_into(">Q", t, 0x2A8, rev ^ (1 << rng.randrange(64)))
    return bytes(t)


def aauth_digital(version, title_id, title_version, ticket, plain_key, seed, modulus=None, exponent=None, client=None):
    """real AAuthClient.auth_digital with both RNG draws pinned; returns (line, form dict).
    With `client` the SAME AAuthClient object is reused."""
    import Crypto.Random
    c = aauth.AAuthClient() if client is None else client
    c.set_system_version(version)
    cap = []
    async def cb(host, req, ctx):
        cap.append(req)
        r = http.HTTPResponse(200); r.json = {"application_auth_token": "t"}
        return r
    c.set_request_callback(cb)
    saved = (aauth.get_random_bytes, Crypto.Random.get_random_bytes, aauth.RSA_MODULUS, aauth.RSA_EXPONENT)
    draws = []
    def fake_key(n):
        draws.append(("key", n)); return plain_key[:n]
    def fake_seed(n):
        draws.append(("seed", n)); return seed[:n]
    aauth.get_random_bytes = fake_key
    Crypto.Random.get_random_bytes = fake_seed
    if modulus: aauth.RSA_MODULUS, aauth.RSA_EXPONENT = modulus, exponent
    try:
        run(c.auth_digital(title_id, title_version, "devtoken", ticket))
    except Exception as e:
        return "err " + exc_name(e), None
    finally:
        aauth.get_random_bytes, Crypto.Random.get_random_bytes, aauth.RSA_MODULUS, aauth.RSA_EXPONENT = saved
    form = dict(cap[0].form)
    if "cert_key" not in form:
        return "nocertkey", form
    return "ok " + hx(form["cert"].encode()) + " " + hx(form["cert_key"].encode()), form


# ------------------------------------------------------------------ hpp
class FakeResp:
    def __init__(self, status, body): self.status_code, self.body = status, body
    def error(self): return self.status_code // 100 != 2


def hpp_client(settings, pid, password, game_server_id=0x12345678, nex_version="3.10.0"):
    """the real constructor; on this tree it raises FileNotFoundError (finding D6, property C20: doubled certificate
    path), so `resources.certificate` is stubbed for the duration of the call — everything else is the library's"""
    saved = (hpp.resources.certificate, hpp.tls.TLSContext.set_authority)
    hpp.resources.certificate = lambda name: None
    hpp.tls.TLSContext.set_authority = lambda self, ca: None
    try:
        return hpp.HppClient(settings, game_server_id, nex_version, pid, password)
    finally:
        hpp.resources.certificate, hpp.tls.TLSContext.set_authority = saved


def hpp_request(settings, pid, password, call_id, protocol, method, body, status, resp_body, client=None):
    """returns (signature line, validation line). With `client` the SAME HppClient is reused and its own
    call-id counter is left alone (call_id is then only what the scripted response was built for)."""
    if client is None:
        c = hpp_client(settings, pid, password)
        c.call_id = call_id
    else:
        c = client
    cap = []
    async def fake_request(host, req, ctx):
        cap.append(req)
        return FakeResp(status, resp_body)
    saved = hpp.http.request
    hpp.http.request = fake_request
    try:
        try:
            r = run(c.request(protocol, method, body))
            val = "body " + hx(r)
        except nexcommon.RMCError as e:
            val = "rmcerror %d" % e.code()
        except Exception as e:
            val = "err " + exc_name(e)
    finally:
        hpp.http.request = saved
    if not cap:
        return None, val
    req = cap[0]
    data = req.files["file"]
    return (data, req.headers["signature1"], req.headers["signature2"]), val


def hpp_request_full(client, protocol, method, body, status, resp_body):
    """one request on the GIVEN HppClient object (nothing on it is touched); returns (captured HTTPRequest | None, validation line)"""
    cap = []
    async def fake_request(host, req, ctx):
        cap.append((host, req))
        return FakeResp(status, resp_body)
    saved = hpp.http.request
    hpp.http.request = fake_request
    try:
        try:
            r = run(client.request(protocol, method, body))
            val = "body " + hx(r)
        except nexcommon.RMCError as e:
            val = "rmcerror %d" % e.code()
        except Exception as e:
            val = "err " + exc_name(e)
    finally:
        hpp.http.request = saved
    return (cap[0] if cap else None), val


# ------------------------------------------------------------------ nasc
class FakeNascResp:
    def __init__(self, status, text): self.status_code, self.text, self.form = status, text, None
    def error(self): return self.status_code // 100 != 2


def nasc_login(client, game_server_id, nickname, status, text):
    """one login on the GIVEN NASCClient; returns (captured HTTPRequest | None, LoginResponse | exception)"""
    cap = []
    async def fake_request(host, req, ctx):
        cap.append((host, req))
        return FakeNascResp(status, text)
    saved = nasc.http.request
    nasc.http.request = fake_request
    try:
        try:
            res = run(client.login(game_server_id, nickname))
        except Exception as e:
            res = e
    finally:
        nasc.http.request = saved
    return (cap[0] if cap else None), res


# ------------------------------------------------------------------ prodinfo
class Prod:
    """ProdInfo over bytes (the class only reads a file in __init__)"""
    def __init__(self, data, keys=None):
        fd, path = tempfile.mkstemp(prefix="nxverif_prod_")
        with os.fdopen(fd, "wb") as f: f.write(data)
        try:
            self.p = nswitch.ProdInfo(keys or {}, path)
        finally:
            os.unlink(path)


def prod_check(data, offset, size):
    try:
        Prod(data).p.check(offset, size)
        return "ok -"
    except Exception as e:
        return "err " + exc_name(e)
