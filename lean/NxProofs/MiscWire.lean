import NxModel.Crypto.Base64
import NxModel.Misc.Auth
import NxProofs.MiscBase64
/-! a coding applied twice is not the coding: base64 (and the nasc `.-*` variant) strictly lengthens every
    non-empty byte string, so the reference encoding of a request differs from the encoding of its encoding, and the
    receiver of a twice-coded form recovers the once-coded strings instead of the values -/
namespace Nx.Crypto
open Nx

theorem b2a_length (d : Bytes) : d.length ≤ (b2a d).length ∧ (d ≠ [] → d.length < (b2a d).length) := by
  fun_induction b2a d <;> simp_all <;> omega

end Nx.Crypto

namespace Nx.Misc
open Nx Nx.Crypto

theorem nascEncode_length (d : Bytes) : (nascEncode d).length = (b2a d).length := by
  simp [nascEncode]

theorem nascEncode_longer (d : Bytes) (h : d ≠ []) : d.length < (nascEncode d).length := by
  rw [nascEncode_length]; exact (b2a_length d).2 h

theorem nascEncode_ne_self (d : Bytes) (h : d ≠ []) : nascEncode d ≠ d := by
  intro e
  have := nascEncode_longer d h
  rw [e] at this
  omega

theorem nascEncode_ne_nil (d : Bytes) (h : d ≠ []) : nascEncode d ≠ [] := by
  intro e
  have := nascEncode_longer d h
  rw [e] at this
  simp at this

theorem nascEncode_twice_ne (d : Bytes) (h : d ≠ []) : nascEncode (nascEncode d) ≠ nascEncode d :=
  nascEncode_ne_self _ (nascEncode_ne_nil d h)

end Nx.Misc
