"""C19 — EVERY request one call puts on the wire, not only the first.

The per-call cases and the one-object walks look at the first request a call sends (`cap[0]`, for dauth the
token request) and script a server that answers once. The property speaks about what the library SENDS; a call
may send more than one request (the server says "retry", a challenge expired, a transport error is answered by
a second attempt, ...). Here every client of the property is put in front of a scripted server whose FIRST
answer is each documented error / flag combination (and a few malformed ones) and whose later answers are a
success, the same error again, or a final error. Everything the call sends is recorded AT THE MOMENT it is sent
(copies - a request object that is sent twice would otherwise show its last state in every record), and every
recorded request - whatever its position - must
  * carry the independent reference encoding of the LOGICAL request of the call (Lean reference: 3DS form
    encoder, password hash, key ladder + CMAC over the exact form, certificate envelope, HMAC-MD5 signatures),
  * decode, with an independently written decoder of the wire text, to the configured plain values (an encoding
    applied twice does not),
  * have the headers of the logical request.
On an unchanged tree every call sends the minimum (one request; dauth: challenge + token) - the counts are in
the evidence (`wire`), so is the number of requests beyond that minimum.
The public `request(req)` entry points are also called several times with ONE request object: each time the
wire must carry the reference encoding of the fields the object holds WHEN IT IS PASSED IN.
Nothing here re-implements the library: expectations are the values the harness configured itself.
"""
import base64, struct, urllib.parse, datetime
import aux_c19_real as R
import aux_c19_walks as W
from aux_c19_real import hx, cps

ALPH = W.ALPH
HEX = W.HEX
EDGE = "éあＡ€"
MAX_REQUESTS = 8


# =============================================================================================== recorder
class Wire:
    """scripted server and recorder: answer(k, snapshot) -> response object for the k-th request of the call"""
    def __init__(self, answer):
        self.answer, self.sent, self.replies = answer, [], []

    @staticmethod
    def snap(host, req):
        from anynet import http
        d = {"host": host, "method": req.method, "path": req.path,
             "params": dict(req.params) if req.params is not None else None,
             "headers": [(str(k), str(v)) for k, v in req.headers.items()],
             "form": dict(req.form) if req.form is not None else None,
             "rawform": dict(req.rawform) if req.rawform is not None else None,
             "files": dict(req.files) if req.files is not None else None}
        # the body anynet writes for this request (HTTPMessage.encode_body), computed on the copies
        if d["rawform"] is not None: d["wire"] = http.formencode(d["rawform"], False)
        elif d["form"] is not None: d["wire"] = http.formencode(d["form"])
        else: d["wire"] = None
        return d

    async def __call__(self, host, req, context=None):
        if len(self.sent) >= MAX_REQUESTS:
            raise RuntimeError("harness: the call sent more than %d requests, server stops answering" % MAX_REQUESTS)
        s = self.snap(host, req)
        self.sent.append(s)
        r = self.answer(len(self.sent) - 1, s)
        self.replies.append(r)
        return r


def parse_wire(text, url=True):
    """application/x-www-form-urlencoded, written independently of anynet"""
    out = []
    if not text: return out
    for f in text.split("&"):
        k, _, v = f.partition("=")
        out.append((urllib.parse.unquote(k), urllib.parse.unquote(v)) if url else (k, v))
    return out


def hdr(snap, name):
    return [v for k, v in snap["headers"] if k.lower() == name.lower()]


def ref3ds(b):
    return base64.b64encode(b).decode().translate({43: 46, 47: 45, 61: 42})


def unref3ds(t):
    return base64.b64decode(t.translate({46: 43, 45: 47, 42: 61}), validate=True)


class Stats:
    def __init__(self): self.calls = {}; self.requests = {}; self.extra = {}; self.first = {}
    def call(self, fam, nsent, minimum, first_answer=None):
        self.calls[fam] = self.calls.get(fam, 0) + 1
        self.requests[fam] = self.requests.get(fam, 0) + nsent
        self.extra[fam] = self.extra.get(fam, 0) + max(0, nsent - minimum)
        if first_answer is not None:
            self.first.setdefault(fam, set()).add(first_answer)


def _b(v): return v.encode() if isinstance(v, str) else bytes(v)


# =============================================================================================== nasc
NASC_CODES = ["001", "109", "110", "119", "121", "122", "125", "null", "101", "000", "999"]     # documented in nasc.py + neighbours


def nasc_config(rng):
    def rtext(n, pool=ALPH, lo=0): return "".join(rng.choice(pool) for _ in range(rng.randint(lo, n)))
    mt = rng.choice([0, 1, 2, 2])
    cur = {"url": rng.choice(["nasc.nintendowifi.net", "nasc.example.org"]),
           "sdk_version_major": rng.randrange(1000), "sdk_version_minor": rng.randrange(1000),
           "title_id": rng.randrange(1 << 64), "title_version": rng.randrange(1 << 16), "product_code": rtext(4, ALPH + "-") or "----",
           "maker_code": rtext(2, HEX) or "00", "media_type": mt, "rom_id": rtext(16, HEX) if mt == 2 or rng.random() < 0.3 else None,
           "serial_number": rtext(11), "mac_address": rtext(12, HEX), "fcd_cert": rng.randbytes(rng.choice([0, 1, 2, 3, 16, 0x40, 0x180])),
           "device_name": rtext(10, ALPH + EDGE + " "), "unit_code": rng.choice(["0", "1", "2"]),
           "bss_id": rtext(12, HEX), "ap_info": "01:" + rtext(10, HEX), "region": rng.randrange(256), "language": rng.randrange(256),
           "fpd_version": rng.choice([0, 15, 16, 0xFFFF, rng.randrange(1 << 16)]), "environment": rng.choice(["L1", "D1", "T1"])}
    if rng.random() < 0.5: cur.update(pid=rng.randrange(1 << 32), pid_hmac=rtext(8, HEX), password=None)
    else: cur.update(pid=None, pid_hmac=None, password=rtext(16, ALPH + "!~>?" + EDGE))
    return cur


def _show_cfg(cur):
    return {k: (v.hex() if isinstance(v, (bytes, bytearray)) else v) for k, v in cur.items()}


def nasc_wire(ctx, rng, C, oracle_fail, quick, st):
    from nintendo import nasc
    from anynet import http

    def body(returncd, retry, extra=None, drop=()):
        f = {"returncd": returncd.encode(), "retry": retry.encode(), "datetime": b"20240229235958"}
        if extra: f.update(extra)
        for k in drop: f.pop(k, None)
        return "&".join("%s=%s" % (k, ref3ds(v)) for k, v in f.items())

    def success(i, rng):
        tok, port = rng.randbytes(rng.choice([0, 1, 2, 3, 32, 57])), rng.randrange(1, 65536)
        return body("001", rng.choice(["0", "1"]), {"locator": ("h%d.example:%d" % (i, port)).encode(), "token": tok}), ("h%d.example" % i, port, ref3ds(tok))

    FOLLOW = ["then-success", "same-again", "then-final-error", "retry-twice-then-success"]
    cases = [(cd, rt, fo) for cd in NASC_CODES for rt in ("0", "1") for fo in FOLLOW[:3]]
    cases += [(cd, "1", FOLLOW[3]) for cd in NASC_CODES if cd != "001"]
    cases += [(m, "1", "then-success") for m in ("no-retry-field", "no-datetime", "returncd-text", "empty-body", "http-503", "retry-2")]
    if not quick: cases = cases * 6
    for ci, (cd, rt, follow) in enumerate(cases):
        cur = nasc_config(rng)
        client = W.nasc_configure_fresh(cur)
        gsid, nick = rng.randrange(1 << 32), "".join(rng.choice(ALPH + EDGE) for _ in range(rng.randint(0, 8)))
        # the script: texts for attempt 0, 1, 2, ...; the last repeats
        status0 = 200
        if cd == "no-retry-field": first = body("110", "1", drop=("retry",))
        elif cd == "no-datetime": first = body("110", "1", drop=("datetime",))
        elif cd == "returncd-text": first = body("err", "1")
        elif cd == "empty-body": first = ""
        elif cd == "http-503": first, status0 = body("110", "1"), 503
        elif cd == "retry-2": first = body("110", "2")
        elif cd == "001": first, ok0 = success(0, rng)
        else: first = body(cd, rt)
        script, oks = [(status0, first)], {}
        if cd == "001": oks[0] = ok0
        if follow == "then-success":
            t, o = success(1, rng); script.append((200, t)); oks[1] = o
        elif follow == "same-again": script.append((status0, first))
        elif follow == "then-final-error": script.append((200, body(rng.choice(NASC_CODES[1:]), "0")))
        else:
            script += [(200, body(cd, "1")), (200, body(rng.choice(NASC_CODES[1:]), "1"))]
            t, o = success(3, rng); script.append((200, t)); oks[3] = o
        def answer(k, snap, script=script):
            s, t = script[min(k, len(script) - 1)]
            return R.FakeNascResp(s, t)
        wire = Wire(answer)
        saved = nasc.http.request
        nasc.http.request = wire
        try:
            try: res = R.run(client.login(gsid, nick))
            except Exception as e: res = e
        finally:
            nasc.http.request = saved
        st.call("nasc-login", len(wire.sent), 1, "%s/retry=%s" % (cd, rt))
        exp = W.nasc_expected_form(cur, gsid, nick)
        expd = dict(exp)
        base = {"config (NASCClient setters)": _show_cfg(cur), "call": "await client.login(%#x, %r)" % (gsid, nick),
                "server_answers_in_order (HTTP status, body; the last repeats)": [list(x) for x in script],
                "requests_sent_by_the_call": len(wire.sent),
                "how": "replace nintendo.nasc.http.request by a coroutine that records a COPY of req.form / req.headers for every request and answers "
                       "with objects having .status_code and .text as listed; every recorded form must be the 3DS coding (base64 with + / = -> . - *) "
                       "of the configured values, exactly once"}
        if not wire.sent:
            oracle_fail.append(("wire-nasc", "login() sent nothing: %r" % (res,), base)); continue
        for k, snap in enumerate(wire.sent):
            rp = dict(base, request_index=k, wire_body=snap["wire"][:3000], expected_plain_form={a: b.hex() for a, b in exp})
            pos = "req0" if k == 0 else "req1+"
            form = dict(snap["form"] or {})
            devtime = form.pop("devtime", None)
            C.add("nasc-form-enc " + " ".join(hx(a.encode()) + " " + hx(b) for a, b in exp), "ok " + R.form_pairs(form), "wire-nasc:login:" + pos, rp, reference=True)
            # the wire text, parsed and decoded independently, gives back the configured values
            got = parse_wire(snap["wire"])
            bad = []
            if [a for a, _ in got if a != "devtime"] != [a for a, _ in exp]:
                bad.append("fields %r, expected %r" % ([a for a, _ in got], [a for a, _ in exp]))
            for a, v in got:
                if a == "devtime":
                    try: okt = len(unref3ds(v)) == 12 and unref3ds(v).isdigit()
                    except Exception: okt = False
                    if not okt: bad.append("devtime %r is not the 3DS coding of a 12 digit time" % v)
                    continue
                if a not in expd: continue
                try: dec = unref3ds(v)
                except Exception: dec = None
                if dec != expd[a]:
                    bad.append("field %r is %r on the wire, which decodes to %r; configured value %r, reference coding %r" % (a, v[:80], dec[:60] if dec is not None else None, expd[a][:60], ref3ds(expd[a])[:80]))
            want_h = {"Host": [cur["url"]], "X-GameId": ["%08X" % gsid], "User-Agent": ["CTR FPD/%04X" % cur["fpd_version"]],
                      "Content-Type": ["application/x-www-form-urlencoded"] * 2}
            got_h = {n: hdr(snap, n) for n in want_h}
            if got_h != want_h or snap["host"] != cur["url"] or snap["path"] != "/ac" or snap["method"] != "POST":
                bad.append("request line / headers %r %r %r, expected POST /ac %r" % (snap["method"], snap["path"], got_h, want_h))
            if bad:
                oracle_fail.append(("wire-nasc", "request #%d (0-based) of ONE NASCClient.login() call - sent after the server answered %s - is not the 3DS form "
                                    "coding of the login request: %s" % (k, [t[:60] for _, t in script[:k]] or "nothing yet", "; ".join(bad[:3])), rp))
        # the result belongs to the last answer the client saw
        last = len(wire.replies) - 1
        if last in oks and len(wire.sent) <= len(script):
            if isinstance(res, Exception):
                oracle_fail.append(("wire-nasc", "login(): the last answer was a well-formed success, the call raised %r" % (res,), base))
            elif (res.host, res.port, res.token, res.datetime) != oks[last] + (datetime.datetime(2024, 2, 29, 23, 59, 58),):
                oracle_fail.append(("wire-nasc", "login(): LoginResponse %r does not belong to the last answer %r" % ((res.host, res.port, res.token), oks[last]), base))
        elif not isinstance(res, Exception):
            oracle_fail.append(("wire-nasc", "login(): the last answer the client received was an error, the call returned %r" % (res,), base))

    # ---- the public request(req) entry point, ONE request object passed in several times
    rewritten = 0
    for i in range(8 if quick else 60):
        cur = nasc_config(rng)
        client = W.nasc_configure_fresh(cur)
        plain = {}
        for j in range(rng.randint(1, 6)):
            r = rng.random()
            v = rng.randbytes(rng.randint(0, 24)) if r < 0.4 else "".join(rng.choice(ALPH + ".-*+/=" + EDGE) for _ in range(rng.randint(0, 12)))
            plain["f%d" % j + rng.choice(["", "x", "id"])] = v
        action = rng.choice(["LOGIN", "SVCLOC", "message"])
        plain["action"] = action
        first_err = rng.random() < 0.7
        texts = ([body(rng.choice(NASC_CODES[1:]), rng.choice(["0", "1"]))] if first_err else []) + [body("001", "0", {"locator": b"h.example:1", "token": b"t"})]
        req = http.HTTPRequest.post("/ac"); req.form = dict(plain)
        calls = []
        for attempt in range(rng.choice([2, 2, 3])):
            before = dict(req.form)
            wire = Wire(lambda k, s, a=attempt: R.FakeNascResp(200, texts[min(a, len(texts) - 1)]))
            saved = nasc.http.request
            nasc.http.request = wire
            try:
                try: R.run(client.request(req)); outcome = "ok"
                except Exception as e: outcome = R.exc_name(e) if not isinstance(e, nasc.NASCError) else "NASCError"
            finally:
                nasc.http.request = saved
            st.call("nasc-request", len(wire.sent), 1)
            calls.append({"req.form when passed in": {k: (v.hex() if isinstance(v, bytes) else v) for k, v in before.items()}, "outcome": outcome})
            rp = {"sequence": "req = HTTPRequest.post('/ac'); req.form = <first entry>; then client.request(req) %d times with the SAME object" % (attempt + 1),
                  "calls": list(calls), "server_answers": texts,
                  "how": "record a copy of req.form inside the replaced nasc.http.request; it must be the 3DS coding of the fields the object held when request() was called"}
            for k, snap in enumerate(wire.sent):
                C.add("nasc-form-enc " + " ".join(hx(a.encode()) + " " + hx(_b(v)) for a, v in before.items()), "ok " + R.form_pairs(snap["form"] or {}),
                      "wire-nasc:request:" + ("first" if attempt == 0 else "same-object-again"), rp, reference=True)
                want = {a: ref3ds(_b(v)) for a, v in before.items()}
                if snap["form"] != want:
                    badk = sorted(a for a in set(want) | set(snap["form"] or {}) if (snap["form"] or {}).get(a) != want.get(a))
                    oracle_fail.append(("wire-nasc", "NASCClient.request(req), call %d with one request object: fields %s on the wire are %r, the 3DS coding of what the "
                                        "object held is %r" % (attempt + 1, badk[:4], [(snap["form"] or {}).get(a) for a in badk[:4]], [want.get(a) for a in badk[:4]]), rp))
        if req.form != plain: rewritten += 1
        # a second request OBJECT with the same fields is coded like the first one was
        req2 = http.HTTPRequest.post("/ac"); req2.form = dict(plain)
        wire = Wire(lambda k, s: R.FakeNascResp(200, texts[-1]))
        saved = nasc.http.request
        nasc.http.request = wire
        try:
            try: R.run(client.request(req2))
            except Exception: pass
        finally:
            nasc.http.request = saved
        for snap in wire.sent:
            C.add("nasc-form-enc " + " ".join(hx(a.encode()) + " " + hx(_b(v)) for a, v in plain.items()), "ok " + R.form_pairs(snap["form"] or {}),
                  "wire-nasc:request:equal-object", {"fields": {k: (v.hex() if isinstance(v, bytes) else v) for k, v in plain.items()}}, reference=True)
    ctx.extra["nasc_request_replaces_the_callers_req_form (observation, judged on the fields passed in)"] = rewritten


# =============================================================================================== nnas
NNAS_ERRORS = [("0002", 400), ("0004", 400), ("0005", 401), ("0006", 401), ("0100", 400), ("0106", 400), ("0107", 400), ("0108", 400),
               ("0112", 400), ("0113", 400), ("0122", 400), ("1600", 400), ("2001", 500), ("2002", 503), (None, 503), (None, 500)]


class FakeXmlResp:
    def __init__(self, status, text):
        from anynet import xml
        self.status_code, self.text = status, text
        try: self.xml = xml.parse(text) if text else None
        except Exception: self.xml = None
    def error(self): return self.status_code // 100 != 2


def nnas_wire(ctx, rng, C, oracle_fail, quick, st):
    from nintendo import nnas
    OK = "<OAuth20><access_token><token>%s</token><refresh_token>r</refresh_token><expires_in>3600</expires_in></access_token></OAuth20>"
    def err(code): return "<errors><error><cause>x</cause><code>%s</code><message>m</message></error></errors>" % code if code else ""
    cases = [(e, f) for e in NNAS_ERRORS for f in ("then-success", "same-again")] + [(("ok", 200), "then-success")] * 4
    # every first answer with BOTH kinds of login: the hash of calc_password_hash, and a plain password / user id with characters that the
    # form coding has to quote (so that a coding applied twice, or not at all, is visible for every scripted answer)
    cases = [(e, f, h) for e, f in cases for h in (True, False)]
    if not quick: cases = cases * 5
    for ci, ((code, status), follow, hashed) in enumerate(cases):
        client = nnas.NNASClient()
        cert = base64.b64encode(rng.randbytes(24)).decode() if rng.random() < 0.6 else None
        devid, serial, sysver = rng.randrange(1 << 32), "FW" + "".join(rng.choice("0123456789") for _ in range(9)), rng.choice([0x260, 0x250, 0x230])
        client.set_device(devid, serial, sysver, cert)
        if rng.random() < 0.5: client.set_title(rng.randrange(1 << 64), rng.randrange(1 << 16))
        url = rng.choice(["account.nintendo.net", "account.example.org"]); client.set_url(url)
        pid = rng.choice([0, 1, 1024, (1 << 32) - 1, rng.randrange(1 << 32)])
        username = "".join(rng.choice(ALPH + "_-.") for _ in range(rng.randint(1, 16))) + ("" if hashed else rng.choice(["", "%", "+a", " b", "é"]))
        if hashed:
            pw = "".join(rng.choice(ALPH + "!@# ~%&=+") for _ in range(rng.choice([0, 1, 15, 16, 17, 32, 51, 52, 55, 56, rng.randint(0, 70)])))
            try: sent_pw = nnas.calc_password_hash(pid, pw)
            except Exception as e:
                oracle_fail.append(("wire-nnas", "calc_password_hash raised %r" % (e,), {"pid": pid, "password": pw})); continue
            ptype = "hash"
        else:
            pw = "".join(rng.choice(ALPH + "!@# ~%&=+?/é") for _ in range(rng.randint(0, 20)))
            k = rng.randint(0, len(pw)); pw = pw[:k] + rng.choice(["%", "&", "=", "+", " ", "é", "%25", "%2B"]) + pw[k:]
            sent_pw, ptype = pw, rng.choice([None, "plain"])
        script = [(200, OK % "t0")] if code == "ok" else [(status, err(code))]
        script.append((200, OK % "t1") if follow == "then-success" else script[0])
        wire = Wire(lambda k, s, script=script: FakeXmlResp(*script[min(k, len(script) - 1)]))
        saved = nnas.http.request
        nnas.http.request = wire
        try:
            try: res = R.run(client.login(username, sent_pw, ptype))
            except Exception as e: res = e
        finally:
            nnas.http.request = saved
        st.call("nnas-login", len(wire.sent), 1, "%s/%d" % (code, status))
        want = [("grant_type", "password"), ("user_id", username), ("password", sent_pw)] + ([("password_type", ptype)] if ptype is not None else [])
        base = {"call": "NNASClient.login(%r, %s, %r)" % (username, "calc_password_hash(%d, %r)" % (pid, pw) if hashed else repr(pw), ptype),
                "server_answers_in_order (the last repeats)": [list(x) for x in script], "requests_sent_by_the_call": len(wire.sent),
                "how": "replace nintendo.nnas.http.request by a coroutine that records a copy of every request and answers as listed (objects with "
                       ".status_code, .text, .xml, .error()); every recorded form must be the login form with the password (hash) exactly as passed"}
        if not wire.sent:
            oracle_fail.append(("wire-nnas", "login() sent nothing: %r" % (res,), base)); continue
        for k, snap in enumerate(wire.sent):
            rp = dict(base, request_index=k, wire_body=snap["wire"])
            pos = "req0" if k == 0 else "req1+"
            form = snap["form"] or {}
            if hashed:
                C.add("nnas %d %s" % (pid, cps(pw)), "ok " + hx(str(form.get("password", "")).encode()), "wire-nnas:hash:" + pos, rp, reference=True)
            got = parse_wire(snap["wire"])
            bad = []
            if got != want: bad.append("form on the wire decodes to %r, expected %r" % (got, want))
            if hdr(snap, "Host") != [url] or snap["host"] != url or hdr(snap, "X-Nintendo-Device-Cert") != ([cert] if cert else []) \
                    or hdr(snap, "X-Nintendo-Device-ID") != [str(devid)] or snap["headers"] != wire.sent[0]["headers"] or snap["path"] != wire.sent[0]["path"]:
                bad.append("headers %r differ from those of the login request" % (snap["headers"],))
            if bad:
                oracle_fail.append(("wire-nnas", "request #%d (0-based) of ONE NNASClient.login() call is not the login request: %s" % (k, "; ".join(bad)), rp))
            elif not hashed:
                ctx.case(key="wire-nnas %d %d" % (ci, k), nontrivial=True, tag="wire-nnas:plain:" + pos)
        last_ok = script[min(len(wire.replies), len(script)) - 1][0] == 200
        if last_ok != (not isinstance(res, Exception)):
            oracle_fail.append(("wire-nnas", "login(): last answer %s, result %r" % ("success" if last_ok else "error", res), base))


# =============================================================================================== dauth
DAUTH_CODES = [4, 7, 8, 9, 14, 15, 16, 17, 2, 99]


def dauth_wire(ctx, rng, C, oracle_fail, quick, st):
    from nintendo.switch import dauth
    from anynet import http
    versions = sorted(dauth.KEY_GENERATION)
    keys = {"aes_kek_generation_source": rng.randbytes(16)}
    for g in range(1, 0x28): keys["master_key_%02x" % (g - 1)] = rng.randbytes(16)
    cases = [(code, stage, follow) for code in DAUTH_CODES for stage in ("challenge", "token") for follow in ("then-success", "same-again")]
    cases += [(None, "none", "then-success")] * 4 + [(503, "token", "then-success"), (503, "challenge", "then-success")]
    if not quick: cases = cases * 6
    vorder = list(versions); rng.shuffle(vorder)
    for ci, (code, stage, follow) in enumerate(cases):
        v = vorder[ci % len(vorder)]
        client = dauth.DAuthClient(dict(keys)); client.set_system_version(v)
        region = rng.choice([1, 2, 2, 3]); client.set_platform_region(region)
        g, digest, api = dauth.KEY_GENERATION[v], dauth.SYSTEM_VERSION_DIGEST[v], dauth.API_VERSION[v]
        edge = rng.random() < 0.5
        cid = rng.choice([dauth.CLIENT_ID_BAAS, 0, (1 << 64) - 1, rng.randrange(1 << 64)])
        vendor = rng.choice(["akamai", "v%d" % rng.randrange(100)])
        issued = {}                        # challenge text -> data text, one pair per challenge request served
        nfail = {"challenge": 0, "token": 0}
        log = []
        def answer(k, snap):
            kind = "challenge" if snap["path"].endswith("/challenge") else "token"
            fail = stage == kind and (follow == "same-again" or nfail[kind] == 0)
            if fail:
                nfail[kind] += 1
                r = http.HTTPResponse(503 if code == 503 else 400)
                if code != 503: r.json = {"errors": [{"code": "%04i" % code, "message": "scripted error"}]}
                log.append("%s -> error %s" % (snap["path"], code))
                return r
            r = http.HTTPResponse(200)
            if kind == "challenge":
                ch = base64.b64encode(rng.randbytes(32), b"-_").decode()
                dt = base64.b64encode(rng.randbytes(16), b"-_").decode()
                if rng.random() < 0.5: dt = dt.rstrip("=")
                issued[ch] = dt
                r.json = {"challenge": ch, "data": dt}
                log.append("%s -> challenge %s data %s" % (snap["path"], ch, dt))
            else:
                r.json = {"device_auth_token": "t", "dtoken": "t", "expires_in": 86400}
                log.append("%s -> token" % snap["path"])
            return r
        wire = Wire(answer)
        client.set_request_callback(wire)
        try: res = R.run(client.edge_token(cid, vendor) if edge else client.device_token(cid))
        except Exception as e: res = e
        minimum = 1 if stage == "challenge" else 2
        st.call("dauth-token", len(wire.sent), minimum, "%s@%s" % (code, stage))
        base = {"keys": {k: x.hex() for k, x in keys.items() if k in ("aes_kek_generation_source", "master_key_%02x" % (g - 1))}, "system_version": v, "platform_region": region,
                "call": "%s(%#x%s)" % ("edge_token" if edge else "device_token", cid, ", %r" % vendor if edge else ""),
                "server_log (request -> answer)": log, "requests_sent_by_the_call": len(wire.sent),
                "how": "DAuthClient(keys) with a request callback that records a copy of every request and answers as in server_log; every token request's "
                       "rawform['mac'] must be the AES-CMAC (key ladder over the data of the challenge it quotes) of the other fields in wire order"}
        tokpath = "/v%d/%s" % (api, "edge_token" if edge else "device_auth_token")
        for k, snap in enumerate(wire.sent):
            rp = dict(base, request_index=k, wire_body=snap["wire"])
            pos = "req-min" if k < minimum else "req-extra"
            want_h = {"Host": [client.host], "X-Nintendo-PowerState": ["FA"]}
            if {n: hdr(snap, n) for n in want_h} != want_h or snap["method"] != "POST":
                oracle_fail.append(("wire-dauth", "request #%d of one %s call has headers %r" % (k, base["call"], snap["headers"]), rp))
            if snap["path"].endswith("/challenge"):
                if snap["path"] != "/v%d/challenge" % api or parse_wire(snap["wire"]) != [("key_generation", str(g))]:
                    oracle_fail.append(("wire-dauth", "request #%d of one %s call: challenge request %s %r, expected /v%d/challenge key_generation=%d"
                                        % (k, base["call"], snap["path"], snap["wire"], api, g), rp))
                else: ctx.case(key="wire-dauth %d %d" % (ci, k), nontrivial=True, tag="wire-dauth:challenge:" + pos)
                continue
            raw = dict(snap["rawform"] or {})
            mac = str(raw.pop("mac", ""))
            signed = "&".join("%s=%s" % (a, b) for a, b in raw.items())
            ch = str(raw.get("challenge"))
            wirefields = parse_wire(snap["wire"], url=False)
            if snap["path"] != tokpath or ch not in issued or not wirefields or wirefields[-1] != ("mac", mac) or "&".join("%s=%s" % f for f in wirefields[:-1]) != signed:
                oracle_fail.append(("wire-dauth", "request #%d of one %s call: token request %s %r does not quote a challenge the server issued / mac is not the last field"
                                    % (k, base["call"], snap["path"], snap["wire"]), rp))
                continue
            dt = issued[ch]
            vend = hx(vendor.encode()) if (edge and api == 7) else "none"
            C.add("dauth-token %s %s %s %s %d %d %d %s %s" % (hx(keys["aes_kek_generation_source"]), hx(keys["master_key_%02x" % (g - 1)]), cps(dt), hx(ch.encode()), cid,
                                                              1 if region == 2 else 0, g, hx(digest.encode()), vend),
                  "ok " + hx(mac.encode()) + " " + hx(signed.encode()), "wire-dauth:token:" + pos, dict(rp, challenge=ch, data=dt), reference=True)
        ok_expected = follow == "then-success" and len(wire.sent) >= minimum + (0 if stage == "none" else 1)
        if stage == "none" and isinstance(res, Exception):
            oracle_fail.append(("wire-dauth", "%s against a server without errors raised %r" % (base["call"], res), base))
        if stage != "none" and len(wire.sent) == minimum and not isinstance(res, Exception):
            oracle_fail.append(("wire-dauth", "%s: the last answer was an error, the call returned %r" % (base["call"], res), base))


# =============================================================================================== aauth
AAUTH_CODES = [103, 105, 106, 109, 111, 112, 118, 121, 2, 999]


def aauth_wire(ctx, rng, C, oracle_fail, quick, st):
    import Crypto.Random
    from nintendo.switch import aauth
    from anynet import http
    allv = sorted(aauth.API_VERSION)
    v3 = [v for v in allv if aauth.API_VERSION[v] == 3]
    KINDS = ["digital-v3", "digital-token", "gamecard", "system", "nocert"]
    FOL = ("then-success", "same-again")
    if quick: cases = [(kind, code, FOL[(i + j) % 2]) for j, kind in enumerate(KINDS) for i, code in enumerate(AAUTH_CODES + [None, 503])]
    else: cases = [(kind, code, fo) for kind in KINDS for code in AAUTH_CODES + [None, 503] for fo in FOL] * 3
    for ci, (kind, code, follow) in enumerate(cases):
        v = rng.choice(v3) if kind == "digital-v3" else rng.choice([x for x in allv if aauth.API_VERSION[x] >= 4]) if kind == "digital-token" else rng.choice(allv)
        api = aauth.API_VERSION[v]
        client = aauth.AAuthClient(); client.set_system_version(v)
        tid, tver, devtoken = rng.randrange(1 << 64), rng.randrange(1 << 32), "dev.tok.%d" % rng.randrange(1000)
        pk, seed = rng.randbytes(16), rng.randbytes(32)
        nfail = [0]
        def answer(k, snap):
            if code is not None and (follow == "same-again" or nfail[0] == 0):
                nfail[0] += 1
                r = http.HTTPResponse(503 if code == 503 else 400)
                if code != 503: r.json = {"errors": [{"code": "%04i" % code, "message": "scripted error"}]}
                return r
            r = http.HTTPResponse(200); r.json = {"application_auth_token": "t", "expires_in": 86400}
            return r
        wire = Wire(answer)
        client.set_request_callback(wire)
        at = "media_type" if api < 5 else "auth_type"
        want = {"application_id": "%016x" % tid, "application_version": "%08x" % tver, "device_auth_token": devtoken}
        ticket = token = gvt = gcert = None
        if kind == "digital-v3":
            ticket = R.make_ticket(rng, tid); want[at] = "DIGITAL"; coro = lambda: client.auth_digital(tid, tver, devtoken, ticket)
        elif kind == "digital-token":
            token = "a.b.%d" % rng.randrange(1000); want[at] = "DIGITAL"; want["cert"] = token; coro = lambda: client.auth_digital(tid, tver, devtoken, token)
        elif kind == "gamecard":
            gcert, gvt = rng.randbytes(0x200), rng.randbytes(rng.choice([0x20, 0x1F, 0x21])); want[at] = "GAMECARD"
            chal, csrc = ("c%d" % rng.randrange(100), "s%d" % rng.randrange(100)) if api >= 5 else (None, None)
            if api >= 5: want_tail = {"challenge": chal, "challenge_src": csrc}
            coro = lambda: client.auth_gamecard(tid, tver, devtoken, gcert, gvt, chal, csrc)
        elif kind == "system":
            want[at] = "SYSTEM"; coro = lambda: client.auth_system(tid, tver, devtoken)
        else:
            want[at] = "NO_CERT"; coro = lambda: client.auth_nocert(tid, tver, devtoken)
        saved = (aauth.get_random_bytes, Crypto.Random.get_random_bytes)
        aauth.get_random_bytes = lambda n: pk[:n]
        Crypto.Random.get_random_bytes = lambda n: seed[:n]
        try:
            try: res = R.run(coro())
            except Exception as e: res = e
        finally:
            aauth.get_random_bytes, Crypto.Random.get_random_bytes = saved
        st.call("aauth-" + kind, len(wire.sent), 1, str(code))
        base = {"system_version": v, "call": kind, "title_id": tid, "title_version": tver, "device_token": devtoken,
                "ticket": ticket.hex() if ticket else None, "token": token, "gvt": gvt.hex() if gvt else None, "gamecard_cert": gcert.hex() if gcert else None,
                "plain_key": pk.hex(), "oaep_seed": seed.hex(), "first_answer": code, "later_answers": follow, "requests_sent_by_the_call": len(wire.sent),
                "how": "AAuthClient with a request callback recording a copy of every request; aauth.get_random_bytes and Crypto.Random.get_random_bytes pinned "
                       "to plain_key / oaep_seed; every recorded form must carry the reference envelope / base64 of the arguments, exactly once"}
        if not wire.sent:
            oracle_fail.append(("wire-aauth", "%s sent nothing: %r" % (kind, res), base)); continue
        for k, snap in enumerate(wire.sent):
            rp = dict(base, request_index=k, wire_body=(snap["wire"] or "")[:4000])
            pos = "req0" if k == 0 else "req1+"
            got = dict(parse_wire(snap["wire"]))
            bad = []
            if kind == "digital-v3":
                C.add("aauth-env 0 0 %s %d %s %s" % (hx(ticket), tid, hx(pk), hx(seed)), "ok " + hx(str(got.get("cert", "")).encode()) + " " + hx(str(got.get("cert_key", "")).encode()),
                      "wire-aauth:envelope:" + pos, rp, reference=True)
                got.pop("cert", None); got.pop("cert_key", None)
            elif kind == "gamecard":
                C.add("url-enc-nopad " + hx(gvt), "ok " + hx(str(got.pop("gvt", "")).encode()), "wire-aauth:gvt:" + pos, rp, reference=True)
                C.add("url-enc-nopad " + hx(gcert), "ok " + hx(str(got.pop("cert", "")).encode()), "wire-aauth:gamecard-cert:" + pos, rp, reference=True)
                if api >= 5:
                    for a, b in want_tail.items():
                        if got.pop(a, None) != b: bad.append("field %r" % a)
            else:
                ctx.case(key="wire-aauth %d %d" % (ci, k), nontrivial=True, tag="wire-aauth:%s:%s" % (kind, pos))
            if got != want: bad.append("fields %r, expected %r" % (got, want))
            if snap["path"] != "/v%d/application_auth_token" % api or hdr(snap, "Host") != [client.host] or hdr(snap, "X-Nintendo-PowerState") != ["FA"]:
                bad.append("path / headers %r %r" % (snap["path"], snap["headers"]))
            if bad:
                oracle_fail.append(("wire-aauth", "request #%d (0-based) of ONE AAuthClient.%s call is not the request of the call: %s" % (k, kind, "; ".join(bad)), rp))
        if code is None and isinstance(res, Exception):
            oracle_fail.append(("wire-aauth", "%s against a server without errors raised %r" % (kind, res), base))
        if code is not None and len(wire.sent) == 1 and not isinstance(res, Exception):
            oracle_fail.append(("wire-aauth", "%s: the only answer was an error, the call returned %r" % (kind, res), base))


# =============================================================================================== hpp
def hpp_wire(ctx, rng, C, oracle_fail, quick, st):
    from nintendo.nex import hpp, settings as nexsettings, common as nexcommon
    FIRST = ["http-500", "http-503", "rmc-error", "short", "stale-call-id", "bad-method", "bad-size", "ok"]
    cases = [(f, fo) for f in FIRST for fo in ("then-success", "same-again")]
    if not quick: cases = cases * 4
    for ci, (first, follow) in enumerate(cases):
        s = nexsettings.default()
        ak = "".join(rng.choice(HEX) for _ in range(2 * rng.choice([0, 1, 4, 8, 8, 9, 16]))); s["prudp.access_key"] = ak
        pid = rng.choice([0, 1, 1023, 1024, (1 << 32) - 1, rng.randrange(1 << 32)])
        pw = "".join(rng.choice(ALPH + "!#é") for _ in range(rng.randint(0, 16)))
        client = R.hpp_client(s, pid, pw)
        call0 = rng.choice([1, 0xFFFFFFFF, rng.randrange(1, 1 << 32)]); client.call_id = call0
        proto, meth, body = rng.choice([1, 0x7E, 0x7F, 200]), rng.randrange(1, 0x7FFF), rng.randbytes(rng.randint(0, 40))
        off = 5 if proto < 0x7F else 7
        def answer(k, snap):
            data = snap["files"]["file"]
            sent_call = struct.unpack_from("<I", data, off)[0] if len(data) >= off + 4 else 0
            kind = first if (k == 0 or follow == "same-again") else "ok"
            rb = rng.randbytes(rng.randint(0, 12))
            cid2 = (sent_call - 1) & 0xFFFFFFFF if kind == "stale-call-id" else sent_call
            if kind == "rmc-error": pl = b"\x00" + struct.pack("<II", 0x80010002, cid2)
            else: pl = b"\x01" + struct.pack("<II", cid2, (meth | 0x8000) ^ (1 if kind == "bad-method" else 0)) + rb
            resp = struct.pack("<I", len(pl) + (1 if kind == "bad-size" else 0)) + pl
            if kind == "short": resp = resp[:5]
            return R.FakeResp(int(kind[5:]) if kind.startswith("http-") else 200, resp)
        wire = Wire(answer)
        saved = hpp.http.request
        hpp.http.request = wire
        try:
            try: res = R.run(client.request(proto, meth, body))
            except Exception as e: res = e
        finally:
            hpp.http.request = saved
        st.call("hpp-request", len(wire.sent), 1, first)
        base = {"access_key": ak, "pid": pid, "password": pw, "call_id_before": call0, "call": "HppClient.request(%d, %d, bytes.fromhex(%r))" % (proto, meth, body.hex()),
                "first_answer": first, "later_answers": follow, "requests_sent_by_the_call": len(wire.sent),
                "how": "replace nintendo.nex.hpp.http.request by a coroutine recording a copy of headers and files of every request; signature1/signature2 of EVERY "
                       "request must be HMAC-MD5 of the message it carries under the access key / the key derived from password and pid"}
        if not wire.sent:
            oracle_fail.append(("wire-hpp", "request() sent nothing: %r" % (res,), base)); continue
        def masked(d): return d[:off] + b"\0\0\0\0" + d[off + 4:]
        d0 = wire.sent[0]["files"]["file"]
        for k, snap in enumerate(wire.sent):
            data = snap["files"]["file"]
            rp = dict(base, request_index=k, message=data.hex())
            s1, s2 = (hdr(snap, "signature1") + [""])[0], (hdr(snap, "signature2") + [""])[0]
            C.add("hpp-sig %s %s %d %s" % (hx(bytes.fromhex(ak)), hx(pw.encode()), pid, hx(data)), "ok %s %s" % (hx(s1.encode()), hx(s2.encode())),
                  "wire-hpp:sig:" + ("req0" if k == 0 else "req1+"), rp, reference=True)
            if hdr(snap, "pid") != [str(pid)] or masked(data) != masked(d0) or list(snap["files"]) != ["file"]:
                oracle_fail.append(("wire-hpp", "request #%d (0-based) of ONE HppClient.request() call does not carry the message of the call (apart from the call id) / the pid header" % k, rp))
        if first == "ok" and isinstance(res, Exception):
            oracle_fail.append(("wire-hpp", "a well-formed success response raised %r" % (res,), base))
        if first != "ok" and len(wire.sent) == 1 and not isinstance(res, Exception):
            oracle_fail.append(("wire-hpp", "the only answer was an error (%s), request() returned %r" % (first, res), base))


# =============================================================================================== entry
def wire_families(ctx, rng, C, oracle_fail, quick):
    import logging
    st = Stats()
    logging.disable(logging.CRITICAL)          # the clients log every scripted server error
    try:
        nasc_wire(ctx, rng, C, oracle_fail, quick, st)
        nnas_wire(ctx, rng, C, oracle_fail, quick, st)
        dauth_wire(ctx, rng, C, oracle_fail, quick, st)
        aauth_wire(ctx, rng, C, oracle_fail, quick, st)
        hpp_wire(ctx, rng, C, oracle_fail, quick, st)
    finally:
        logging.disable(logging.NOTSET)
    ctx.extra["wire"] = {"calls": st.calls, "requests_recorded": st.requests, "requests_beyond_the_minimum_of_the_call": st.extra,
                         "distinct_first_answers": {k: len(v) for k, v in st.first.items()}}
