import NxProofs.NexStreams
import NxProofs.NexCommon
import NxProofs.NexErrors
import NxProofs.NexDateTime
import NxProofs.NexDateTimeInv
import NxProofs.C15Zone
import NxProofs.NexStationURL
import NxProofs.NexStationURLInt
import NxProofs.NexObjWalk
import NxProofs.NexHolderPoly
/-!
# C15 — NEX value encodings are lossless

Models: `NxModel/Nex/Streams.lean` (stream primitives), `Common.lean` (Result, Structure levels, DataHolder),
`Errors.lean` (code ↔ name table), `DateTime.lean`, `StationURL.lean`, `HolderPoly.lean` (holders over a class
hierarchy and a registry). Statements only; proofs in
`NxProofs/Nex{Streams,Common,Errors,DateTime}.lean`.

Every round trip has the exact-consumption form: if the writer succeeds with bytes `b` (it fails exactly
where `struct.pack` raises — see the `…_ok_iff` theorems), the reader applied to `b ++ rest` returns the
value and leaves exactly `rest`, for every `rest`.

Formerly differential only, now proved: typed `getitem` after `parse (repr u)` for *int-valued*
parameters (the needed `int(str(n)) = n` for the modelled `int()` IS proved now, `stationurl_int_of_str`; and composed with `parse (repr u)`
into the typed getitem statement: `stationurl_typed_access_roundtrip`).
(The other direction of the calendar bijection, `civilOfDays (daysOfCivil y m d) = (y, m, d)`, IS proved now:
`civil_roundtrip_inverse`, `civil_date_of_day_unique`, and with it `datetime_to_unix_and_back`.)
-/
namespace Nx.C15
open Nx Nx.Nex

/-! ## strings: absent ↔ `u16 0`, `""` ↔ `01 00 00`, any Unicode scalar sequence of ≤ 65534 UTF-8 bytes -/

theorem string_roundtrip {s : Option String} {b : Bytes} (h : wString s = .ok b) (rest : Bytes) :
    rString (b ++ rest) = .ok (s, rest) := rString_wString h rest

/-- writing succeeds exactly for strings whose UTF-8 form has at most 65534 bytes -/
theorem string_writable_iff (s : String) : (∃ b, wString (some s) = .ok b) ↔ (utf8Enc s.toList).length ≤ 65534 :=
  wString_ok_iff s

example : wString none = .ok [0, 0] := by decide
example : wString (some "") = .ok [1, 0, 0] := by decide
example : rString [1, 0, 0, 7] = .ok (some "", [7]) := by decide
example : rString [0, 0, 7] = .ok (none, [7]) := by decide

/-! ## buffers -/

theorem buffer_roundtrip {d b : Bytes} (h : wBuffer d = .ok b) (rest : Bytes) : rBuffer (b ++ rest) = .ok (d, rest) :=
  rBuffer_wBuffer h rest

theorem qbuffer_roundtrip {d b : Bytes} (h : wQBuffer d = .ok b) (rest : Bytes) : rQBuffer (b ++ rest) = .ok (d, rest) :=
  rQBuffer_wQBuffer h rest

theorem buffer_writable_iff (d : Bytes) : (∃ b, wBuffer d = .ok b) ↔ d.length < 4294967296 := wBuffer_ok_iff d

/-! ## integers of each width, booleans, doubles (as 64-bit patterns: NaN payloads and infinities included) -/

theorem u8_roundtrip {n : Nat} {b : Bytes} (h : wU8 n = .ok b) (rest : Bytes) : rdU8 (b ++ rest) = .ok (n, rest) := rdU8_wU8 h rest
theorem u16_roundtrip {n : Nat} {b : Bytes} (h : wU16 n = .ok b) (rest : Bytes) : rdU16 (b ++ rest) = .ok (n, rest) := rdU16_wU16 h rest
theorem u32_roundtrip {n : Nat} {b : Bytes} (h : wU32 n = .ok b) (rest : Bytes) : rdU32 (b ++ rest) = .ok (n, rest) := rdU32_wU32 h rest
theorem u64_roundtrip {n : Nat} {b : Bytes} (h : wU64 n = .ok b) (rest : Bytes) : rdU64 (b ++ rest) = .ok (n, rest) := rdU64_wU64 h rest
theorem s8_roundtrip {v : Int} {b : Bytes} (h : wS8 v = .ok b) (rest : Bytes) : rS8 (b ++ rest) = .ok (v, rest) := rS8_wS8 h rest
theorem s16_roundtrip {v : Int} {b : Bytes} (h : wS16 v = .ok b) (rest : Bytes) : rS16 (b ++ rest) = .ok (v, rest) := rS16_wS16 h rest
theorem s32_roundtrip {v : Int} {b : Bytes} (h : wS32 v = .ok b) (rest : Bytes) : rS32 (b ++ rest) = .ok (v, rest) := rS32_wS32 h rest
theorem s64_roundtrip {v : Int} {b : Bytes} (h : wS64 v = .ok b) (rest : Bytes) : rS64 (b ++ rest) = .ok (v, rest) := rS64_wS64 h rest
theorem bool_roundtrip {v : Bool} {b : Bytes} (h : wBool v = .ok b) (rest : Bytes) : rBool (b ++ rest) = .ok (v, rest) := rBool_wBool h rest
theorem double_roundtrip {bits : Nat} {b : Bytes} (h : wDouble bits = .ok b) (rest : Bytes) : rDouble (b ++ rest) = .ok (bits, rest) :=
  rDouble_wDouble h rest

theorem u64_writable_iff (n : Nat) : (∃ b, wU64 n = .ok b) ↔ n < 18446744073709551616 := wU64_ok_iff n
theorem s64_writable_iff (v : Int) : (∃ b, wS64 v = .ok b) ↔ (-9223372036854775808 ≤ v ∧ v < 9223372036854775808) := wS64_ok_iff v

example : ∃ b, wDouble 0x7FF8000000000001 = .ok b := ⟨_, rfl⟩   -- a NaN with payload
example : ∃ b, wS64 (-9223372036854775808) = .ok b := (s64_writable_iff _).mpr (by omega)

/-! ## lists and maps (elements / keys / values of any type that round-trips; nesting by instantiation) -/

theorem list_roundtrip {α : Type} (f : α → Except Err Bytes) (rdr : Bytes → Except Err (α × Bytes)) (l : List α)
    (helem : ∀ x ∈ l, ∀ b rest, f x = .ok b → rdr (b ++ rest) = .ok (x, rest))
    {b : Bytes} (h : wList f l = .ok b) (rest : Bytes) : rList rdr (b ++ rest) = .ok (l, rest) :=
  rList_wList f rdr l helem h rest

/-- a map with pairwise distinct keys (a Python dict) is read back equal, in the same order -/
theorem map_roundtrip {κ ν : Type} [BEq κ] [LawfulBEq κ]
    (kf : κ → Except Err Bytes) (vf : ν → Except Err Bytes)
    (rk : Bytes → Except Err (κ × Bytes)) (rv : Bytes → Except Err (ν × Bytes)) (m : List (κ × ν))
    (hk : ∀ e ∈ m, ∀ b rest, kf e.1 = .ok b → rk (b ++ rest) = .ok (e.1, rest))
    (hv : ∀ e ∈ m, ∀ b rest, vf e.2 = .ok b → rv (b ++ rest) = .ok (e.2, rest))
    (hdistinct : (m.map (·.1)).Nodup) {b : Bytes} (h : wMap kf vf m = .ok b) (rest : Bytes) :
    rMap rk rv (b ++ rest) = .ok (m, rest) :=
  rMap_wMap kf vf rk rv m hk hv hdistinct h rest

/-- instance: a list of lists of strings (nesting composes) -/
theorem nested_list_roundtrip (l : List (List (Option String))) {b : Bytes} (h : wList (wList wString) l = .ok b) (rest : Bytes) :
    rList (rList rString) (b ++ rest) = .ok (l, rest) :=
  rList_wList _ _ l (fun x _ _ r hx => rList_wList wString rString x (fun _ _ _ r' hs => rString_wString hs r') hx r) h rest

example : wMap wU8 wU16 [(1, 2), (3, 4)] = .ok [2, 0, 0, 0, 1, 2, 0, 3, 4, 0] := by decide
example : rMap (κ := Nat) rdU8 rdU16 [2, 0, 0, 0, 1, 2, 0, 1, 4, 0] = .ok ([(1, 4)], []) := by decide  -- a repeated key collapses

/-! ## variants of every tag -/

theorem variant_roundtrip {v : Variant} {b : Bytes} (h : wVariant v = .ok b) (rest : Bytes) :
    rVariant (b ++ rest) = .ok (v, rest) := rVariant_wVariant h rest

/-- tag per kind: none 0, negative int 1, double 2, bool 3, string 4, datetime 5, non-negative int 6 -/
theorem variant_tag {v : Variant} {b : Bytes} (h : wVariant v = .ok b) :
    b.head? = some (match v with
      | .none => 0 | .int x => if x < 0 then 1 else 6 | .double _ => 2 | .bool _ => 3 | .str _ => 4 | .datetime _ => 5) :=
  wVariant_tag h

example : wVariant (.int (-2)) = .ok [1, 0xFE, 0xFF, 0xFF, 0xFF, 0xFF, 0xFF, 0xFF, 0xFF] := by decide
example : wVariant (.int 2) = .ok [6, 2, 0, 0, 0, 0, 0, 0, 0] := by decide
example : rVariant [4, 0, 0] = .ok (.none, []) := by decide   -- an absent string inside a variant reads as None (not a written value)

/-! ## result, pid (both widths), datetime on the wire -/

theorem result_roundtrip {code : Nat} {b : Bytes} (h : wResult code = .ok b) (rest : Bytes) : rResult (b ++ rest) = .ok (code, rest) :=
  rResult_wResult h rest

theorem pid_roundtrip (pidSize : Nat) {v : Nat} {b : Bytes} (h : wPid pidSize v = .ok b) (rest : Bytes) :
    rPid pidSize (b ++ rest) = .ok (v, rest) := rPid_wPid pidSize h rest

theorem pid_writable_iff (pidSize v : Nat) :
    (∃ b, wPid pidSize v = .ok b) ↔ v < (if pidSize = 8 then 18446744073709551616 else 4294967296) := wPid_ok_iff pidSize v

theorem datetime_roundtrip {v : Nat} {b : Bytes} (h : wDateTime v = .ok b) (rest : Bytes) : rDateTime (b ++ rest) = .ok (v, rest) :=
  rDateTime_wDateTime h rest

example : wPid 4 4294967295 = .ok [255, 255, 255, 255] := by decide
example : wPid 8 4294967296 = .ok [0, 0, 0, 0, 1, 0, 0, 0] := by decide

/-! ## polymorphic data holders and Structure levels -/

theorem anydata_roundtrip {name : Option String} {payload b : Bytes} (h : wAnyData name payload = .ok b) (rest : Bytes) :
    rAnyData (b ++ rest) = .ok ((name, payload), rest) := rAnyData_wAnyData h rest

/-- one class of a Structure hierarchy, with or without the version+length header, given the class's own
`load` inverts its `save` (`body`); with a header the saved version is handed to `load` -/
theorem structure_level_roundtrip {α : Type} (header : Bool) (version : Nat) (body : Bytes)
    (load : Nat → Bytes → Except Err (α × Bytes)) (x : α)
    (hload : ∀ rest, load (if header then version else 0) (body ++ rest) = .ok (x, rest))
    {b : Bytes} (h : wStructLevel header version body = .ok b) (rest : Bytes) :
    rStructLevel header load (b ++ rest) = .ok (x, rest) :=
  rStructLevel_wStructLevel header version body load x hload h rest

example : wAnyData (some "NullData") [0, 0, 0, 0, 0, 0, 0, 0, 0, 0] =
    .ok ([9, 0, 78, 117, 108, 108, 68, 97, 116, 97, 0, 14, 0, 0, 0, 10, 0, 0, 0] ++ [0, 0, 0, 0, 0, 0, 0, 0, 0, 0]) := by decide

/-! ## polymorphic data holders over a class hierarchy and a registry (`NxModel/Nex/HolderPoly.lean`)

An object of ANY class of ANY class table (single inheritance below `Structure`, every class with its own level),
written through a holder and read back under ANY registry in which the object's own class name maps to its class,
comes back as an object of the same class with all levels of its hierarchy, and exactly the written bytes are
consumed. No hypothesis mentions the other registrations: registered ancestors (before or after the class),
descendants, siblings, three and more levels are all covered. -/

open HolderPoly in
theorem holder_poly_roundtrip (tbl : ClassTable) (reg : Registry) (header : Bool) (o : Obj) (d : ClassDef)
    (hd : tbl[o.cls]? = some d) (hreg : lookupLast d.name reg = some o.cls) (hwf : o.WellFormed tbl)
    {b : Bytes} (h : wHolder tbl header o = .ok b) (rest : Bytes) :
    rHolder tbl reg header (b ++ rest) = .ok (o.seen header, rest) :=
  rHolder_wHolder tbl reg header o d hd hreg hwf h rest

/-- the same with the registry described the way applications build it: pairwise different names, the object's
class registered under its own name somewhere in the list — and therefore for every order of the `register` calls -/
theorem holder_poly_roundtrip_any_order (tbl : HolderPoly.ClassTable) (reg reg' : HolderPoly.Registry) (header : Bool)
    (o : HolderPoly.Obj) (d : HolderPoly.ClassDef)
    (hd : tbl[o.cls]? = some d) (hnd : (reg.map (·.1)).Nodup) (hm : (d.name, o.cls) ∈ reg) (hp : reg.Perm reg')
    (hwf : o.WellFormed tbl) {b : Bytes} (h : HolderPoly.wHolder tbl header o = .ok b) (rest : Bytes) :
    HolderPoly.rHolder tbl reg' header (b ++ rest) = .ok (o.seen header, rest) :=
  HolderPoly.rHolder_wHolder tbl reg' header o d hd
    ((HolderPoly.lookupLast_perm hnd hp).trans (HolderPoly.lookupLast_of_mem_nodup hnd hm)) hwf h rest

/-- the registry is a dict: with pairwise different names, a name maps to a class iff that pair was registered -/
theorem holder_registry_lookup {name : String} {c : Nat} {reg : HolderPoly.Registry} (hnd : (reg.map (·.1)).Nodup) :
    HolderPoly.lookupLast name reg = some c ↔ (name, c) ∈ reg := HolderPoly.lookupLast_eq_some_iff hnd

section HolderPolyExamples
open HolderPoly
/-- Shape ← Circle ← Disc, own levels of 2, 3 and 1 bytes -/
def exTbl : ClassTable := [⟨"Shape", none, 2⟩, ⟨"Circle", some 0, 3⟩, ⟨"Disc", some 1, 1⟩]
def exCircle : Obj := ⟨1, [(1, [7, 8]), (0, [1, 2, 3])]⟩

example : hierarchy exTbl 2 = [0, 1, 2] := by decide
example : exCircle.WellFormed exTbl := by unfold Obj.WellFormed; decide
/-- base registered before derived, derived before base, the base not at all: the Circle comes back a Circle -/
example : ∀ reg ∈ [[("Shape", 0), ("Circle", 1), ("Disc", 2)], [("Disc", 2), ("Circle", 1), ("Shape", 0)], [("Circle", 1)]],
    (wHolder exTbl true exCircle >>= fun b => rHolder exTbl reg true (b ++ [9])) = .ok (exCircle, [9]) := by decide
/-- what the round trip excludes: a frame announcing the BASE class's name for the same payload decodes to a Shape
without the Circle's level (nothing raises, the frame is consumed exactly) -/
example : (wStruct true exCircle.levels >>= fun p => wAnyData (some "Shape") p >>= fun b =>
    rHolder exTbl [("Shape", 0), ("Circle", 1)] true (b ++ [9])) = .ok (⟨0, [(1, [7, 8])]⟩, [9]) := by decide
end HolderPolyExamples

/-! ## DateTime: calendar accessors and Unix time -/

open DateTime in
/-- the accessors return the fields a value was made from (fields within their bit widths, any year) -/
theorem datetime_fields_make (f : Fields) (h : f.InRange) : fields (make f) = f := fields_make f h

open DateTime in
/-- for every value — all 2^64 wire values and every larger Python int — re-making it from its fields is the identity -/
theorem datetime_make_fields (v : Nat) : make (fields v) = v := make_fields v

open DateTime in
/-- days → civil date → days is the identity for every day number, and the civil date is a valid calendar date -/
theorem civil_roundtrip (z : Nat) :
    daysOfCivil (civilOfDays z).1 (civilOfDays z).2.1 (civilOfDays z).2.2 = z ∧
    1 ≤ (civilOfDays z).2.1 ∧ (civilOfDays z).2.1 ≤ 12 ∧ 1 ≤ (civilOfDays z).2.2 ∧
    (civilOfDays z).2.2 ≤ daysInMonth (civilOfDays z).1 (civilOfDays z).2.1 :=
  ⟨daysOfCivil_civilOfDays z, civilOfDays_valid z⟩

/-- Python's `int(str(v)) = v` for the modelled `int()` (surrounding white space, optional sign, single underscores between
digits) and `str()`: the value of an int-valued StationURL parameter survives its text form, for every integer -/
theorem stationurl_int_of_str (v : Int) : StationURL.pyInt (StationURL.intStr v) = some v := StationURL.pyInt_intStr v

open StationURL in
/-- typed parameter access survives the text form: for a well-formed URL, `parse (repr u)` succeeds and `u'[field]` on the
result equals `u[field]` on the original, for EVERY field name — string parameters, int parameters held as ints or as text,
absent parameters (defaults) and unknown names (KeyError) alike -/
theorem stationurl_typed_access_roundtrip (u : URL) (h : WF u) (field : Str) :
    ∃ u', parse (some (repr u)) = .ok u' ∧ getitem u' field = getitem u field :=
  ⟨strVals u, parse_repr u h, getitem_strVals u field⟩

/-- on a concrete URL with an int-valued port held as an int: well-formed, and the typed read gives the int back -/
example : StationURL.getitem (StationURL.strVals ⟨"prudps".toList, [("port".toList, .i 60000), ("address".toList, .s "1.2.3.4".toList)]⟩)
    "port".toList = .ok (.i 60000) := by decide

/-- and the parser is not the identity on text: white space, a plus sign and underscores are accepted, a double underscore is not -/
example : StationURL.pyInt " +1_000 ".toList = some 1000 ∧ StationURL.pyInt "-42".toList = some (-42) ∧
    StationURL.pyInt "1__0".toList = none ∧ StationURL.pyInt "".toList = none := by decide

open DateTime in
/-- civil date → days → civil date is the identity on every valid calendar date of every year ≥ 1 (no upper bound):
with `civil_roundtrip` the two conversions are mutually inverse bijections between day numbers and valid dates -/
theorem civil_roundtrip_inverse (y m d : Nat) (hy : 1 ≤ y) (hm1 : 1 ≤ m) (hm2 : m ≤ 12) (hd1 : 1 ≤ d)
    (hd2 : d ≤ daysInMonth y m) : civilOfDays (daysOfCivil y m d) = (y, m, d) :=
  civilOfDays_daysOfCivil y m d hy hm1 hm2 hd1 hd2

open DateTime in
/-- two valid calendar dates with the same day number are the same date (no two dates share a Unix day) -/
theorem civil_date_of_day_unique (y m d y' m' d' : Nat)
    (hy : 1 ≤ y) (hm1 : 1 ≤ m) (hm2 : m ≤ 12) (hd1 : 1 ≤ d) (hd2 : d ≤ daysInMonth y m)
    (hy' : 1 ≤ y') (hm1' : 1 ≤ m') (hm2' : m' ≤ 12) (hd1' : 1 ≤ d') (hd2' : d' ≤ daysInMonth y' m')
    (h : daysOfCivil y m d = daysOfCivil y' m' d') : (y, m, d) = (y', m', d') := by
  rw [← civilOfDays_daysOfCivil y m d hy hm1 hm2 hd1 hd2, h, civilOfDays_daysOfCivil y' m' d' hy' hm1' hm2' hd1' hd2']

open DateTime in
/-- DateTime → Unix time → DateTime: whenever `timestamp()` succeeds in a zone `off` seconds east of UTC,
`fromtimestamp` of the result succeeds and returns the very same value — no further hypothesis. (The direction
Unix → DateTime → Unix is `datetime_unix_partial` below, which needs one and has a genuine counterexample.) -/
theorem datetime_to_unix_and_back (off : Int) (v : Nat) (t : Int) (h : timestamp off v = .ok t) :
    fromTimestamp off t = .ok v := fromTimestamp_timestamp off v t h

open DateTime in
/-- hence `timestamp()` never maps two different DateTime values to one Unix time (fixed offset) -/
theorem datetime_timestamp_injective (off : Int) (v v' : Nat) (t : Int)
    (h : timestamp off v = .ok t) (h' : timestamp off v' = .ok t) : v = v' := by
  have a := fromTimestamp_timestamp off v t h
  have b := fromTimestamp_timestamp off v' t h'
  rw [a] at b
  exact Except.ok.inj b

/-- the hypothesis is satisfiable: 2024-02-29T12:34:56 nine hours east of UTC -/
example : DateTime.timestamp 32400 (DateTime.make ⟨2024, 2, 29, 12, 34, 56⟩) = .ok 1709177696 := by decide

/-- the hypotheses are satisfiable at the corners: 29 February of a leap year, 31 December 9999, 1 January of year 1 -/
example : DateTime.civilOfDays (DateTime.daysOfCivil 2024 2 29) = (2024, 2, 29) ∧ (29 : Nat) ≤ DateTime.daysInMonth 2024 2 ∧
    DateTime.civilOfDays (DateTime.daysOfCivil 9999 12 31) = (9999, 12, 31) ∧
    DateTime.civilOfDays (DateTime.daysOfCivil 1 1 1) = (1, 1, 1) := by decide

/-- and the guard is needed: 29 February of a common year is not a date, and does not come back -/
example : DateTime.civilOfDays (DateTime.daysOfCivil 2023 2 29) = (2023, 3, 1) := by decide

/- Full statement wanted by the property (NOT provable for the code as it is — see the counterexample):
   ∀ off t, the local date of `t` lies in 1970..9999 → ∃ v, fromTimestamp off t = ok v ∧ timestamp off v = ok t.
   Proved: the same with the extra hypothesis `h3` (the civil time one offset later is still ≤ 9999-12-31T23:59:59). -/
open DateTime in
theorem datetime_unix_partial (off t : Int)
    (h1 : yearOk (t + off + (epochZ * 86400 : Nat)) = true)
    (h2 : yearOk (t + off + (epochZ * 86400 : Nat) - 86400) = true)
    (h3 : yearOk (t + off + (epochZ * 86400 : Nat) + off) = true) :
    ∃ v, fromTimestamp off t = .ok v ∧ timestamp off v = .ok t :=
  timestamp_fromTimestamp off t h1 h2 h3

open DateTime in
/-- 9999-12-31T23:59:59 at UTC+09:00: `fromtimestamp` succeeds, `timestamp()` of the result raises ValueError -/
theorem datetime_unix_counterexample :
    ∃ v, fromTimestamp 32400 253402268399 = .ok v ∧ timestamp 32400 v = .error .value :=
  timestamp_fromTimestamp_counterexample

open DateTime in
example : (⟨9999, 12, 31, 23, 59, 59⟩ : Fields).InRange := by decide
open DateTime in
example : yearOk (1596279690 + 20700 + (epochZ * 86400 : Nat)) = true ∧ yearOk (1596279690 + 20700 + (epochZ * 86400 : Nat) - 86400) = true ∧
    yearOk (1596279690 + 20700 + (epochZ * 86400 : Nat) + 20700) = true := by decide
open DateTime in
example : fromTimestamp 0 1596279690 = .ok (make ⟨2020, 8, 1, 11, 1, 30⟩) := by decide

/-! ### time zones whose rules changed over the years

   The zone is ANY function instant → UTC offset; `timestamp()` is CPython's `local_to_seconds` (the routine behind
   `timestamp()` of a naive datetime, `NxModel/Nex/C15Zone.lean`), which probes the zone at up to five instants.
   Full statement wanted by the property: every instant whose civil time occurs once round-trips, in every zone.
   Proved: the same for every zone that shows at most ONE rule change within three days of the instant (between any two
   offsets within a day of UTC: DST starting / ending / abolished, a moved standard offset, a date-line jump), local year
   1..9999 minus the first day. NOT proved: two rule changes less than three days apart (no zone of the tz database has
   that after 1970); range errors at the far edge of year 9999 are not modelled here (known finding of the fixed zones). -/
open DateTime Zone in
theorem datetime_unix_zone_history (z : Zone) (T a b t : Int)
    (ha : -86400 ≤ a ∧ a ≤ 86400) (hb : -86400 ≤ b ∧ b ≤ 86400)
    (hz : ∀ x, t - 259200 ≤ x → x ≤ t + 259200 → z x = zTwo T a b x)
    (once : ∀ t', t' + z t' = t + z t → t' = t)
    (h1 : yearOk (t + z t + E) = true) (h2 : yearOk (t + z t + E - 86400) = true) :
    ∃ v, fromTimestampZ z t = .ok v ∧ timestampZ z v = .ok t :=
  timestampZ_fromTimestampZ z T a b t ha hb hz once h1 h2

open Zone in
/-- `local_to_seconds` itself, one rule change between ANY two offsets: it inverts `local` wherever the civil time occurs once -/
theorem local_to_seconds_inverts_local (T a b u : Int)
    (once : ∀ u', localOf (zTwo T a b) u' = localOf (zTwo T a b) u → u' = u) :
    localToSeconds (zTwo T a b) (localOf (zTwo T a b) u) = u :=
  localToSeconds_two T a b u once

/- the hypotheses at a non-trivial point: America/Mexico_City, one second after DST began on 1996-04-07 (02:00 CST -> 03:00 CDT) -/
open Zone in
example : ∀ t', t' + zTwo 828864000 (-21600) (-18000) t' = 828864001 + zTwo 828864000 (-21600) (-18000) 828864001 → t' = 828864001 := by
  intro t' h; simp only [zTwo] at h; split at h <;> simp at h <;> omega
open DateTime Zone in
example : fromTimestampZ (zTab (-21600) [(828864000, -18000), (846399600, -21600)]) 828864001 = .ok (make ⟨1996, 4, 7, 3, 0, 1⟩) := by decide
open DateTime Zone in
example : timestampZ (zTab (-21600) [(828864000, -18000), (846399600, -21600)]) (make ⟨1996, 4, 7, 3, 0, 1⟩) = .ok 828864001 := by decide
/- a skipped local time (02:30 that night) goes to the later instant, a repeated one (01:30 on 1996-10-27) to its first occurrence -/
open DateTime Zone in
example : timestampZ (zTab (-21600) [(828864000, -18000), (846399600, -21600)]) (make ⟨1996, 4, 7, 2, 30, 0⟩) = .ok 828865800 := by decide
open DateTime Zone in
example : timestampZ (zTab (-21600) [(828864000, -18000), (846399600, -21600)]) (make ⟨1996, 10, 27, 1, 30, 0⟩) = .ok 846397800 := by decide

/-! ## StationURL: text form -/

open StationURL in
/-- `parse (repr u)` returns the scheme and every parameter in order, values as the strings `repr` printed, for a
non-empty scheme without `:`, names/values free of `; = : /`, distinct names other than `scheme`/`self` -/
theorem stationurl_parse_repr (u : URL) (h : WF u) : parse (some (repr u)) = .ok (strVals u) := parse_repr u h

open StationURL in
/-- … and a URL holding string values (e.g. any parsed one) comes back identical -/
theorem stationurl_roundtrip_partial (u : URL) (h : WF u) (hs : ∀ p ∈ u.params, ∃ s, p.2 = PVal.s s) :
    parse (some (repr u)) = .ok u := by
  rw [parse_repr u h, strVals_of_str u hs]

open StationURL in
theorem stationurl_stream_roundtrip (u : URL) (h : WF u) {b : Bytes} (hw : wStationURL u = .ok b) (rest : Bytes) :
    rStationURL (b ++ rest) = .ok (strVals u, rest) := rStationURL_wStationURL u h hw rest

open StationURL in
example : WF ⟨"prudp".toList, [("address".toList, .s "1.2.3.4".toList), ("port".toList, .i 1223)]⟩ :=
  ⟨by decide, by decide, by decide, by decide, by decide⟩
open StationURL in
example : parse (some "prudp:/address=1.2.3.4;port=1223".toList) =
    .ok ⟨"prudp".toList, [("address".toList, .s "1.2.3.4".toList), ("port".toList, .s "1223".toList)]⟩ := by decide
open StationURL in
example : getitem ⟨"prudp".toList, [("port".toList, .s "1223".toList)]⟩ "port".toList = .ok (.i 1223) := by decide

/-! ## state carried on ONE object across a sequence of operations

Several values through one `StreamOut`/`StreamIn`, and a `StationURL` that is serialised, edited through its
mutators (`url[k] = v`, `.params`, `.urlscheme`, `copy()`, re-parse) and serialised again. The model object has
no state besides its logical content; the real object is tied to `ObjWalk.run` by the `url.walk` / `seq.w` /
`seq.r` correspondence lines and by the "equals a freshly built object" oracle of `harness/nexval_walk.py`. -/

open ObjWalk in
/-- values written one after the other to one stream are read back one after the other, each equal, and the
reader stops exactly at the end of the last one -/
theorem stream_sequence_roundtrip (pidSize : Nat) (items : List (Ty × Val))
    (helem : ∀ e ∈ items, ∀ b rest, wVal pidSize e.1 e.2 = .ok b → rVal pidSize e.1 (b ++ rest) = .ok (e.2, rest))
    {b : Bytes} (h : wSeq pidSize items = .ok b) (rest : Bytes) :
    rSeq pidSize (items.map (·.1)) (b ++ rest) = .ok (items.map (·.2), rest) :=
  rSeq_wSeq pidSize items helem b rest h

open ObjWalk in
/-- what a stream holds after `xs` then `ys` is what a fresh stream holds after `xs` followed by what a fresh
stream holds after `ys`: earlier writes leave nothing behind that changes later ones -/
theorem stream_sequence_concat (pidSize : Nat) (xs ys : List (Ty × Val)) {a b : Bytes}
    (ha : wSeq pidSize xs = .ok a) (hb : wSeq pidSize ys = .ok b) : wSeq pidSize (xs ++ ys) = .ok (a ++ b) :=
  wSeq_append pidSize xs ys ha hb

open ObjWalk in
example : wSeq 4 [(.pid, .nat 7), (.string, .str (some "é")), (.variant, .variant (.int (-1)))] =
    .ok [7, 0, 0, 0, 3, 0, 0xC3, 0xA9, 0, 1, 255, 255, 255, 255, 255, 255, 255, 255] := by decide

open ObjWalk StationURL in
/-- every observation made during a walk is the observation a fresh object with the logical content reached
so far would give (no cached text, no stale typed value) -/
theorem stationurl_walk_observations (u : URL) (ops : List UOp) (i : Nat) (h : i < ops.length) :
    (run u ops).1[i]? = some (observe (content u (ops.take i)) ops[i]) := run_obs u ops i h

open ObjWalk StationURL in
theorem stationurl_walk_final (u : URL) (ops : List UOp) : (run u ops).2 = content u ops := run_final u ops

open ObjWalk StationURL in
/-- after ANY sequence of clean operations on one URL object its text form parses back to its parameters -/
theorem stationurl_walk_roundtrip (u : URL) (h : WF u) (ops : List UOp) (hops : ∀ op ∈ ops, OpClean op) :
    parse (some (repr (run u ops).2)) = .ok (strVals (run u ops).2) := by
  rw [run_final]; exact parse_repr _ (WF_content u h ops hops)

open ObjWalk StationURL in
/-- … and so does its stream form, with exact consumption -/
theorem stationurl_walk_stream_roundtrip (u : URL) (h : WF u) (ops : List UOp) (hops : ∀ op ∈ ops, OpClean op)
    {b : Bytes} (hw : wStationURL (run u ops).2 = .ok b) (rest : Bytes) :
    rStationURL (b ++ rest) = .ok (strVals (run u ops).2, rest) :=
  rStationURL_wStationURL _ (by rw [run_final]; exact WF_content u h ops hops) hw rest

open ObjWalk StationURL in
/-- typed access sees an integer stored with `url[k] = n`, whatever was stored or serialised before -/
theorem stationurl_set_get_int (u : URL) (k : Str) (n : Int) (hs : k ∉ strParams) (hi : k ∈ intParams) :
    getitem (setitem u k (.i n)) k = .ok (.i n) := getitem_setitem_int u k n hs hi

open ObjWalk StationURL in
theorem stationurl_set_get_str (u : URL) (k : Str) (v : PVal) (hs : k ∈ strParams) :
    getitem (setitem u k v) k = .ok (.s v.render) := getitem_setitem_str u k v hs

open ObjWalk StationURL in
/-- … and `url[k] = v` changes typed access to no other parameter -/
theorem stationurl_set_get_other (u : URL) (k f : Str) (v : PVal) (hne : f ≠ k) :
    getitem (setitem u k v) f = getitem u f := getitem_setitem_other u k f v hne

open ObjWalk StationURL in
example : (run ⟨"prudp".toList, [("port".toList, .i 1)]⟩ [.str, .set "port".toList (.i 2), .str, .get "port".toList]).1 =
    [.text "prudp:/port=1".toList, .done, .text "prudp:/port=2".toList, .pval (.i 2)] := by decide
open ObjWalk StationURL in
example : OpClean (.set "port".toList (.i 2)) := ⟨by decide, by decide, by decide, by decide⟩
open ObjWalk StationURL in
example : "port".toList ∉ strParams ∧ "port".toList ∈ intParams ∧ "address".toList ∈ strParams := by decide

/-! ## Result: the error bit, and the code ↔ name table -/

theorem result_error_bit (c : Nat) :
    Result.isError (Result.mkError c) = true ∧ Result.isSuccess (Result.mkSuccess c) = true ∧
    Result.isError c = !Result.isSuccess c ∧ (Result.isError c = true ↔ c / 2147483648 % 2 = 1) :=
  ⟨isError_mkError c, isSuccess_mkSuccess c, isError_eq_not_isSuccess c, isError_iff_bit31 c⟩

theorem result_error_code_recoverable (c : Nat) (h : c < errorMask) : Result.mkSuccess (Result.mkError c) = c :=
  mkSuccess_mkError c h

/-- any table whose (kernel-evaluated) checks succeed is a bijection between its codes and names:
`nameOf`/`codeOf` are inverse on exactly the table's entries, `Result.error(name).name() = name`,
`Result.error(name).code() = code | 2^31`, and no name collides with "success"/"unknown error".
The check itself is a *generated obligation* re-run on every `./check C15` on the table extracted from errors.py. -/
theorem error_table_bijective_of_checks (fuel : Nat) (codes keys : List Nat)
    (hlen : Nat.beq codes.length keys.length = true)
    (hcodes : (sortedN codes || nodupN codes) = true)
    (hkeys : nodupN keys = true)
    (hvalid : eqN ((genNames fuel keys).map encodeName) keys = true)
    (hbelow : allBelowN errorMask codes = true)
    (hres : (notInN (encodeName successName) keys && notInN (encodeName unknownName) keys) = true) :
    TableBijective (genTable fuel codes keys) :=
  tableBijective_of_gen fuel codes keys hlen hcodes hkeys hvalid hbelow hres

example : TableBijective (genTable 8 [0x10001, 0x10002] [encodeName [67, 111], encodeName [68]]) :=
  error_table_bijective_of_checks 8 _ _ (by decide) (by decide) (by decide) (by decide) (by decide) (by decide)

end Nx.C15
