import NxModel.Bytes
/-!
# `nintendo.nex.settings.Settings` — typed table, `__setitem__`, `load`, `reset`, `copy`

`field_types` maps each of the 23 setting names to `int`, `str` or `float`; `__setitem__` rejects an unknown
name with `KeyError` and stores `type(value)`; `load(name)` reads `files/config/<name>.cfg` line by line
(`strip`, skip blank, split at the first `=`, a line without `=` is a `ValueError`) and applies the
assignments in order (so an error leaves the earlier ones applied); `Settings()` starts from the empty
dict and loads `default`; `copy()` makes a new object with a shallow copy of the dict.

Floats are kept as the exact rational of the decimal text (`num / den`); the harness checks that the real
`float` is the correctly rounded value of that rational.  No Mathlib imports.
-/
namespace Nx.Api
open Nx

inductive Ty where
  | int | str | float
  deriving DecidableEq, Repr

inductive Key where
  | nexVersion | nexClientVersion | nexStructHeader | nexPidSize
  | prudpAccessKey | prudpVersion | prudpMinorVersion | prudpSupportedFunctions
  | prudpTransport | prudpCompression | prudpEncryption
  | prudpResendTimeout | prudpResendLimit | prudpPingTimeout
  | prudpFragmentSize | prudpMaxSubstreamId
  | v0SignatureVersion | v0FlagsVersion | v0ChecksumVersion
  | kerberosKeySize | kerberosKeyDerivation | kerberosTicketVersion
  deriving DecidableEq, Repr

def Key.all : List Key :=
  [.nexVersion, .nexClientVersion, .nexStructHeader, .nexPidSize, .prudpAccessKey, .prudpVersion, .prudpMinorVersion,
   .prudpSupportedFunctions, .prudpTransport, .prudpCompression, .prudpEncryption, .prudpResendTimeout, .prudpResendLimit,
   .prudpPingTimeout, .prudpFragmentSize, .prudpMaxSubstreamId, .v0SignatureVersion, .v0FlagsVersion, .v0ChecksumVersion,
   .kerberosKeySize, .kerberosKeyDerivation, .kerberosTicketVersion]

def Key.name : Key → String
  | .nexVersion => "nex.version" | .nexClientVersion => "nex.client_version" | .nexStructHeader => "nex.struct_header"
  | .nexPidSize => "nex.pid_size" | .prudpAccessKey => "prudp.access_key" | .prudpVersion => "prudp.version"
  | .prudpMinorVersion => "prudp.minor_version" | .prudpSupportedFunctions => "prudp.supported_functions"
  | .prudpTransport => "prudp.transport" | .prudpCompression => "prudp.compression" | .prudpEncryption => "prudp.encryption"
  | .prudpResendTimeout => "prudp.resend_timeout" | .prudpResendLimit => "prudp.resend_limit"
  | .prudpPingTimeout => "prudp.ping_timeout" | .prudpFragmentSize => "prudp.fragment_size"
  | .prudpMaxSubstreamId => "prudp.max_substream_id" | .v0SignatureVersion => "prudp_v0.signature_version"
  | .v0FlagsVersion => "prudp_v0.flags_version" | .v0ChecksumVersion => "prudp_v0.checksum_version"
  | .kerberosKeySize => "kerberos.key_size" | .kerberosKeyDerivation => "kerberos.key_derivation"
  | .kerberosTicketVersion => "kerberos.ticket_version"

def Key.ty : Key → Ty
  | .prudpAccessKey => .str
  | .prudpResendTimeout => .float
  | .prudpPingTimeout => .float
  | _ => .int

def Key.ofChars? (n : List Char) : Option Key := Key.all.find? fun k => k.name.toList == n
def Key.ofName? (n : String) : Option Key := Key.ofChars? n.toList

/-- a stored value -/
inductive Val where
  | int (i : Int)
  | str (s : List Char)
  | rat (num : Int) (den : Nat)      -- a float, as the exact rational of its decimal text
  deriving DecidableEq, Repr

def Val.ty : Val → Ty
  | .int _ => .int | .str _ => .str | .rat .. => .float

/-- what a caller passes to `__setitem__` -/
inductive PyVal where
  | int (i : Int)
  | str (s : List Char)
  | bool (b : Bool)
  | none
  deriving DecidableEq, Repr

def isWs (c : Char) : Bool := c == ' ' || c == '\t' || c == '\n' || c == '\r' || c.toNat == 11 || c.toNat == 12

def strip (l : List Char) : List Char := ((l.dropWhile isWs).reverse.dropWhile isWs).reverse

def digitsVal (d : List Char) : Nat := d.foldl (fun acc c => acc * 10 + (c.toNat - 48)) 0

def splitSign (l : List Char) : Bool × List Char :=
  match l with
  | '-' :: r => (true, r)
  | '+' :: r => (false, r)
  | r => (false, r)

/-- `int(text)`: optional surrounding whitespace, optional sign, ASCII decimal digits -/
def parseInt (s : List Char) : Option Int :=
  let (neg, d) := splitSign (strip s)
  if d.isEmpty || !d.all Char.isDigit then none
  else some (if neg then -(digitsVal d : Int) else (digitsVal d : Int))

/-- `float(text)` for plain decimal text `[sign]digits[.digits]` (also `.5` and `5.`) -/
def parseDecimal (s : List Char) : Option (Int × Nat) :=
  let (neg, d) := splitSign (strip s)
  let ip := d.takeWhile Char.isDigit
  let rest := d.dropWhile Char.isDigit
  let fp? : Option (List Char) := match rest with
    | [] => some []
    | '.' :: f => if f.all Char.isDigit then some f else none
    | _ => none
  match fp? with
  | none => none
  | some fp =>
    if ip.isEmpty && fp.isEmpty then none
    else
      let num : Int := digitsVal (ip ++ fp)
      some (if neg then -num else num, 10 ^ fp.length)

def natChars (n : Nat) : List Char := (toString n).toList

/-- `str(value)` -/
def pyStr : PyVal → List Char
  | .int i => (toString i).toList
  | .str s => s
  | .bool true => "True".toList
  | .bool false => "False".toList
  | .none => "None".toList

/-- `field_types[name](value)` -/
def coerce (t : Ty) (v : PyVal) : Except Err Val :=
  match t, v with
  | .str, v => .ok (.str (pyStr v))
  | .int, .int i => .ok (.int i)
  | .int, .bool b => .ok (.int (if b then 1 else 0))
  | .int, .str s => match parseInt s with | some i => .ok (.int i) | none => .error .value
  | .int, .none => .error .type
  | .float, .int i => .ok (.rat i 1)
  | .float, .bool b => .ok (.rat (if b then 1 else 0) 1)
  | .float, .str s => match parseDecimal s with | some (n, d) => .ok (.rat n d) | none => .error .value
  | .float, .none => .error .type

/-- the dict inside a `Settings` object -/
abbrev Settings := Key → Option Val

def Settings.empty : Settings := fun _ => none

def Settings.set (s : Settings) (k : Key) (v : Val) : Settings := fun k' => if k' = k then some v else s k'

/-- `settings[name] = value` -/
def Settings.setitem (s : Settings) (name : List Char) (v : PyVal) : Except Err Settings :=
  match Key.ofChars? name with
  | none => .error .key
  | some k => (coerce k.ty v).map (s.set k)

/-- `settings[name]` -/
def Settings.getitem (s : Settings) (name : List Char) : Except Err Val :=
  match Key.ofChars? name with
  | none => .error .key
  | some k => match s k with | some v => .ok v | none => .error .key

def splitEq : List Char → Option (List Char × List Char)
  | [] => none
  | '=' :: r => some ([], r)
  | c :: r => (splitEq r).map fun (a, b) => (c :: a, b)

/-- `Settings.load` on the lines of a configuration file: the settings after the last assignment that ran,
    and the exception that stopped it, if any -/
def Settings.loadLines (s : Settings) : List (List Char) → Settings × Option Err
  | [] => (s, none)
  | line :: rest =>
    let l := strip line
    if l.isEmpty then Settings.loadLines s rest
    else match splitEq l with
      | none => (s, some .value)
      | some (f, v) =>
        match s.setitem (strip f) (.str (strip v)) with
        | .ok s' => Settings.loadLines s' rest
        | .error e => (s, some e)

/-- `Settings(name)`: empty dict, `reset()` (= load `default`), then `load(name)` if given -/
def Settings.construct (defaultCfg : List (List Char)) (named : Option (List (List Char))) : Settings × Option Err :=
  match Settings.loadLines Settings.empty defaultCfg with
  | (s, some e) => (s, some e)
  | (s, none) => match named with
    | none => (s, none)
    | some lines => Settings.loadLines s lines

/-- every key holds a value of its declared type -/
def Settings.allTyped (s : Settings) : Bool :=
  Key.all.all fun k => match s k with | some v => v.ty == k.ty | none => false

def Settings.toList (s : Settings) : List (Key × Option Val) := Key.all.map fun k => (k, s k)

/-! ## objects: `copy()` allocates -/

/-- a heap of `Settings` objects; a reference is an index -/
abbrev Heap := List Settings

def Heap.new (h : Heap) (s : Settings) : Heap × Nat := (h ++ [s], h.length)

/-- `obj.copy()`: a new object holding a copy of the dict -/
def Heap.copy (h : Heap) (r : Nat) : Heap × Nat := (h ++ [h.getD r Settings.empty], h.length)

/-- `obj[name] = value` -/
def Heap.setitem (h : Heap) (r : Nat) (name : List Char) (v : PyVal) : Except Err Heap :=
  ((h.getD r Settings.empty).setitem name v).map fun s => h.set r s

def Heap.get (h : Heap) (r : Nat) : Settings := h.getD r Settings.empty

end Nx.Api
