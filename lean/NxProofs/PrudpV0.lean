import NxProofs.PrudpV1
/-! v0 codec (all 8 variants, one proof parametric in `V0Cfg`): decode ∘ encode, concatenation, progress -/
set_option linter.unusedSimpArgs false
namespace Nx.Prudp
open Nx

theorem v0Checksum_lt (c : V0Cfg) (d : Bytes) :
    v0Checksum c d < (if c.checksumVersion = 0 then 4294967296 else 256) := by
  unfold v0Checksum
  by_cases h : c.checksumVersion = 0
  · simp only [h, if_true]; omega
  · simp only [h, if_false]; omega

theorem v0ChecksumBytes_length (c : V0Cfg) (d : Bytes) : (v0ChecksumBytes c d).length = c.csz := by
  unfold v0ChecksumBytes V0Cfg.csz; split <;> simp

theorem v0RdChecksum_enc (c : V0Cfg) (d rest : Bytes) :
    v0RdChecksum c (v0ChecksumBytes c d ++ rest) = .ok (v0Checksum c d, rest) := by
  have := v0Checksum_lt c d
  unfold v0RdChecksum v0ChecksumBytes
  by_cases h : c.checksumVersion = 0
  · simp only [h, if_true] at this ⊢; exact rdU32_u32le _ _ this
  · simp only [h, if_false] at this ⊢; exact rdU8_u8 _ _ this

theorem v0RdTypeFlags_enc (c : V0Cfg) (p : Packet) (x : Bytes)
    (h : if c.flagsVersion = 0 then p.type < 8 ∧ p.flags < 32 else p.type < 16 ∧ p.flags < 4096) :
    v0RdTypeFlags c (v0TypeFlags c p ++ x) = .ok (p.flags, p.type, x) := by
  unfold v0RdTypeFlags v0TypeFlags
  by_cases hf : c.flagsVersion = 0
  · simp only [hf, if_true] at h ⊢
    rw [pyOr3 _ h.1, rdU8_u8 _ _ (by omega)]
    simp only [Except.ok.injEq, Prod.mk.injEq, and_true]
    omega
  · simp only [hf, if_false] at h ⊢
    rw [pyOr4 _ h.1, rdU16_u16le _ _ (by omega)]
    simp only [Except.ok.injEq, Prod.mk.injEq, and_true]
    omega

/-- connection signature and fragment id, as written by `encode_options` -/
def v0OptsA (p : Packet) : Bytes :=
  (if isSynOrConnect p.type then p.connectionSignature.getD [] else []) ++ (if p.type = 2 then u8 p.fragmentId else [])

def v0SizeField (p : Packet) : Bytes := if hasSize p.flags then u16le p.payload.length else []

theorem v0EncodeOptions_eq (p : Packet) : v0EncodeOptions p = v0OptsA p ++ v0SizeField p := by
  simp [v0EncodeOptions, v0OptsA, v0SizeField]

theorem v0RdOptions_enc (p : Packet) (x : Bytes)
    (hcs : if isSynOrConnect p.type then optLen p.connectionSignature 4 else p.connectionSignature = none)
    (hfr : if p.type = 2 then p.fragmentId < 256 else p.fragmentId = 0) :
    v0RdOptions p.type (v0OptsA p ++ x) = .ok (p.connectionSignature, p.fragmentId, x) := by
  unfold v0RdOptions v0OptsA
  rcases v1_type_cases p.type with ht | ht | ht | ⟨h0, h1, h2⟩
  · simp [ht, isSynOrConnect] at hcs hfr ⊢
    obtain ⟨s, hs, hsl⟩ := optLen_some hcs
    simp [hs, rd_append' _ _ hsl, Except.map, hfr]
  · simp [ht, isSynOrConnect] at hcs hfr ⊢
    obtain ⟨s, hs, hsl⟩ := optLen_some hcs
    simp [hs, rd_append' _ _ hsl, Except.map, hfr]
  · simp [ht, isSynOrConnect] at hcs hfr ⊢
    simp [hcs, rdU8_u8 _ _ hfr]
  · simp [h0, h1, h2, isSynOrConnect] at hcs hfr ⊢
    simp [hcs, hfr]

theorem v0RdPayload_size (c : V0Cfg) (flags : Nat) (whole r payload tailr pre : Bytes)
    (hs : hasSize flags = true) (hw : whole = pre ++ (u16le payload.length ++ (payload ++ tailr)))
    (hr : r = u16le payload.length ++ (payload ++ tailr)) (hl : payload.length < 65536) :
    v0RdPayload c flags whole r = .ok (payload, pre ++ (u16le payload.length ++ payload), tailr) := by
  subst hw hr
  unfold v0RdPayload
  simp only [hs, if_true]
  rw [rdU16_u16le _ _ hl]; simp only []
  rw [rd_append]; simp only []
  congr 2
  have : (pre ++ (u16le payload.length ++ (payload ++ tailr))).length - tailr.length =
      (pre ++ (u16le payload.length ++ payload)).length := by simp; omega
  rw [this]
  have e : pre ++ (u16le payload.length ++ (payload ++ tailr)) = (pre ++ (u16le payload.length ++ payload)) ++ tailr := by
    simp
  rw [e, List.take_left']
  rfl

theorem v0RdPayload_nosize (c : V0Cfg) (flags : Nat) (whole r payload ckb pre : Bytes)
    (hs : hasSize flags = false) (hw : whole = pre ++ (payload ++ ckb)) (hr : r = payload ++ ckb)
    (hck : ckb.length = c.csz) :
    v0RdPayload c flags whole r = .ok (payload, pre ++ payload, ckb) := by
  subst hw hr
  unfold v0RdPayload
  simp only [hs, Bool.false_eq_true, if_false, ← hck]
  have e1 : (payload ++ ckb).length - ckb.length = payload.length := by simp
  have e2 : (pre ++ (payload ++ ckb)).length - ckb.length = (pre ++ payload).length := by simp; omega
  have e3 : pre ++ (payload ++ ckb) = (pre ++ payload) ++ ckb := by simp
  rw [e1, e2, e3, List.take_left', List.drop_left', List.take_left']
  all_goals rfl


/-- the bytes before the size field -/
def v0Pre (c : V0Cfg) (p : Packet) : Bytes :=
  u8 (pyOr p.sourcePort p.sourceType 4) ++ (u8 (pyOr p.destPort p.destType 4) ++ (v0TypeFlags c p ++ (u8 p.sessionId ++
    (p.signature.getD [] ++ (u16le p.packetId ++ v0OptsA p)))))

theorem v0Body_eq (c : V0Cfg) (p : Packet) : v0Body c p = v0Pre c p ++ (v0SizeField p ++ p.payload) := by
  simp [v0Body, v0Pre, v0EncodeOptions_eq]

theorem v0DecodeOne_encode (c : V0Cfg) (p : Packet) (rest : Bytes) (h : V0WF c p)
    (hr : hasSize p.flags = true ∨ rest = []) :
    v0DecodeOne c (v0Encode c p ++ rest) = .ok (p, rest) := by
  obtain ⟨hver, hst, hsp, hdt, hdp, htf, hse, hpid, hsig, hcs, hfr, hsub, hiu, hms, hsf, hmv, hpl⟩ := h
  obtain ⟨sg, hsg, hsgl⟩ := optLen_some hsig
  have h1 : p.sourcePort + p.sourceType * 16 < 256 := by omega
  have h2 : p.destPort + p.destType * 16 < 256 := by omega
  have hbody := v0Body_eq c p
  have hck := v0RdChecksum_enc c (v0Body c p) rest
  have hckl := v0ChecksumBytes_length c (v0Body c p)
  unfold v0DecodeOne v0Encode
  generalize v0ChecksumBytes c (v0Body c p) = ckb at *
  rw [hbody]
  simp only [v0Pre, pyOr4 _ hsp, pyOr4 _ hdp, List.append_assoc, hsg, Option.getD_some]
  rw [rdU8_u8 _ _ h1]; simp only []
  rw [rdU8_u8 _ _ h2]; simp only []
  rw [v0RdTypeFlags_enc c p _ htf]; simp only []
  rw [rdU8_u8 _ _ hse]; simp only []
  rw [rd_append' _ _ hsgl]; simp only []
  rw [rdU16_u16le _ _ hpid]; simp only []
  rw [v0RdOptions_enc p _ hcs hfr]; simp only []
  have e3 : (p.sourcePort + p.sourceType * 16) / 16 = p.sourceType := by omega
  have e4 : (p.sourcePort + p.sourceType * 16) % 16 = p.sourcePort := by omega
  have e5 : (p.destPort + p.destType * 16) / 16 = p.destType := by omega
  have e6 : (p.destPort + p.destType * 16) % 16 = p.destPort := by omega
  have hbody' : v0Body c p = u8 (p.sourcePort + p.sourceType * 16) ++ (u8 (p.destPort + p.destType * 16) ++
      (v0TypeFlags c p ++ (u8 p.sessionId ++ (sg ++ (u16le p.packetId ++ (v0OptsA p ++ (v0SizeField p ++ p.payload))))))) := by
    rw [hbody]; simp only [v0Pre, pyOr4 _ hsp, pyOr4 _ hdp, List.append_assoc, hsg, Option.getD_some]
  by_cases hs : hasSize p.flags = true
  · have hl := hpl hs
    simp only [v0SizeField, hs, if_true] at hbody' ⊢
    rw [v0RdPayload_size c p.flags _ _ p.payload (ckb ++ rest)
      (u8 (p.sourcePort + p.sourceType * 16) ++ (u8 (p.destPort + p.destType * 16) ++ (v0TypeFlags c p ++
        (u8 p.sessionId ++ (sg ++ (u16le p.packetId ++ v0OptsA p)))))) hs (by simp only [List.append_assoc]) rfl hl]
    simp only [List.append_assoc]
    rw [← hbody', hck]
    simp only [ne_eq, not_true_eq_false, if_false, e3, e4, e5, e6, Except.ok.injEq, Prod.mk.injEq, and_true]
    obtain ⟨ty, fl, ver, st, sp, dt, dp, se, pid, fr, sub, cs, iu, ms, sf, mv, sig, pl⟩ := p
    simp at hsub hms hiu hver hsf hmv hsg
    simp [hsub, hms, hiu, hver, hsf, hmv, hsg]
  · have hs' : hasSize p.flags = false := by simpa using hs
    have hrest : rest = [] := by rcases hr with h | h; · exact absurd h hs
                                 · exact h
    subst hrest
    simp only [v0SizeField, hs', Bool.false_eq_true, if_false, List.nil_append, List.append_nil] at hbody' hck ⊢
    rw [v0RdPayload_nosize c p.flags _ _ p.payload ckb
      (u8 (p.sourcePort + p.sourceType * 16) ++ (u8 (p.destPort + p.destType * 16) ++ (v0TypeFlags c p ++
        (u8 p.sessionId ++ (sg ++ (u16le p.packetId ++ v0OptsA p)))))) hs' (by simp only [List.append_assoc]) rfl hckl]
    simp only [List.append_assoc]
    rw [← hbody', hck]
    simp only [ne_eq, not_true_eq_false, if_false, e3, e4, e5, e6, Except.ok.injEq, Prod.mk.injEq, and_true]
    obtain ⟨ty, fl, ver, st, sp, dt, dp, se, pid, fr, sub, cs, iu, ms, sf, mv, sig, pl⟩ := p
    simp at hsub hms hiu hver hsf hmv hsg
    simp [hsub, hms, hiu, hver, hsf, hmv, hsg]


/-- every packet except the last carries `FLAG_HAS_SIZE` -/
def v0SizedButLast : List Packet → Prop
  | [] => True
  | [_] => True
  | p :: q :: r => hasSize p.flags = true ∧ v0SizedButLast (q :: r)

theorem v0Encode_length_pos (c : V0Cfg) (p : Packet) : 0 < (v0Encode c p).length := by
  simp [v0Encode, v0Body, u8]

theorem v0Loop_concat (c : V0Cfg) (ps : List Packet) (hwf : ∀ p ∈ ps, V0WF c p) (hs : v0SizedButLast ps) :
    ∀ fuel, (ps.flatMap (v0Encode c)).length < fuel → v0Loop c fuel (ps.flatMap (v0Encode c)) = .ok ps := by
  induction ps with
  | nil =>
    intro fuel hf
    cases fuel with
    | zero => simp at hf
    | succ f => simp [v0Loop]
  | cons p ps ih =>
    intro fuel hf
    cases fuel with
    | zero => simp at hf
    | succ f =>
      simp only [List.flatMap_cons] at hf ⊢
      have hpos := v0Encode_length_pos c p
      unfold v0Loop
      have hne : (v0Encode c p ++ List.flatMap (v0Encode c) ps).isEmpty = false := by
        cases hh : v0Encode c p with
        | nil => simp [hh] at hpos
        | cons a b => simp
      rw [hne]
      simp only [Bool.false_eq_true, if_false]
      have hr : hasSize p.flags = true ∨ List.flatMap (v0Encode c) ps = [] := by
        cases ps with
        | nil => right; rfl
        | cons q r => left; exact hs.1
      have hs' : v0SizedButLast ps := by
        cases ps with
        | nil => trivial
        | cons q r => exact hs.2
      rw [v0DecodeOne_encode c p _ (hwf p (by simp)) hr]
      simp only []
      rw [ih (fun q hq => hwf q (by simp [hq])) hs' f (by simp only [List.length_append] at hf; omega)]

theorem v0Decode_concat (c : V0Cfg) (ps : List Packet) (hwf : ∀ p ∈ ps, V0WF c p) (hs : v0SizedButLast ps) :
    v0Decode c (ps.flatMap (v0Encode c)) = .ok ps :=
  v0Loop_concat c ps hwf hs _ (by omega)

theorem v0Decode_encode (c : V0Cfg) (p : Packet) (h : V0WF c p) : v0Decode c (v0Encode c p) = .ok [p] := by
  have := v0Decode_concat c [p] (by simpa using h) trivial
  simpa using this

/-! ### progress -/

theorem v0RdTypeFlags_len {c : V0Cfg} {d r : Bytes} {f t : Nat} (h : v0RdTypeFlags c d = .ok (f, t, r)) :
    r.length + 1 ≤ d.length := by
  unfold v0RdTypeFlags at h
  repeat' split at h
  all_goals first | (cases h; done) | skip
  all_goals simp only [Except.ok.injEq, Prod.mk.injEq] at h
  all_goals obtain ⟨-, -, rfl⟩ := h
  · have := rdU8_len ‹rdU8 d = _›; omega
  · have := rdU16_len ‹rdU16 d = _›; omega

theorem v0RdOptions_len {t : Nat} {d r : Bytes} {cs : Option Bytes} {f : Nat} (h : v0RdOptions t d = .ok (cs, f, r)) :
    r.length ≤ d.length := by
  unfold v0RdOptions at h
  by_cases hsc : isSynOrConnect t = true
  · simp only [hsc, if_true] at h
    cases hrd : rd 4 d with
    | error e => simp [hrd, Except.map] at h
    | ok v =>
      obtain ⟨x, r0⟩ := v
      have := rd_len hrd
      simp only [hrd, Except.map] at h
      repeat' split at h
      all_goals first | (cases h; done) | skip
      all_goals simp only [Except.ok.injEq, Prod.mk.injEq] at h
      · obtain ⟨-, -, rfl⟩ := h
        have := rdU8_len ‹rdU8 r0 = _›; omega
      · obtain ⟨-, -, rfl⟩ := h; omega
  · simp only [hsc, Bool.false_eq_true, if_false] at h
    repeat' split at h
    all_goals first | (cases h; done) | skip
    all_goals simp only [Except.ok.injEq, Prod.mk.injEq] at h
    · obtain ⟨-, -, rfl⟩ := h
      have := rdU8_len ‹rdU8 d = _›; omega
    · obtain ⟨-, -, rfl⟩ := h; omega

/-- what is left after the payload is never longer than what was left before it, and when the negative-length corner is
    taken at most `csz` bytes remain -/
theorem v0RdPayload_len {c : V0Cfg} {flags : Nat} {whole r pl ck tl : Bytes}
    (h : v0RdPayload c flags whole r = .ok (pl, ck, tl)) (hw : r.length + 10 ≤ whole.length) :
    tl.length ≤ r.length ∨ tl.length ≤ c.csz := by
  unfold v0RdPayload at h
  split at h
  · repeat' split at h
    all_goals first | (cases h; done) | skip
    simp only [Except.ok.injEq, Prod.mk.injEq] at h
    obtain ⟨-, -, rfl⟩ := h
    have := rdU16_len ‹rdU16 r = _›
    have := rd_len ‹rd _ _ = _›
    left; omega
  · simp only [Except.ok.injEq, Prod.mk.injEq] at h
    obtain ⟨-, -, rfl⟩ := h
    right; simp; omega

theorem csz_le (c : V0Cfg) : 1 ≤ c.csz ∧ c.csz ≤ 4 := by unfold V0Cfg.csz; split <;> omega

theorem v0RdChecksum_len {c : V0Cfg} {d r : Bytes} {n : Nat} (h : v0RdChecksum c d = .ok (n, r)) :
    d.length = r.length + c.csz := by
  unfold v0RdChecksum at h
  unfold V0Cfg.csz
  split at h
  · simp [*]; exact rdU32_len h
  · simp [*]; exact rdU8_len h

/-- every successful iteration of the v0 loop consumes at least 10 bytes -/
theorem v0DecodeOne_progress {c : V0Cfg} {d r : Bytes} {p : Packet} (h : v0DecodeOne c d = .ok (p, r)) :
    r.length + 10 ≤ d.length := by
  unfold v0DecodeOne at h
  repeat' split at h
  all_goals first | (cases h; done) | skip
  simp only [Except.ok.injEq, Prod.mk.injEq] at h
  obtain ⟨-, rfl⟩ := h
  have a1 := rdU8_len ‹rdU8 d = _›
  rename_i _ _ r1 _ _ _ r2 _ _ _ _ r3 _ _ _ r4 _ _ _ r5 _ _ _ r6 _ _ _ _ r7 _ _ _ _ r8 _ _ _ r9 _ _
  have a2 := rdU8_len ‹rdU8 r1 = _›
  have a3 := v0RdTypeFlags_len ‹v0RdTypeFlags c r2 = _›
  have a4 := rdU8_len ‹rdU8 r3 = _›
  have a5 := rd_len ‹rd 4 r4 = _›
  have a6 := rdU16_len ‹rdU16 r5 = _›
  have a7 := v0RdOptions_len ‹v0RdOptions _ r6 = _›
  have a8 := v0RdPayload_len ‹v0RdPayload c _ d r7 = _› (by omega)
  have a9 := v0RdChecksum_len ‹v0RdChecksum c r8 = _›
  have := csz_le c
  omega


/-- the fuel bound of the loop is never what decides the result -/
theorem v0Loop_fuel (c : V0Cfg) : ∀ (f1 f2 : Nat) (d : Bytes), d.length < f1 → d.length < f2 →
    v0Loop c f1 d = v0Loop c f2 d := by
  intro f1
  induction f1 with
  | zero => intro f2 d h; omega
  | succ f ih =>
    intro f2 d h1 h2
    cases f2 with
    | zero => omega
    | succ g =>
      unfold v0Loop
      split
      · rfl
      · cases hd : v0DecodeOne c d with
        | error e => rfl
        | ok v =>
          obtain ⟨p, r⟩ := v
          have := v0DecodeOne_progress hd
          simp only []
          rw [ih g r (by omega) (by omega)]

end Nx.Prudp
