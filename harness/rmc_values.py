"""Builds valid request bodies and valid handler return values for the generated NEX protocol
methods, by reading the *extraction* statements of the generated code with `ast`
(`x = input.list(input.stationurl)`, `obj.y = stream.extract(Cls)`, `self.f = stream.u32()` in
`load`): every extraction expression names the complete type, so a value of that type can be built
and then written with the matching `StreamOut` method of the real library.
Used by corr_C11 only to obtain well-formed inputs/outputs; nothing here is compared.
"""
import ast, inspect, textwrap
from nintendo.nex import common, streams, rmc

INTS = {"u8": 8, "u16": 16, "u32": 32, "u64": 64, "s8": 7, "s16": 15, "s32": 31, "s64": 63}


class Unbuildable(Exception):
    pass


class Builder:
    def __init__(self, module, rng):
        self.mod = module
        self.rng = rng
        self.tree = ast.parse(inspect.getsource(module))
        self.classes = {n.name: n for n in self.tree.body if isinstance(n, ast.ClassDef)}
        self._load_cache = {}
        self._resp_cache = {}

    # ---- values -------------------------------------------------------
    def resolve(self, node):
        return eval(compile(ast.Expression(node), "<v>", "eval"), self.mod.__dict__)

    def is_stream_func(self, node):
        return isinstance(node, ast.Attribute) and isinstance(node.value, ast.Name) and node.value.id in ("input", "stream", "output")

    def elem(self, arg, depth):
        """value for a list/map element described by `stream.<prim>` or a class expression"""
        if self.is_stream_func(arg):
            return self.prim(arg.attr, depth)
        if isinstance(arg, ast.Lambda):
            return self.value(arg.body, depth + 1)
        return self.build(self.resolve(arg), depth + 1)

    def prim(self, name, depth):
        r = self.rng
        if name in INTS: return r.choice([0, 1, 2, 100, (1 << INTS[name]) - 1])
        if name == "pid": return r.choice([0, 1, 1234, 0xFFFFFFFF])
        if name in ("float", "double"): return r.choice([0.0, 1.5, -2.25])
        if name == "bool": return r.random() < 0.5
        if name == "string": return r.choice(["", "s", "hello world", "hé世"])
        if name in ("buffer", "qbuffer"): return r.choice([b"", b"b", b"\x00\x01\x02\xff"])
        if name == "datetime": return common.DateTime(r.choice([0, 1, 135271232102]))
        if name == "stationurl": return common.StationURL.parse(r.choice(["prudp:/", "prudp:/address=1.2.3.4;port=5;sid=1"]))
        if name == "result": return common.Result(r.choice([0x10001, 0x80030065]))
        if name == "variant": return r.choice([None, True, 5, -5, 1.5, "v", common.DateTime(7)])
        if name == "anydata": return common.NullData()
        raise Unbuildable("primitive " + name)

    def value(self, call, depth=0):
        """call: ast.Call `<stream>.<meth>(args)`"""
        if depth > 6: raise Unbuildable("depth")
        if not (isinstance(call, ast.Call) and self.is_stream_func(call.func)):
            raise Unbuildable(ast.unparse(call))
        meth = call.func.attr
        if meth == "extract":
            return self.build(self.resolve(call.args[0]), depth + 1)
        if meth == "list":
            n = self.rng.choice([0, 1, 2]) if depth < 3 else 0
            return [self.elem(call.args[0], depth) for _ in range(n)]
        if meth == "map":
            n = self.rng.choice([0, 1, 2]) if depth < 3 else 0
            d = {}
            for _ in range(n):
                k = self.elem(call.args[0], depth)
                try: hash(k)
                except TypeError: raise Unbuildable("unhashable key")
                d[k] = self.elem(call.args[1], depth)
            return d
        return self.prim(meth, depth)

    def loads(self, cls):
        if cls not in self._load_cache:
            try:
                src = textwrap.dedent(inspect.getsource(cls.load))
            except (OSError, TypeError):
                raise Unbuildable("no source for %s.load" % cls.__name__)
            fn = ast.parse(src).body[0]
            assigns = []
            for node in ast.walk(fn):
                if isinstance(node, ast.Assign) and len(node.targets) == 1 and isinstance(node.targets[0], ast.Attribute) \
                        and isinstance(node.targets[0].value, ast.Name) and node.targets[0].value.id == "self":
                    assigns.append((node.targets[0].attr, node.value))
            self._load_cache[cls] = assigns
        return self._load_cache[cls]

    def build(self, cls, depth=0):
        if depth > 6: raise Unbuildable("depth")
        if cls in (common.Data, common.NullData): return cls()
        if cls is common.ResultRange:
            return common.ResultRange(self.rng.choice([0, 5]), self.rng.choice([1, 10]))
        if not (isinstance(cls, type) and issubclass(cls, common.Structure)):
            raise Unbuildable("not a structure: %r" % (cls,))
        inst = cls()
        for c in inst.get_hierarchy():
            if c in (common.Data,): continue
            owner = Builder._for_class(self, c)
            for field, expr in owner.loads(c):
                setattr(inst, field, owner.value(expr, depth))
        return inst

    _others = {}
    def _for_class(self, c):
        m = inspect.getmodule(c)
        if m is self.mod: return self
        if m.__name__ not in Builder._others:
            Builder._others[m.__name__] = Builder(m, self.rng)
        o = Builder._others[m.__name__]
        o.rng = self.rng
        return o

    # ---- encoding with the real StreamOut --------------------------------
    def writer(self, out, arg):
        if self.is_stream_func(arg): return getattr(out, arg.attr)
        if isinstance(arg, ast.Lambda): return lambda v: self.encode(out, arg.body, v)
        return out.add

    def encode(self, out, call, value):
        meth = call.func.attr
        if meth == "extract": out.add(value)
        elif meth == "list": out.list(value, self.writer(out, call.args[0]))
        elif meth == "map": out.map(value, self.writer(out, call.args[0]), self.writer(out, call.args[1]))
        else: getattr(out, meth)(value)

    def request_body(self, req_exprs, settings):
        """req_exprs: source of the extraction expressions of a generated handler, in order"""
        out = streams.StreamOut(settings)
        vals = []
        for src in req_exprs:
            call = ast.parse(src, mode="eval").body
            v = self.value(call)
            self.encode(out, call, v)
            vals.append(v)
        return out.get(), vals

    # ---- response values from the client class ---------------------------
    def response_exprs(self, server_class_name, method_name):
        """{response variable / field: ast of its extraction in the generated *client* method}"""
        key = (server_class_name, method_name)
        if key in self._resp_cache: return self._resp_cache[key]
        cname = server_class_name.replace("Server", "Client")
        cls = self.classes.get(cname)
        if cls is None: raise Unbuildable("no client class " + cname)
        fn = next((n for n in cls.body if isinstance(n, ast.AsyncFunctionDef) and n.name == method_name), None)
        if fn is None: raise Unbuildable("no client method " + method_name)
        exprs = {}
        seen_in = False
        for st in fn.body:
            if isinstance(st, ast.Assign) and isinstance(st.value, ast.Call) and ast.unparse(st.value.func) == "streams.StreamIn":
                seen_in = True; continue
            if seen_in and isinstance(st, ast.Assign) and isinstance(st.value, ast.Call) and self.is_stream_func(st.value.func):
                tgt = st.targets[0]
                exprs[tgt.attr if isinstance(tgt, ast.Attribute) else tgt.id] = st.value
        self._resp_cache[key] = exprs
        return exprs

    def response_value(self, server_class_name, method_name, kind, fields):
        exprs = self.response_exprs(server_class_name, method_name)
        if kind == "n": return None
        if kind in ("s", "o"):
            if len(exprs) != 1: raise Unbuildable("client has %d response variables" % len(exprs))
            return self.value(next(iter(exprs.values())))
        obj = rmc.RMCResponse()
        for f in fields:
            if f not in exprs: raise Unbuildable("client lacks field " + f)
            setattr(obj, f, self.value(exprs[f]))
        return obj

    def encodes(self, server_class_name, method_name, kind, fields, value, settings):
        """does the well-typed result `value` encode (with the real StreamOut) under these settings?
        (used only to discard inputs whose uncorrupted form already fails, e.g. a required variant that is None)"""
        exprs = self.response_exprs(server_class_name, method_name)
        out = streams.StreamOut(settings)
        try:
            if kind in ("s", "o"): self.encode(out, next(iter(exprs.values())), value)
            else:
                for f in fields: self.encode(out, exprs[f], getattr(value, f))
        except Exception:
            return False
        return True
