import NxModel.Bytes
/-!
# Schema interpreter — an independent reading of the `.proto` definitions

Mirrors, as data + one generic interpreter, what `generate_protocols.py` emits per definition
(`load`/`save`/`max_version`/`check_required`, client/server method bodies) on top of
`nintendo/nex/common.py` (`Structure.encode/decode`, `DataHolder`) and `nintendo/nex/streams.py`.

Names are `Nat`s: the big-endian base-256 number of the ASCII name (`"Data"` = 0x44617461), so the
wire form of a class name (needed by `DataHolder`) is computed from the code and kernel checks on
generated tables only compare `Nat`s.

Value-level codecs that belong to C15 are taken at wire level here: a `string`/`stationurl` value is
its UTF-8 byte string (`Val.str`), `float`/`double` are IEEE bit patterns, `datetime` and `result`
are their integer, so `Val.int` carries them.

Deliberate, documented differences to the Python code (all outside the property's quantifier):
* G1 `encTy (.struct n) (.obj cls _)` with `cls ≠ n` is `Err.type` (Python would dispatch on the
  instance's class and write the subclass layout);
* G2 `anydata` of a class that `DataHolder.object_map` would not resolve to itself is `Err.key` at
  encode time (Python encodes and fails with `KeyError` only when decoding);
* G3 decoding a map keeps duplicate keys (Python's dict keeps the last); no encoder produces them;
* G4 invalid UTF-8 is not detected and `[:-1]` drops the last *byte* (always the NUL on encoder output);
* G5 `StationURL.parse` is the identity on non-empty strings (parse∘repr is C15's), `None`/`""` give `prudp:/`.
No Mathlib (linked into the driver).
-/
namespace Nx.Schema
open Nx

abbrev Name := Nat

/-- integer widths the grammar has (`uint8..uint64`, `sint8..sint64`) -/
inductive W where
  | b1 | b2 | b4 | b8
  deriving DecidableEq, Repr

def W.bits : W → Nat | .b1 => 8 | .b2 => 16 | .b4 => 32 | .b8 => 64

inductive Ty where
  | uint (w : W) | sint (w : W)
  | float | double | bool | pid | result | datetime
  | string | stationurl | buffer | qbuffer | anydata | variant
  | list (t : Ty) | map (k v : Ty)
  | struct (n : Name)
  deriving DecidableEq, Repr

def Ty.isStruct : Ty → Bool | .struct _ => true | _ => false

/-- a structure body: fields and `nex N { }` / `revision N { }` blocks in declaration order -/
inductive Items where
  | nil
  | field (name : Name) (ty : Ty) (hasDefault : Bool) (rest : Items)
  | nex (v : Nat) (body rest : Items)
  | rev (r : Nat) (body rest : Items)
  deriving DecidableEq, Repr

structure StructDef where
  name : Name
  parent : Option Name      -- `none` = `common.Structure`
  items : Items
  deriving DecidableEq, Repr

structure MethodDef where
  id : Nat
  name : Name
  supported : Bool
  request : List (Name × Ty)
  response : List (Name × Ty)
  deriving DecidableEq, Repr

structure ProtoDef where
  name : Name
  id : Nat
  noresponse : Bool
  methods : List MethodDef
  deriving DecidableEq, Repr

structure Env where
  structs : List StructDef
  protos : List ProtoDef
  deriving Repr

structure Cfg where
  nexVersion : Nat
  structHeader : Bool
  pidSize : Nat
  deriving DecidableEq, Repr

inductive Val where
  | none                                  -- Python `None`
  | absent                                -- an attribute no `load` touched (gated out): keeps the fresh instance's default
  | int (i : Int)
  | bool (b : Bool)
  | str (s : Bytes)                       -- UTF-8 bytes of a `str`
  | bytes (b : Bytes)
  | list (l : List Val)
  | map (l : List (Val × Val))
  | obj (cls : Name) (fields : List Val)  -- a structure instance: all attributes, base classes first
  | dbl (bits : Nat)                      -- float inside a variant
  | dt (v : Nat)                          -- DateTime inside a variant
  deriving Repr, Inhabited

/-! ## names -/

def nameBytesGo : Nat → Nat → Bytes → Bytes
  | 0, _, acc => acc
  | f + 1, n, acc => if n = 0 then acc else nameBytesGo f (n / 256) (b8 n :: acc)

/-- ASCII bytes of a name code -/
def nameBytes (n : Name) : Bytes := nameBytesGo n n []

def nameN : Name := 0
def nData : Name := 0x44617461                  -- "Data"
def nNullData : Name := 0x4E756C6C44617461      -- "NullData"
def nResultRange : Name := 0x526573756C7452616E6765  -- "ResultRange"

/-- hand-written classes of `common.py` every generated module can refer to -/
def builtins : List StructDef :=
  [ { name := nData, parent := none, items := .nil },
    { name := nNullData, parent := some nData, items := .nil },
    { name := nResultRange, parent := none,
      items := .field 0x6F6666736574 (.uint .b4) true (.field 0x73697A65 (.uint .b4) true .nil) } ]

def lookup (env : Env) (n : Name) : Option StructDef := env.structs.find? (fun d => d.name == n)

/-- `generate_struct` emits `DataHolder.register` iff the struct has a parent (`NullData` is registered by hand) -/
def StructDef.registered (d : StructDef) : Bool := d.parent.isSome

/-- `DataHolder.object_map[name]` -/
def lookupReg (env : Env) (s : Bytes) : Option StructDef :=
  env.structs.find? (fun d => d.registered && nameBytes d.name == s)

/-! ## gates, `max_version`, `check_required` -/

def Items.fieldCount : Items → Nat
  | .nil => 0
  | .field _ _ _ r => 1 + r.fieldCount
  | .nex _ b r => b.fieldCount + r.fieldCount
  | .rev _ b r => b.fieldCount + r.fieldCount

/-- `StructBody.has_revision` -/
def Items.hasRev : Items → Bool
  | .nil => false
  | .field _ _ _ r => r.hasRev
  | .nex _ b r => b.hasRev || r.hasRev
  | .rev _ _ _ => true

/-- body of the generated `max_version`: `version = r` statements executed in order, the last one wins;
    `nex` blocks are entered only if they contain a revision, `revision` bodies are not entered -/
def maxVerGo (nex : Nat) : Items → Nat → Nat
  | .nil, v => v
  | .field _ _ _ r, v => maxVerGo nex r v
  | .rev rv _ r, _ => maxVerGo nex r rv
  | .nex g b r, v =>
    if b.hasRev then (if nex ≥ g then maxVerGo nex r (maxVerGo nex b v) else maxVerGo nex r v)
    else maxVerGo nex r v

def maxVersion (nex : Nat) (it : Items) : Nat := maxVerGo nex it 0

/-- `cls.max_version(self, settings)`: the method is emitted only for bodies with a revision, otherwise
    it is *inherited* from the nearest base class that has one (`Structure.max_version` = 0) -/
def effMaxVersion (env : Env) (nex : Nat) : Nat → Name → Nat
  | 0, _ => 0
  | f + 1, n =>
    match lookup env n with
    | none => 0
    | some d =>
      if d.items.hasRev then maxVersion nex d.items
      else match d.parent with
        | none => 0
        | some p => effMaxVersion env nex f p

def isNone : Val → Bool | .none => true | _ => false

/-- generated `check_required` (true = passes): every active field without default whose type is not a
    structure must not be `None` -/
def checkReq (cfg : Cfg) (ver : Nat) : Items → List Val → Bool
  | .nil, _ => true
  | .field _ ty dflt r, v :: vs => (dflt || ty.isStruct || !isNone v) && checkReq cfg ver r vs
  | .field _ _ _ _, [] => true
  | .nex g b r, vs =>
    (if cfg.nexVersion ≥ g then checkReq cfg ver b vs else true) && checkReq cfg ver r (vs.drop b.fieldCount)
  | .rev g b r, vs =>
    (if ver ≥ g then checkReq cfg ver b vs else true) && checkReq cfg ver r (vs.drop b.fieldCount)

/-! ## primitives (`anynet.streams` + `nintendo/nex/streams.py`) -/

def leN : W → Nat → Bytes
  | .b1, n => u8 n | .b2, n => u16le n | .b4, n => u32le n | .b8, n => u64le n

def rdN : W → Bytes → Except Err (Nat × Bytes)
  | .b1 => rdU8 | .b2 => rdU16 | .b4 => rdU32 | .b8 => rdU64

/-- `u8` is `bytes([value])` (ValueError), the others `struct.pack` (struct.error) -/
def rangeErr : W → Err | .b1 => .value | _ => .struct

def encUInt (w : W) (i : Int) : Except Err Bytes :=
  if 0 ≤ i ∧ i < (2 : Int) ^ w.bits then .ok (leN w i.toNat) else .error (rangeErr w)

def encSInt (w : W) (i : Int) : Except Err Bytes :=
  if -((2 : Int) ^ (w.bits - 1)) ≤ i ∧ i < (2 : Int) ^ (w.bits - 1) then
    .ok (leN w (i % (2 : Int) ^ w.bits).toNat)
  else .error .struct

def decSInt (w : W) (b : Bytes) : Except Err (Int × Bytes) :=
  match rdN w b with
  | .error e => .error e
  | .ok (n, r) => .ok (if n ≥ 2 ^ (w.bits - 1) then (n : Int) - (2 : Int) ^ w.bits else (n : Int), r)

/-- `StreamOut.string` of a non-None str given as UTF-8 bytes -/
def encStr (s : Bytes) : Except Err Bytes :=
  if s.length + 1 < 65536 then .ok (u16le (s.length + 1) ++ s ++ [0]) else .error .struct

/-- `StreamIn.string`: `none` = Python `None` -/
def decStr (b : Bytes) : Except Err (Option Bytes × Bytes) :=
  match rdU16 b with
  | .error e => .error e
  | .ok (n, r) =>
    if n = 0 then .ok (none, r)
    else match rd n r with
      | .error e => .error e
      | .ok (d, r') => .ok (some d.dropLast, r')

def encBuf (b : Bytes) : Except Err Bytes :=
  if b.length < 4294967296 then .ok (u32le b.length ++ b) else .error .struct

def decBuf (b : Bytes) : Except Err (Bytes × Bytes) :=
  match rdU32 b with
  | .error e => .error e
  | .ok (n, r) => rd n r

def encQBuf (b : Bytes) : Except Err Bytes :=
  if b.length < 65536 then .ok (u16le b.length ++ b) else .error .struct

def decQBuf (b : Bytes) : Except Err (Bytes × Bytes) :=
  match rdU16 b with
  | .error e => .error e
  | .ok (n, r) => rd n r

def prudpUrl : Bytes := [0x70, 0x72, 0x75, 0x64, 0x70, 0x3A, 0x2F]   -- "prudp:/"

/-! ## the interpreter, in open-recursion style

`EncHook`/`DecHook`/`VisHook` supply encoding/decoding/erasure of whole structure instances by class name; `encTy`,
`encItems` … are structurally recursive over `Ty` / `Items`; the knot is tied by fuel in `encObj`. -/

abbrev EncHook := Name → List Val → Except Err Bytes
abbrev DecHook := Name → Bytes → Except Err (List Val × Bytes)
abbrev VisHook := Name → List Val → List Val

def encList (f : Val → Except Err Bytes) : List Val → Except Err Bytes
  | [] => .ok []
  | v :: vs =>
    match f v with
    | .error e => .error e
    | .ok b => match encList f vs with
      | .error e => .error e
      | .ok bs => .ok (b ++ bs)

def encPairs (fk fv : Val → Except Err Bytes) : List (Val × Val) → Except Err Bytes
  | [] => .ok []
  | (k, v) :: kvs =>
    match fk k with
    | .error e => .error e
    | .ok bk => match fv v with
      | .error e => .error e
      | .ok bv => match encPairs fk fv kvs with
        | .error e => .error e
        | .ok bs => .ok (bk ++ bv ++ bs)

def decList (f : Bytes → Except Err (Val × Bytes)) : Nat → Bytes → Except Err (List Val × Bytes)
  | 0, b => .ok ([], b)
  | n + 1, b =>
    match f b with
    | .error e => .error e
    | .ok (v, r) => match decList f n r with
      | .error e => .error e
      | .ok (vs, r') => .ok (v :: vs, r')

def decPairs (fk fv : Bytes → Except Err (Val × Bytes)) : Nat → Bytes → Except Err (List (Val × Val) × Bytes)
  | 0, b => .ok ([], b)
  | n + 1, b =>
    match fk b with
    | .error e => .error e
    | .ok (k, r) => match fv r with
      | .error e => .error e
      | .ok (v, r') => match decPairs fk fv n r' with
        | .error e => .error e
        | .ok (kvs, r'') => .ok ((k, v) :: kvs, r'')

def encVariant : Val → Except Err Bytes
  | .none => .ok [0]
  | .bool b => .ok [3, if b then 1 else 0]
  | .int i =>
    if i < 0 then (match encSInt .b8 i with | .ok b => .ok (1 :: b) | .error e => .error e)
    else (match encUInt .b8 i with | .ok b => .ok (6 :: b) | .error e => .error e)
  | .dbl bits => if bits < 18446744073709551616 then .ok (2 :: u64le bits) else .error .struct
  | .str s => (match encStr s with | .ok b => .ok (4 :: b) | .error e => .error e)
  | .dt v => if v < 18446744073709551616 then .ok (5 :: u64le v) else .error .struct
  | _ => .error .type

def decVariant (b : Bytes) : Except Err (Val × Bytes) :=
  match rdU8 b with
  | .error e => .error e
  | .ok (t, r) =>
    if t = 0 then .ok (.none, r)
    else if t = 1 then (match decSInt .b8 r with | .ok (i, r') => .ok (.int i, r') | .error e => .error e)
    else if t = 2 then (match rdU64 r with | .ok (n, r') => .ok (.dbl n, r') | .error e => .error e)
    else if t = 3 then (match rdU8 r with | .ok (n, r') => .ok (.bool (n != 0), r') | .error e => .error e)
    else if t = 4 then
      (match decStr r with
       | .ok (some s, r') => .ok (.str s, r') | .ok (none, r') => .ok (.none, r') | .error e => .error e)
    else if t = 5 then (match rdU64 r with | .ok (n, r') => .ok (.dt n, r') | .error e => .error e)
    else if t = 6 then (match rdU64 r with | .ok (n, r') => .ok (.int n, r') | .error e => .error e)
    else .error .value

def intOk (x : Except Err (Nat × Bytes)) : Except Err (Val × Bytes) :=
  match x with | .ok (n, r) => .ok (.int n, r) | .error e => .error e

/-- `make_encode` applied to a value -/
def encTy (R : EncHook) (env : Env) (cfg : Cfg) : Ty → Val → Except Err Bytes
  | .uint w, .int i => encUInt w i
  | .sint w, .int i => encSInt w i
  | .float, .int i => encUInt .b4 i
  | .double, .int i => encUInt .b8 i
  | .bool, .bool b => .ok [if b then 1 else 0]
  | .pid, .int i => if cfg.pidSize = 8 then encUInt .b8 i else encUInt .b4 i
  | .result, .int i => encUInt .b4 i
  | .datetime, .int i => encUInt .b8 i
  | .string, .none => .ok (u16le 0)
  | .string, .str s => encStr s
  | .stationurl, .str s => encStr s
  | .buffer, .bytes b => encBuf b
  | .qbuffer, .bytes b => encQBuf b
  | .variant, v => encVariant v
  | .list t, .list vs =>
    if vs.length < 4294967296 then
      (match encList (encTy R env cfg t) vs with | .ok b => .ok (u32le vs.length ++ b) | .error e => .error e)
    else .error .struct
  | .map k v, .map kvs =>
    if kvs.length < 4294967296 then
      (match encPairs (encTy R env cfg k) (encTy R env cfg v) kvs with
       | .ok b => .ok (u32le kvs.length ++ b) | .error e => .error e)
    else .error .struct
  | .struct n, .obj cls fs => if cls = n then R n fs else .error .type      -- G1
  | .anydata, .obj cls fs =>
    match lookupReg env (nameBytes cls) with
    | none => .error .key                                                        -- G2
    | some d =>
      if d.name ≠ cls then .error .key else
      match encStr (nameBytes cls) with
      | .error e => .error e
      | .ok nm =>
        match R cls fs with
        | .error e => .error e
        | .ok body =>
          if body.length + 4 < 4294967296 then
            .ok (nm ++ u32le (body.length + 4) ++ u32le body.length ++ body)
          else .error .struct
  | _, _ => .error .type

/-- `make_extract` -/
def decTy (R : DecHook) (env : Env) (cfg : Cfg) : Ty → Bytes → Except Err (Val × Bytes)
  | .uint w, b => intOk (rdN w b)
  | .sint w, b => (match decSInt w b with | .ok (i, r) => .ok (.int i, r) | .error e => .error e)
  | .float, b => intOk (rdU32 b)
  | .double, b => intOk (rdU64 b)
  | .bool, b => (match rdU8 b with | .ok (n, r) => .ok (.bool (n != 0), r) | .error e => .error e)
  | .pid, b => if cfg.pidSize = 8 then intOk (rdU64 b) else intOk (rdU32 b)
  | .result, b => intOk (rdU32 b)
  | .datetime, b => intOk (rdU64 b)
  | .string, b =>
    (match decStr b with
     | .ok (some s, r) => .ok (.str s, r) | .ok (none, r) => .ok (.none, r) | .error e => .error e)
  | .stationurl, b =>
    (match decStr b with
     | .ok (some s, r) => .ok (.str (if s.isEmpty then prudpUrl else s), r)      -- G5
     | .ok (none, r) => .ok (.str prudpUrl, r)
     | .error e => .error e)
  | .buffer, b => (match decBuf b with | .ok (d, r) => .ok (.bytes d, r) | .error e => .error e)
  | .qbuffer, b => (match decQBuf b with | .ok (d, r) => .ok (.bytes d, r) | .error e => .error e)
  | .variant, b => decVariant b
  | .list t, b =>
    (match rdU32 b with
     | .error e => .error e
     | .ok (n, r) => match decList (decTy R env cfg t) n r with
       | .ok (vs, r') => .ok (.list vs, r') | .error e => .error e)
  | .map k v, b =>
    (match rdU32 b with
     | .error e => .error e
     | .ok (n, r) => match decPairs (decTy R env cfg k) (decTy R env cfg v) n r with
       | .ok (kvs, r') => .ok (.map kvs, r') | .error e => .error e)
  | .struct n, b => (match R n b with | .ok (fs, r) => .ok (.obj n fs, r) | .error e => .error e)
  | .anydata, b =>
    -- DataHolder.decode: name, substream().substream(), then object_map[name]
    match decStr b with
    | .error e => .error e
    | .ok (nm, r) =>
      match decBuf r with
      | .error e => .error e
      | .ok (outer, r') =>
        match decBuf outer with
        | .error e => .error e
        | .ok (inner, _) =>
          match nm with
          | none => .error .key
          | some s =>
            match lookupReg env s with
            | none => .error .key
            | some d =>
              match R d.name inner with
              | .error e => .error e
              | .ok (fs, _) => .ok (.obj d.name fs, r')

/-- what a decoder hands back for an encoded value: gated-out attributes erased -/
def visTy (R : VisHook) : Ty → Val → Val
  | .list t, .list vs => .list (vs.map (visTy R t))
  | .map k v, .map kvs => .map (kvs.map (fun kv => (visTy R k kv.1, visTy R v kv.2)))
  | .struct n, .obj _ fs => .obj n (R n fs)
  | .anydata, .obj cls fs => .obj cls (R cls fs)
  | .stationurl, .str s => .str (if s.isEmpty then prudpUrl else s)
  | _, v => v

/-- generated `save` body (after `check_required`): returns the bytes and the attributes not yet consumed -/
def encItems (R : EncHook) (env : Env) (cfg : Cfg) (ver : Nat) : Items → List Val → Except Err (Bytes × List Val)
  | .nil, vs => .ok ([], vs)
  | .field _ ty _ r, v :: vs =>
    (match encTy R env cfg ty v with
     | .error e => .error e
     | .ok b => match encItems R env cfg ver r vs with
       | .error e => .error e
       | .ok (bs, vs') => .ok (b ++ bs, vs'))
  | .field _ _ _ _, [] => .error .type
  | .nex g body r, vs =>
    if cfg.nexVersion ≥ g then
      (match encItems R env cfg ver body vs with
       | .error e => .error e
       | .ok (b, vs1) => match encItems R env cfg ver r vs1 with
         | .error e => .error e
         | .ok (bs, vs2) => .ok (b ++ bs, vs2))
    else encItems R env cfg ver r (vs.drop body.fieldCount)
  | .rev g body r, vs =>
    if ver ≥ g then
      (match encItems R env cfg ver body vs with
       | .error e => .error e
       | .ok (b, vs1) => match encItems R env cfg ver r vs1 with
         | .error e => .error e
         | .ok (bs, vs2) => .ok (b ++ bs, vs2))
    else encItems R env cfg ver r (vs.drop body.fieldCount)

/-- generated `load` body on a fresh instance; attributes not loaded are reported as `absent` -/
def decItems (R : DecHook) (env : Env) (cfg : Cfg) (ver : Nat) : Items → Bytes → Except Err (List Val × Bytes)
  | .nil, b => .ok ([], b)
  | .field _ ty _ r, b =>
    (match decTy R env cfg ty b with
     | .error e => .error e
     | .ok (v, b1) => match decItems R env cfg ver r b1 with
       | .error e => .error e
       | .ok (vs, b2) => .ok (v :: vs, b2))
  | .nex g body r, b =>
    if cfg.nexVersion ≥ g then
      (match decItems R env cfg ver body b with
       | .error e => .error e
       | .ok (vs1, b1) => match decItems R env cfg ver r b1 with
         | .error e => .error e
         | .ok (vs2, b2) => .ok (vs1 ++ vs2, b2))
    else
      (match decItems R env cfg ver r b with
       | .error e => .error e
       | .ok (vs2, b2) => .ok (List.replicate body.fieldCount .absent ++ vs2, b2))
  | .rev g body r, b =>
    if ver ≥ g then
      (match decItems R env cfg ver body b with
       | .error e => .error e
       | .ok (vs1, b1) => match decItems R env cfg ver r b1 with
         | .error e => .error e
         | .ok (vs2, b2) => .ok (vs1 ++ vs2, b2))
    else
      (match decItems R env cfg ver r b with
       | .error e => .error e
       | .ok (vs2, b2) => .ok (List.replicate body.fieldCount .absent ++ vs2, b2))

/-- erase the gated-out attributes of one class; returns (visible attributes of this class, the rest) -/
def visItems (R : VisHook) (cfg : Cfg) (ver : Nat) : Items → List Val → List Val × List Val
  | .nil, vs => ([], vs)
  | .field _ ty _ r, v :: vs =>
    let p := visItems R cfg ver r vs
    (visTy R ty v :: p.1, p.2)
  | .field _ _ _ _, [] => ([], [])
  | .nex g body r, vs =>
    if cfg.nexVersion ≥ g then
      let p1 := visItems R cfg ver body vs
      let p2 := visItems R cfg ver r p1.2
      (p1.1 ++ p2.1, p2.2)
    else
      let p2 := visItems R cfg ver r (vs.drop body.fieldCount)
      (List.replicate body.fieldCount .absent ++ p2.1, p2.2)
  | .rev g body r, vs =>
    if ver ≥ g then
      let p1 := visItems R cfg ver body vs
      let p2 := visItems R cfg ver r p1.2
      (p1.1 ++ p2.1, p2.2)
    else
      let p2 := visItems R cfg ver r (vs.drop body.fieldCount)
      (List.replicate body.fieldCount .absent ++ p2.1, p2.2)

/-- one iteration of the hierarchy loop of `Structure.encode` for class `d`, `ver = cls.max_version(...)`.
    The generated `save` starts with `self.check_required(...)`, which Python dispatches on the *instance*:
    whatever level is being saved, it is the most-derived class's check (`leaf` = its items and own
    attributes) that runs, with this level's version. -/
def encClass (R : EncHook) (env : Env) (cfg : Cfg) (ver : Nat) (leaf : Items × List Val) (d : StructDef)
    (vs : List Val) : Except Err (Bytes × List Val) :=
  if cfg.structHeader then
    if !checkReq cfg ver leaf.1 leaf.2 then .error .value else
    match encItems R env cfg ver d.items vs with
    | .error e => .error e
    | .ok (body, vs') =>
      if ver ≥ 256 then .error .value                      -- `bytes([version])`
      else if body.length ≥ 4294967296 then .error .struct
      else .ok (u8 ver ++ u32le body.length ++ body, vs')
  else
    if !checkReq cfg 0 leaf.1 leaf.2 then .error .value else encItems R env cfg 0 d.items vs

/-- one iteration of the hierarchy loop of `Structure.decode` -/
def decClass (R : DecHook) (env : Env) (cfg : Cfg) (d : StructDef) (b : Bytes) : Except Err (List Val × Bytes) :=
  if cfg.structHeader then
    match rdU8 b with
    | .error e => .error e
    | .ok (ver, r) =>
      match decBuf r with
      | .error e => .error e
      | .ok (sub, r') =>
        match decItems R env cfg ver d.items sub with
        | .error e => .error e
        | .ok (vs, _) => .ok (vs, r')            -- left-over bytes of the substream: warning only
  else decItems R env cfg 0 d.items b

def fuelErr : Err := .other

/-- nested instances must consume all their attributes -/
def encHook (g : Name → List Val → Except Err (Bytes × List Val)) : EncHook := fun n fs =>
  match g n fs with
  | .error e => .error e
  | .ok (b, rest) => if rest.isEmpty then .ok b else .error .type

def visHook (g : Name → List Val → List Val × List Val) : VisHook := fun n fs => (g n fs).1

/-- number of attributes the base classes of a class contribute -/
def ancestorFields (env : Env) : Nat → Option Name → Nat
  | 0, _ => 0
  | _, none => 0
  | f + 1, some p =>
    match lookup env p with
    | none => 0
    | some d => ancestorFields env f d.parent + d.items.fieldCount

/-- `Structure.encode`: the hierarchy loop for class `c` and its bases (base classes first);
    `leaf = none` when `c` is the instance's own class -/
def encGo (env : Env) (cfg : Cfg) : Nat → Option (Items × List Val) → Name → List Val → Except Err (Bytes × List Val)
  | 0, _, _, _ => .error fuelErr
  | f + 1, leaf, c, vs =>
    match lookup env c with
    | none => .error .key
    | some d =>
      let lf := match leaf with
        | some l => l
        | none => (d.items, vs.drop (ancestorFields env f d.parent))
      match (match d.parent with
             | none => Except.ok ([], vs)
             | some p => encGo env cfg f (some lf) p vs) with
      | .error e => .error e
      | .ok (pb, vs1) =>
        match encClass (encHook (encGo env cfg f none)) env cfg
                (effMaxVersion env cfg.nexVersion (f + 1) c) lf d vs1 with
        | .error e => .error e
        | .ok (cb, vs2) => .ok (pb ++ cb, vs2)

/-- `Structure.encode` of an instance of class `n` -/
def encObj (env : Env) (cfg : Cfg) (fuel : Nat) (n : Name) (vs : List Val) : Except Err (Bytes × List Val) :=
  encGo env cfg fuel none n vs

def decObj (env : Env) (cfg : Cfg) : Nat → Name → Bytes → Except Err (List Val × Bytes)
  | 0, _, _ => .error fuelErr
  | f + 1, n, b =>
    match lookup env n with
    | none => .error .key
    | some d =>
      match (match d.parent with
             | none => Except.ok ([], b)
             | some p => decObj env cfg f p b) with
      | .error e => .error e
      | .ok (pvs, b1) =>
        match decClass (decObj env cfg f) env cfg d b1 with
        | .error e => .error e
        | .ok (cvs, b2) => .ok (pvs ++ cvs, b2)

def visObj (env : Env) (cfg : Cfg) : Nat → Name → List Val → List Val × List Val
  | 0, _, vs => ([], vs)
  | f + 1, n, vs =>
    match lookup env n with
    | none => ([], vs)
    | some d =>
      let pv := (match d.parent with
                 | none => (([] : List Val), vs)
                 | some p => visObj env cfg f p vs)
      let ver := if cfg.structHeader then effMaxVersion env cfg.nexVersion (f + 1) n else 0
      let cv := visItems (visHook (visObj env cfg f)) cfg ver d.items pv.2
      (pv.1 ++ cv.1, cv.2)


/-! ## top level -/

def encode (env : Env) (cfg : Cfg) (fuel : Nat) (ty : Ty) (v : Val) : Except Err Bytes :=
  encTy (encHook (encObj env cfg fuel)) env cfg ty v

def decode (env : Env) (cfg : Cfg) (fuel : Nat) (ty : Ty) (b : Bytes) : Except Err (Val × Bytes) :=
  decTy (decObj env cfg fuel) env cfg ty b

def visible (env : Env) (cfg : Cfg) (fuel : Nat) (ty : Ty) (v : Val) : Val :=
  visTy (visHook (visObj env cfg fuel)) ty v

/-- parameters / results in declaration order (`generate_client_method`, `generate_server_method`) -/
def encArgs (env : Env) (cfg : Cfg) (fuel : Nat) : List (Name × Ty) → List Val → Except Err Bytes
  | [], [] => .ok []
  | (_, ty) :: ps, v :: vs =>
    (match encode env cfg fuel ty v with
     | .error e => .error e
     | .ok b => match encArgs env cfg fuel ps vs with
       | .error e => .error e
       | .ok bs => .ok (b ++ bs))
  | _, _ => .error .type

def decArgs (env : Env) (cfg : Cfg) (fuel : Nat) : List (Name × Ty) → Bytes → Except Err (List Val × Bytes)
  | [], b => .ok ([], b)
  | (_, ty) :: ps, b =>
    (match decode env cfg fuel ty b with
     | .error e => .error e
     | .ok (v, r) => match decArgs env cfg fuel ps r with
       | .error e => .error e
       | .ok (vs, r') => .ok (v :: vs, r'))

def visArgs (env : Env) (cfg : Cfg) (fuel : Nat) : List (Name × Ty) → List Val → List Val
  | (_, ty) :: ps, v :: vs => visible env cfg fuel ty v :: visArgs env cfg fuel ps vs
  | _, _ => []

def findProto (env : Env) (p : Name) : Option ProtoDef := env.protos.find? (fun x => x.name == p)
def findMethod (p : ProtoDef) (m : Name) : Option MethodDef := p.methods.find? (fun x => x.name == m)
def findMethodById (p : ProtoDef) (id : Nat) : Option MethodDef := p.methods.find? (fun x => x.id == id)

/-- what the generated client hands to `client.request`: (protocol id, method id, body) -/
def clientRequest (env : Env) (cfg : Cfg) (fuel : Nat) (p : ProtoDef) (m : MethodDef) (args : List Val) :
    Except Err (Nat × Nat × Bytes) :=
  match encArgs env cfg fuel m.request args with
  | .error e => .error e
  | .ok b => .ok (p.id, m.id, b)

/-- server side `handle_<method>` reading the request (left-over input is not checked) -/
def serverRequest (env : Env) (cfg : Cfg) (fuel : Nat) (m : MethodDef) (body : Bytes) : Except Err (List Val) :=
  match decArgs env cfg fuel m.request body with
  | .error e => .error e
  | .ok (vs, _) => .ok vs

/-- `isinstance(x, common.Data)` for an instance of class `n` -/
def isDataClass (env : Env) : Nat → Name → Bool
  | 0, _ => false
  | f + 1, n =>
    n == nData ||
    (match lookup env n with
     | some d => (match d.parent with | some p => isDataClass env f p | none => false)
     | none => false)

/-- the `isinstance(response, <make_python_type>)` test the generated server applies to a *single* result
    (`RuntimeError` otherwise); only the cases a schema-typed value can fail are listed -/
def resultTypeOk (env : Env) (fuel : Nat) : Ty → Val → Bool
  | .anydata, .obj cls _ => isDataClass env fuel cls
  | .string, .none => false
  | _, _ => true

def serverResponse (env : Env) (cfg : Cfg) (fuel : Nat) (m : MethodDef) (res : List Val) : Except Err Bytes :=
  match m.response, res with
  | [(_, ty)], [v] => if resultTypeOk env fuel ty v then encArgs env cfg fuel m.response res else .error .other
  | _, _ => encArgs env cfg fuel m.response res

/-- client side response decoding: `if not stream.eof(): raise ValueError` -/
def clientResponse (env : Env) (cfg : Cfg) (fuel : Nat) (m : MethodDef) (body : Bytes) : Except Err (List Val) :=
  match decArgs env cfg fuel m.response body with
  | .error e => .error e
  | .ok (vs, r) => if r.isEmpty then .ok vs else .error .value

/-- outcome of the generated server's `handle` for a method id: unknown ids, methods the definition marks
    unsupported (`method name;`) and supported methods the server class leaves at the generated stub all raise
    `RMCError("Core::NotImplemented")`; otherwise the implementation runs -/
inductive Dispatch where
  | notImplemented
  | run (m : MethodDef)
  deriving DecidableEq, Repr

def dispatch (p : ProtoDef) (implemented : Name → Bool) (id : Nat) : Dispatch :=
  match findMethodById p id with
  | none => .notImplemented
  | some m => if m.supported && implemented m.name then .run m else .notImplemented

/-- `RMCClient.__init__`: `if self.client.minor_version() >= 3: self.settings["nex.struct_header"] = True` -/
def rmcClientCfg (cfg : Cfg) (minor : Nat) : Cfg :=
  if minor ≥ 3 then { cfg with structHeader := true } else cfg

/-! ## well-formedness checkers (Bool, linear; lifted to `Prop` in `NxProofs/Schema`) -/

def tyRefs : Ty → List Name
  | .list t => tyRefs t
  | .map k v => tyRefs k ++ tyRefs v
  | .struct n => [n]
  | _ => []

def Items.refs : Items → List Name
  | .nil => []
  | .field _ ty _ r => tyRefs ty ++ r.refs
  | .nex _ b r => b.refs ++ r.refs
  | .rev _ b r => b.refs ++ r.refs

def Items.nexGates : Items → List Nat
  | .nil => []
  | .field _ _ _ r => r.nexGates
  | .nex g b r => g :: (b.nexGates ++ r.nexGates)
  | .rev _ b r => b.nexGates ++ r.nexGates

/-- every `revision` block that `load`/`save` can reach under `nex.version = nex` has a number ≤ `m` -/
def revsBelow (m nex : Nat) : Items → Bool
  | .nil => true
  | .field _ _ _ r => revsBelow m nex r
  | .nex g b r => (if nex ≥ g then revsBelow m nex b else true) && revsBelow m nex r
  | .rev g b r => decide (g ≤ m) && revsBelow m nex b && revsBelow m nex r

/-- "revisions ascending": at every gate threshold (hence, by `revAscending_sound`, for every `nex.version`)
    the number the generated `max_version` returns — the *last* `version = r` executed — bounds every
    revision block that is reachable, and fits the `u8` of the header -/
def Items.revAscending (it : Items) : Bool :=
  (0 :: it.nexGates).all (fun n => revsBelow (maxVersion n it) n it && decide (maxVersion n it < 256))

def nodupNat : List Nat → Bool
  | [] => true
  | a :: r => !r.contains a && nodupNat r

/-- `rank`-style acyclicity: every parent and every struct-typed field refers to a definition
    *earlier* in the list (the translator emits the definitions topologically sorted) -/
def resolvesBefore : List Name → List StructDef → Bool
  | _, [] => true
  | seen, d :: r =>
    (match d.parent with | none => true | some p => seen.contains p) &&
    d.items.refs.all seen.contains && resolvesBefore (d.name :: seen) r

def wfStructs (env : Env) : Bool :=
  nodupNat (env.structs.map (·.name)) && resolvesBefore [] env.structs

def wfRevisions (env : Env) : Bool := env.structs.all (fun d => d.items.revAscending)

def argRefs (l : List (Name × Ty)) : List Name := l.flatMap (fun p => tyRefs p.2)

def wfProto (env : Env) (p : ProtoDef) : Bool :=
  nodupNat (p.methods.map (·.id)) && nodupNat (p.methods.map (·.name)) &&
  p.methods.all (fun m => (argRefs m.request ++ argRefs m.response).all (fun n => (lookup env n).isSome)) &&
  (!p.noresponse || p.methods.all (fun m => m.response.isEmpty))

def wfProtos (env : Env) : Bool :=
  nodupNat (env.protos.map (·.name)) && env.protos.all (wfProto env)

/-- fuel that suffices for the hierarchy of every definition of a well-formed environment -/
def Env.depth (env : Env) : Nat := env.structs.length + 1

end Nx.Schema
