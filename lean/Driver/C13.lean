import NxModel.Bytes
/-! driver stub for C13 (replaced when the property's model lands) -/
def main : IO Unit := IO.println "stub C13"
