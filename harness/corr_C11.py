"""C11 — an RMC server answers every request exactly once with the right outcome.

Tie (three parts, all on the working tree on every run):
 1. translator tools/rmc_servers.py: per generated server class the dispatch table (method ids, supported?,
    response kind) read with `ast`; shape of `handle()`/stubs compared with the generator's template;
    table obligations re-checked by the Lean kernel; cross-checked against the imported classes.
 2. correspondence: a raw peer feeds request datagrams to the real `RMCClient.start(servers)` with EVERY
    generated server class and EVERY method id (+ unknown ones, unknown protocols); user methods are scripted
    (succeed with a well-typed value, stub, raise RMC errors / mapped / unmapped / subclassed exceptions,
    wrongly typed / incomplete results), bodies valid / truncated at every length / extended / random.
    Wrongly typed RESULTS at every position of every result type (harness/rmc_results.py): the well-typed result of a
    method with ONE value replaced / inserted — the whole result, a field of a multi-value response, a list element, a
    map key / value, an attribute of a returned structure (at any depth) — by a value from a catalogue of every
    builtin kind (None, bool, ints in and out of range, floats, text incl. non-ASCII / unencodable / too long, bytes,
    bytearray, NEX value objects, flat lists / tuples / dicts, opaque objects). The Lean model (`RmcResult.check`)
    predicts which exception the validation / encoder raises (name and class); the property's own "wrongly typed"
    relation (`incompatible`, Lean twin `incompat`, proved to be rejected by the model) demands an error response.
    Unknown ids that ALIAS a defined one under a narrowing of the 32-bit method id / 16-bit protocol id (`alias_ids`,
    `unknown_protocol_cases`): k | 2^b, k + r*2^b, sign-/one-extended, shifted and byte-swapped forms of every method id k of
    every class, the holes of each table and the ids just past its end; the simulator records every generated handle()
    entered and every user method invoked per request; `allowed_calls` is the property's "which handler may run" (none for
    unknown protocol / method, unsupported method, unreadable parameters), the model's `dispatch` (driver line `inv`) must
    predict the real dispatch of every request.
    NESTED framing (harness/rmc_frames.py, lean/NxModel/Nex/RmcRequest.lean): the schema of every request (parameter types,
    structure layouts with their version gates) is read from the code under test; a well-formed body of every method gets
    ONE length / count / version / tag field changed at any nesting depth (structure frame sizes with structure headers on,
    anydata holder lengths, buffer / string lengths, list / map counts: smaller than needed by 1..all with the bytes kept
    or cut, larger with padding / swallowing what follows / past the end, right but followed by surplus; with and
    without bytes appended to the body, enclosing frames adjusted or not). The reference reader (`FR.reference`, Lean twin
    `RmcRequest.readRequest`, compared on every case) says whether the parameters are readable and with which values:
    unreadable -> exactly one error response of the exception's class and NO handler invoked; readable -> the handler is
    invoked once with exactly those values (`handler-arguments`). The model computes the extraction outcome from the
    request's own body (extract token `m<hdr>:<schema>`).
    For every request the compiled model (`nxdrv_C11`, line `full`) must predict both what the real
    `server.handle()` did and the exact bytes sent back (or silence, or that the exception leaves the loop).
    Registered OBJECTS and the TIME handlers take (harness/c11_objects.py, lean/NxModel/Nex/RmcServerObj.lean): every class is
    also registered as an instance of a stateful user subclass whose truth value is each of `OBJ.FLAVOURS` (plain, empty /
    non-empty container via `__len__`, `__bool__` False / True, both, truth values that change from request to request), and
    handlers await each of `OBJ.DELAYS_MS` (0 … 1 s … 29 / 30 / 31 s … 1 h … 1 day, + random) of VIRTUAL time (the loop of
    harness/sim.py) before returning / raising an RMC error / raising a Python exception; the session lingers afterwards, so
    that a second answer is seen. Same oracle (the object's truth value and the duration are no inputs of it), the model
    (`sreqo` = `serveStepTimed`) must also predict the virtual time until the loop is back at recv(), and every request is
    re-run with an instant handler on a plain object on a fresh connection (real loop) and must be answered byte-identically.
    CALLS IN BOTH DIRECTIONS (harness/c11_duplex.py): every class is served while 1..3 tasks of the served side have calls of their
    own outstanding towards the peer; schedules of (outgoing call / peer request of every outcome kind / the peer's answer / stray
    response) events; the peer requests are judged and replayed through the model like all others, the calls by `DUP.judge_calls`.
    A LISTENER OVER ITS LIFETIME (harness/c11_listener.py): the real `rmc.serve_on_transport` / `rmc.serve` over an in-memory transport
    accept several connections, concurrently and one after the other; handlers of the listener's classes attach instances of further classes
    to THEIR connection (`client.register_server`); requests of every outcome kind for every class arrive on connections that have / have
    not registered it. Oracle = the property's per-connection registry (`LST.plan`): NotImplemented and no handler where the connection has
    no server; the connection's own object and client where it has; a second client's registration succeeds, a second registration on one
    connection raises inside the handler; a later connection starts with the listener's servers only; nothing is sent on other connections.
    Every connection is replayed through `serveStep`, every whole life through the Lean listener model (`RmcListener.step`, lines lnew …).
    ORDER OF FIRST USE of structure classes (harness/c11_firstuse.py): ancestor-then-derived / derived-then-ancestor / alone, for every
    (ancestor, derived) pair of structure classes, each sequence in an interpreter that has used no structure yet; oracle = the
    reference reader over the response body vs the Python value the handler returned (no library encoder / decoder involved).
 3. oracle on the real code = the property's outcome table, judged independently of the model.
"""
import os, random, struct, multiprocessing, importlib, collections, itertools
import vf
import rmc_servers as T
import rmc_server_sim as R
import rmc_results as RES
import rmc_frames as FR
import c11_objects as OBJ
import c11_duplex as DUP
import c11_listener as LST
from nintendo.nex import errors, settings as nexsettings

LEVEL = "proof"
M32 = 0xFFFFFFFF
MASK = 0x80000000
NOTIMPL = 0x80010002
PYCODE = {"type": 0x80040002, "index": 0x80040003, "memory": 0x80040006, "key": 0x80040007, "other": 0x80040001}


def session_settings(minor):
    """settings of a session with configuration `minor` (= PRUDP minor version + 100 * index into R.NEX_VERSIONS)"""
    S = R.config_settings(minor)
    if minor % 100 >= 3: S["nex.struct_header"] = True
    return S


def rmc_token(code):
    """what `common.RMCError(code)` amounts to for handle_request"""
    if code is None: return "rmc:%d" % (0x00010001 | MASK)
    if isinstance(code, str):
        if code in errors.error_codes: return "rmc:%d" % (errors.error_codes[code] | MASK)
        return "key"   # Result.error(name) raises KeyError inside the handler
    return "rmc:%d" % (code | MASK)


def user_token(script, m):
    mode = script["mode"]
    if mode == "stub": return "stub"
    if mode == "raise":
        if script["exc"] in ("RMCError", "SubRMCError"): return "raise:" + rmc_token(script.get("code"))
        return "raise:" + R.EXC[script["exc"]][1]
    if mode == "wrong": return "ret:wrong:type"
    if mode == "missing": return "ret:missing:other"
    return None  # ok / partial / wrongpos: needs what the real encoding did


def srv_line(si):
    ms = ",".join("%d:%d:%s" % (m["id"], 1 if m["supported"] else 0, m["resp"]) for m in si["methods"]) or "-"
    return "srv %d %d %s" % (si["protocol"], 1 if si["noresponse"] else 0, ms)


# ------------------------------------------------------------------ case generation (inside the workers)
RMC_EDGE_CODES = [0, 1, 0x10001, 0x10002, 0x7FFFFFFF, 0x80000000, 0x80010002, 0xFFFFFFFF]
RMC_BAD_CODES = [0x100000000, 0x180000005, -1, -5, -0x80000000]


def alias_ids(k, ids, rng, quick):
    """32-bit method ids that are NOT defined but that some narrowing of the id maps onto the defined id `k`:
    one more bit set (what a mask `& ~2^b` would clear), k plus a multiple of 2^b (what a truncation to b bits would
    drop; b = 8, 15, 16, 24, 31 and random), the sign-/one-extended forms, a byte-swapped id"""
    out = {k | (1 << b) for b in range(32)}
    out |= {k + (1 << 15), k + (1 << 16), k + (1 << 31), 0xFFFF0000 | k, 0xFFFF8000 | k, 0xFFFFFF00 | k, 0x80008000 | k,
            (k << 8) & M32, (k << 16) & M32, (k << 24) & M32, int.from_bytes(k.to_bytes(4, "little"), "big"), (-k) & M32, k ^ M32}
    for b in (8, 15, 16, 24):
        for _ in range(1 if quick else 4):
            out.add((k + (rng.randrange(1, 1 << (32 - b)) << b)) & M32)
    out = sorted(x for x in out if x not in ids and 0 <= x <= M32)
    if quick:   # bit 15 / 16 / 31 and the extended forms always; a sample of the others
        must = {k | (1 << 15), k | (1 << 16), k | (1 << 31), 0xFFFF0000 | k, 0xFFFF8000 | k} - set(ids)
        rest = [x for x in out if x not in must]
        out = sorted(must | set(rng.sample(rest, min(len(rest), 8))))
    return out


def mk_case(si, idx, method, body, script, kind, extract, rng, protocol=None, call_id=None):
    if call_id is None:
        call_id = rng.choice([0, 1, M32, 0x80000000]) if rng.random() < 0.2 else rng.randrange(1 << 32)
    p = si["protocol"] if protocol is None else protocol
    return {"srv": idx, "module": si["module"] if si else None, "class": si["class"] if si else None, "protocol": p, "method": method,
            "call_id": call_id, "body": body.hex(), "datagram": R.make_request(p, method, call_id, body).hex(),
            "script": script, "kind": kind, "extract": extract}


_SEEN_FR = collections.Counter()


def with_ref(case, sch, hdr, tys, ref=None):
    """attach the reference reading of the request's parameters (None if the reference reader declines)"""
    if ref is None: ref = FR.reference(sch, hdr, tys, bytes.fromhex(case["body"]))
    if ref is None: return None
    case["extract"] = "ref"
    case["rq"] = {"tys": tys, "hdr": 1 if hdr else 0}
    case["ref"] = {k: v for k, v in ref.items() if k != "marks"}
    return case


def frame_cases(si, idx, m, body, S, rng, quick, script, cases):
    """malformed NESTED framing: the well-formed body of method `m` with one length / count / version / tag field lying"""
    hdr = bool(S["nex.struct_header"])
    sch = FR.schema_for(S)
    tys = sch.method_tys(si, m)
    if tys is None: return None
    pristine = FR.reference(sch, hdr, tys, body, trace=True)
    if pristine is None: return None
    if pristine["out"] != "ok": raise vf.InfraError("reference reader rejects the well-formed body of %s.%s: %s" % (si["class"], m["user"], body.hex()))
    marks = pristine["marks"]
    cands = FR.candidates(marks, len(body))
    groups = {}
    for c in cands: groups.setdefault((marks[c[0]]["kind"], c[1]), []).append(c)
    chosen = []
    if quick:
        must = [g for g in groups if g[0] in ("struct-size", "any-inner", "any-outer") and g[1] in FR.SHORT]
        if must:
            g = rng.choice(sorted(must)); chosen.append((rng.choice(groups[g]), 1, rng.choice([0, 8, 40])))
            _SEEN_FR[g] += 1
        order = sorted(sorted(groups), key=lambda g: rng.random() ** (1.0 + _SEEN_FR[g]))
        for g in order[::-1][:9]:
            chosen.append((rng.choice(groups[g]), rng.random() < 0.5, rng.choice([0, 0, 1, 8, 40])))
            _SEEN_FR[g] += 1
    else:
        pick = cands if len(cands) <= 120 else rng.sample(cands, 120)
        chosen = [(c, fo, rng.choice([0, 0, 1, 8, 40])) for c in pick for fo in (0, 1)]
    for cand, fix_outer, tail in chosen:
        mu = FR.mutate(body, marks, cand, fix_outer, tail, rng)
        if mu is None: continue
        mk, mut = marks[cand[0]], cand[1]
        ref = FR.reference(sch, hdr, tys, mu[0])
        if ref is None: continue
        # what the construction alone guarantees (a check of the reference reader itself)
        if mk["kind"] == "struct-size" and mk.get("full") and mut == "short-cut" and fix_outer and not (ref["out"] == "err" and ref["cls"] == "other"):
            raise vf.InfraError("reference reader accepts a cut structure frame: %s.%s %s" % (si["class"], m["user"], mu[0].hex()))
        if mk["kind"] == "struct-size" and mut == "long-pad" and fix_outer and not (ref["out"] == "ok" and ref["canon"] == pristine["canon"]):
            raise vf.InfraError("reference reader: padding inside a structure frame changes the values: %s.%s %s" % (si["class"], m["user"], mu[0].hex()))
        sc = script("ok") if rng.random() < 0.85 else script("stub")
        c = mk_case(si, idx, m["id"], mu[0], sc, "frame:%s:%s" % (mk["kind"], mut), "ref", rng)
        c["what"] = mu[1]
        cases.append(with_ref(c, sch, hdr, tys, ref))
    return sch, hdr, tys, pristine


def frames_for_server(si, idx, rng, tier, minor):
    """the framing cases of every method alone (job kind `frames`: the configuration with structure headers, for the classes
    whose main job runs without), each method's malformed requests followed by a well-formed one"""
    S = session_settings(minor)
    cases = []
    def script(mode, **kw):
        sc = {"mode": mode, "vseed": rng.randrange(1 << 30)}
        sc.update(kw); return sc
    for m in si["methods"]:
        if not m["supported"]: continue
        try: body = R.valid_body(si, m, S, rng.randrange(1 << 30))
        except R.V.Unbuildable: continue
        got = frame_cases(si, idx, m, body, S, rng, tier == "quick", script, cases)
        if got:
            sch, hdr, tys, pristine = got
            c = with_ref(mk_case(si, idx, m["id"], body, script("ok"), "ok", "ok", rng), sch, hdr, tys, pristine)
            if c: cases.append(c)
    return cases


def cases_for_server(si, idx, rng, tier, minor, all_codes):
    quick = tier == "quick"
    S = session_settings(minor)
    cases = []
    tails = []
    ids = [m["id"] for m in si["methods"]]
    def script(mode, **kw):
        sc = {"mode": mode, "vseed": rng.randrange(1 << 30)}
        if rng.random() < 0.15: sc["yields"] = rng.randint(1, 2)
        if rng.random() < 0.1: sc["send_yields"] = 1
        sc.update(kw); return sc
    def aliases(m, body):
        # undefined ids that alias this defined one, carrying a body its handler would accept and scripts under which it
        # would answer with a success / an error of its own: each must be answered NotImplemented and run no user code
        for u in alias_ids(m["id"], ids, rng, quick):
            sc = script("ok") if rng.random() < 0.8 else script("raise", exc="RMCError", code=rng.choice(all_codes))
            cases.append(mk_case(si, idx, u, body, sc, "alias-method", "ok", rng))
    for m in si["methods"]:
        if not m["supported"]:
            cases.append(mk_case(si, idx, m["id"], b"", script("stub"), "unsupported", "ok", rng))
            cases.append(mk_case(si, idx, m["id"], rng.randbytes(rng.randint(1, 20)), script("ok"), "unsupported", "ok", rng))
            aliases(m, b"")
            continue
        vseed = rng.randrange(1 << 30)
        try:
            body = R.valid_body(si, m, S, vseed)
        except R.V.Unbuildable:
            aliases(m, b"")
            continue
        aliases(m, body)
        # malformed nested framing; the reference reading of the well-formed body (what the handler must be invoked with)
        got = frame_cases(si, idx, m, body, S, rng, quick, script, cases)
        def refd(c):
            if got: return with_ref(c, got[0], got[1], got[2]) or c
            return c
        # valid body: stub / success / failures
        cases.append(refd(mk_case(si, idx, m["id"], body, script("stub"), "stub", "ok", rng)))
        cases.append(refd(mk_case(si, idx, m["id"], body, script("ok"), "ok", "ok", rng)))
        cases.append(refd(mk_case(si, idx, m["id"], body + rng.randbytes(rng.randint(1, 8)), script("ok"), "ok-extended-body", "ok", rng)))
        cases.append(mk_case(si, idx, m["id"], body, script("wrong"), "wrong-type:" + m["resp"], "ok", rng))
        if m["resp"] == "m":
            cases.append(mk_case(si, idx, m["id"], body, script("missing"), "missing-field", "ok", rng))
            for k in ([rng.randrange(len(m["fields"]))] if quick else range(len(m["fields"]))):   # any one field missing
                cases.append(mk_case(si, idx, m["id"], body, script("missing", k=k), "missing-field", "ok", rng))
        # failure at every point of the response encoding, each followed (in `tails`) by successful calls
        if m["resp"] in ("m", "s"):
            for k in (range(len(m["fields"])) if m["resp"] == "m" else [0]):
                pc = mk_case(si, idx, m["id"], body, script("partial", k=k), "partial:" + m["resp"], "ok", rng)
                cases.append(pc)
                tails.append([pc, mk_case(si, idx, m["id"], body, script("ok"), "ok-after-failure", "ok", rng)])
        # ONE wrongly typed value at a position of the (otherwise well-typed) result
        if m["resp"] in ("m", "s"):
            for sc, kind in wrong_result_scripts(si, m, S, rng, 3 if quick else 24, 2 if quick else 4):
                wc = mk_case(si, idx, m["id"], body, script("wrongpos", **sc), kind, "ok", rng)
                cases.append(wc)
                if rng.random() < (0.15 if quick else 0.05):
                    tails.append([wc, mk_case(si, idx, m["id"], body, script("ok"), "ok-after-failure", "ok", rng)])
        excs = list(R.MAPPED) + (R.SUBCLASSED + R.UNMAPPED if not quick else rng.sample(R.SUBCLASSED, 2) + rng.sample(R.UNMAPPED, 3))
        for name in excs:
            cases.append(mk_case(si, idx, m["id"], body, script("raise", exc=name), "raise:" + R.EXC[name][1], "ok", rng))
        codes = (rng.sample(all_codes, 3) if quick else list(all_codes)) + [rng.choice(RMC_EDGE_CODES)]
        for c in codes:
            cases.append(mk_case(si, idx, m["id"], body, script("raise", exc="RMCError", code=c), "raise:rmc", "ok", rng))
        cases.append(mk_case(si, idx, m["id"], body, script("raise", exc="RMCError", code=errors.error_names[rng.choice(all_codes)]), "raise:rmc-name", "ok", rng))
        # truncated at every length (sampled beyond 40 bytes in quick)
        if m["nreq"] > 0 and len(body) > 0:
            ks = list(range(len(body)))
            cap = 40 if quick else 400
            if len(ks) > cap: ks = sorted(set(rng.sample(ks, cap - 2) + [0, len(body) - 1]))
            for k in ks:
                cases.append(mk_case(si, idx, m["id"], body[:k], script(rng.choice(["stub", "ok"])), "truncated", "other", rng))
        # arbitrary bodies
        for _ in range(2 if quick else 8):
            rb = rng.randbytes(rng.choice([0, 1, 2, 4, 8, 16, 40]))
            if rng.random() < 0.5 and body:
                bb = bytearray(body); bb[rng.randrange(len(bb))] ^= 1 << rng.randrange(8); rb = bytes(bb)
            cases.append(refd(mk_case(si, idx, m["id"], rb, script(rng.choice(["stub", "ok"])), "random-body", "observed", rng)))
    # one method gets the whole catalogue in every tier
    sup = [m for m in si["methods"] if m["supported"]]
    if sup:
        m = rng.choice(sup)
        try:
            body = R.valid_body(si, m, S, 7)
            for name in R.SUBCLASSED + R.UNMAPPED:
                cases.append(mk_case(si, idx, m["id"], body, script("raise", exc=name), "raise:" + R.EXC[name][1], "ok", rng))
            for c in RMC_EDGE_CODES:
                cases.append(mk_case(si, idx, m["id"], body, script("raise", exc="RMCError", code=c), "raise:rmc-edge", "ok", rng))
            for c in all_codes:   # every code of the error table, by number and by name
                cases.append(mk_case(si, idx, m["id"], body, script("raise", exc="RMCError", code=c), "raise:rmc-table", "ok", rng))
                cases.append(mk_case(si, idx, m["id"], body, script("raise", exc="RMCError", code=errors.error_names[c]), "raise:rmc-table-name", "ok", rng))
            cases.append(mk_case(si, idx, m["id"], body, script("raise", exc="RMCError", code=None), "raise:rmc-default", "ok", rng))
            cases.append(mk_case(si, idx, m["id"], body, script("raise", exc="SubRMCError", code=0x10005), "raise:rmc-subclass", "ok", rng))
            cases.append(mk_case(si, idx, m["id"], body, script("raise", exc="RMCError", code="No::SuchError"), "raise:rmc-unknown-name", "ok", rng))
        except R.V.Unbuildable:
            pass
    # unknown method ids
    unk = [0, 0x7FFF, 0x8000, M32, (max(ids) + 1) if ids else 1, rng.randrange(1 << 32), rng.randrange(1, 300)]
    top = max(ids) if ids else 0
    unk += [u for u in range(0, top + 4) if u not in ids][: (12 if quick else 300)]       # holes of the table, ids just past its end
    unk += [top + 2, top + 3, top + 0x100, 2 * top + 1]
    for u in dict.fromkeys(unk):
        if u not in ids:
            cases.append(mk_case(si, idx, u, rng.randbytes(rng.randint(0, 12)), script("ok"), "unknown-method", "ok", rng))
    rng.shuffle(cases)
    # structured part of the sequence: failure, then the same method succeeding, then some other success / failure
    oks = [c for c in cases if c["kind"] == "ok"]
    fails = [c for c in cases if c["kind"] in ("truncated", "raise:other", "raise:type", "raise:rmc", "wrong-type:s", "wrong-type:m", "missing-field", "stub")]
    for t in tails:
        cases += t
        if oks: cases.append(dict(rng.choice(oks), kind="ok-after-failure"))
        if fails and rng.random() < 0.5: cases.append(rng.choice(fails))
    return cases


_SEEN_SLOTS = collections.Counter()


def wrong_result_scripts(si, m, S, rng, npos, nval):
    """scripts (+ case kind) for results of method `m` that are well typed except at one position"""
    out = []
    try:
        module = importlib.import_module("nintendo.nex." + si["module"])
        b = R.builder(si["module"])
        for _ in range(2 if npos <= 3 else 4):       # a few different well-typed results (list lengths, ... vary)
            vseed = rng.randrange(1 << 30)
            b.rng = random.Random(vseed + 1)
            rv = b.response_value(si["class"], m["user"], m["resp"], m["fields"])
            if not b.encodes(si["class"], m["user"], m["resp"], m["fields"], rv, S): continue
            poss = RES.result_positions(m, module, rv, S)
            # positions of declared types seen rarely so far (in this worker) first: deep, rare types (variant inside a map
            # inside a structure, s8, ...) are reached as reliably as the ubiquitous top-level list
            keyed = sorted(poss, key=lambda p: rng.random() ** (1.0 + _SEEN_SLOTS[(RES.slot_token(p[2], S).split(".")[0], p[1][:3])]))
            pick = keyed[-npos:]
            for path, where, slot, required, topcls in pick:
                stok = RES.slot_token(slot, S)
                _SEEN_SLOTS[(stok.split(".")[0], where[:3])] += 1
                hashable = bool(path) and path[-1][0] == "mkey"
                for w in RES.pick_wrong(rng, stok, nval, hashable):
                    if where == "top.cls" and isinstance(RES.token_value(w), topcls): continue
                    out.append(({"vseed": vseed, "path": path, "w": w, "slot": stok, "where": where},
                                "wrong-result-%s:%s" % (stok.split(".")[0], where)))
    except (R.V.Unbuildable, RES.Unknown):
        pass
    return out


def unknown_protocol_cases(srvinfos, rng, n, minor=0):
    used = {s["protocol"] for s in srvinfos}
    cs = []
    for p in [0, 1, 0x7E, 0x7F, 0x80, 0xFF, 0x100, 0xFFFF] + [rng.randrange(1 << 16) for _ in range(n)]:
        if p not in used:
            cs.append(mk_case(None, None, rng.choice([1, 2, 3, M32]), rng.randbytes(rng.randint(0, 9)), {"mode": "ok", "vseed": 0}, "unknown-protocol", "ok", rng, protocol=p))
    # unregistered protocol ids that ALIAS a registered one under a narrowing of the 16-bit id (one more bit set, the
    # request flag 0x80 taken for part of the id, the high byte dropped), asking for a method that server defines with a
    # body it accepts: NotImplemented, and no server is entered
    S = session_settings(minor)
    for si in srvinfos:
        q = si["protocol"]
        al = {q | (1 << b) for b in range(16)} | {q + 0x100, q + 0x8000, 0xFF00 | q, 0xFF80 | q, (q << 8) & 0xFFFF, q + (rng.randrange(1, 256) << 8)}
        sup = [m for m in si["methods"] if m["supported"]]
        for p in sorted(al):
            if p in used or not (0 <= p <= 0xFFFF): continue
            m = rng.choice(sup) if sup else None
            body = b""
            if m:
                try: body = R.valid_body(si, m, S, rng.randrange(1 << 30))
                except R.V.Unbuildable: pass
            cs.append(mk_case(None, None, m["id"] if m else 1, body, {"mode": "ok", "vseed": rng.randrange(1 << 30)}, "alias-protocol", "ok", rng, protocol=p))
    return cs


def lethal_cases(si, idx, rng):
    """requests after which the real loop is expected to end (each needs its own session)"""
    sup = [m for m in si["methods"] if m["supported"]]
    out = []
    if not sup: return out
    m = rng.choice(sup)
    try: body = R.valid_body(si, m, session_settings(0), 3)
    except R.V.Unbuildable: return out
    for name in R.BASES:
        out.append(mk_case(si, idx, m["id"], body, {"mode": "raise", "exc": name, "vseed": 0}, "raise:base", "ok", rng))
    for c in RMC_BAD_CODES:
        out.append(mk_case(si, idx, m["id"], body, {"mode": "raise", "exc": "RMCError", "code": c, "vseed": 0}, "raise:rmc-out-of-range", "ok", rng))
    return out


def object_cases(si, idx, rng, minor, all_codes, nmeth, delays, tag, bodies=None):
    """a compact request mix for one registered class: per chosen method every outcome kind of the property (success, stub,
    RMC error, mapped / unmapped exception, wrongly typed result, unreadable body) + unknown / unsupported method ids;
    `delays`: None or the list of virtual milliseconds the handler awaits first (each delay x each outcome kind)"""
    S = session_settings(minor)
    cases = []
    ids = [m["id"] for m in si["methods"]]
    def add(method, body, sc, base, extract, delay=None):
        sc = dict(sc, vseed=sc.get("vseed", rng.randrange(1 << 30)))
        if rng.random() < 0.15: sc["yields"] = rng.randint(1, 2)
        if rng.random() < 0.1: sc["send_yields"] = 1
        kind = tag + ":" + base
        if delay is not None:
            sc["delay_ms"] = delay
            kind = "%s-%s:%s" % (tag, ("%dms" % delay) if delay in OBJ.DELAYS_MS else "random", base)
        c = mk_case(si, idx, method, body, sc, kind, extract, rng)
        if delay is not None: c["linger_ms"] = rng.choice([0, 0, 1000, delay + 1000, 2 * delay + 7200000])
        cases.append(c)
    sup = [m for m in si["methods"] if m["supported"]]
    usable = []
    for m in rng.sample(sup, len(sup)):
        if len(usable) >= nmeth: break
        try: usable.append((m, R.valid_body(si, m, S, rng.randrange(1 << 30))))
        except R.V.Unbuildable: continue
    def outcomes(m, body):
        yield body, {"mode": "ok"}, "ok", "ok"
        yield body, {"mode": "stub"}, "stub", "ok"
        yield body, {"mode": "raise", "exc": "RMCError", "code": rng.choice(all_codes + RMC_EDGE_CODES)}, "raise:rmc", "ok"
        name = rng.choice(R.MAPPED + R.SUBCLASSED)
        yield body, {"mode": "raise", "exc": name}, "raise:" + R.EXC[name][1], "ok"
        yield body, {"mode": "raise", "exc": rng.choice(R.UNMAPPED)}, "raise:other", "ok"
        yield body, {"mode": "wrong"}, "wrong-type:" + m["resp"], "ok"
        if m["nreq"] > 0 and len(body) > 0:
            yield body[:rng.randrange(len(body))], {"mode": rng.choice(["ok", "stub"])}, "truncated", "other"
    for m, body in usable:
        if delays is None:
            for b, sc, base, ex in outcomes(m, body): add(m["id"], b, sc, base, ex)
        else:
            for d in delays:
                for b, sc, base, ex in outcomes(m, body):
                    if base in ("wrong-type:" + m["resp"], "truncated", "stub") and rng.random() < 0.6: continue
                    add(m["id"], b, sc, base, ex, d)
    d = (lambda: None) if delays is None else (lambda: rng.choice(delays))
    for m in [m for m in si["methods"] if not m["supported"]][:2]:
        add(m["id"], b"", {"mode": "ok"}, "unsupported", "ok", d())
    top = max(ids) if ids else 0
    for u in [top + 1, rng.randrange(1 << 32)] + ([usable[0][0]["id"] | 0x8000] if usable else []):
        if u not in ids: add(u, usable[0][1] if usable else b"", {"mode": "ok"}, "unknown-method", "ok", d())
    rng.shuffle(cases)
    return cases


def object_jobs(kind, srvinfos, rng, tier, minor, all_codes, extra):
    """-> list of (srvinfos, cases, minor, flavours) for the virtual-time runner"""
    quick = tier == "quick"
    jobs = []
    if kind == "objects":
        # one connection per truth-value flavour of the registered object
        for fl in OBJ.FLAVOURS:
            cases = object_cases(srvinfos[0], 0, rng, minor, all_codes, 2 if quick else 6, None, "object-" + fl)
            cases += [dict(c, kind="object-%s:%s" % (fl, c["kind"])) for c in unknown_protocol_cases(srvinfos, rng, 1, minor)[:3]]
            rng.shuffle(cases)
            jobs.append((srvinfos, cases, minor, [fl]))
    elif kind == "slow":
        # every delay of the list (+ random ones) x every outcome kind, on objects of a random flavour
        delays = OBJ.DELAYS_MS + [rng.randrange(1, 100000), rng.randrange(100000, 10000000), rng.choice([29999, 30001, 59999, 60001])]
        fl = rng.choice(OBJ.FLAVOURS)
        cases = object_cases(srvinfos[0], 0, rng, minor, all_codes, 1 if quick else 4, delays, "slow")
        jobs.append((srvinfos, cases, minor, [fl]))
    elif kind == "objects-mixed":
        # several registered objects of different flavours, fast and slow handlers, long sequences
        fls = [rng.choice(OBJ.FLAVOURS) for _ in srvinfos]
        fls[:len(OBJ.FALSY_AT_FIRST)] = rng.sample(sorted(OBJ.FALSY_AT_FIRST), min(len(fls), len(OBJ.FALSY_AT_FIRST)))
        pool = []
        for i, si in enumerate(srvinfos):
            pool += object_cases(si, i, rng, minor, all_codes, 2, None, "objects-mixed")
            pool += object_cases(si, i, rng, minor, all_codes, 1, rng.sample(OBJ.DELAYS_MS, 4), "objects-mixed-slow")
        pool += [dict(c, kind="objects-mixed:" + c["kind"]) for c in unknown_protocol_cases(srvinfos, rng, 10, minor)]
        jobs.append((srvinfos, [rng.choice(pool) for _ in range(extra)], minor, fls))
    for j in jobs:
        for c in j[1]: c["objects"] = j[3]
    return jobs



# ------------------------------------------------------------------ calls in BOTH directions (harness/c11_duplex.py)
DUPLEX_BASE = ("ok", "unknown-method", "raise", "noresponse")


def duplex_sessions(srvinfos, rng, tier, minor, all_codes):
    """schedules on one connection: the served side has 1..3 calls of its own outstanding towards the peer while the peer sends
    requests of every outcome kind (success, unknown method, raising handler, response-less protocol, + the rest of the mix) and
    answers the calls before / between / after them. -> sessions in the format of the other families (cases = the peer's
    requests in order of arrival; results[0]["duplex"] = the whole schedule, the records of the other events, the verdict on the calls)"""
    quick = tier == "quick"
    si = srvinfos[0]
    pool = object_cases(si, 0, rng, minor, all_codes, 2 if quick else 5, None, "duplex")
    by = collections.defaultdict(list)
    for c in pool: by[c["kind"].split(":", 1)[1].split(":")[0]].append(c)
    nores = []
    if len(srvinfos) > 1:
        nores = [c for c in object_cases(srvinfos[1], 1, rng, minor, all_codes, 2, None, "duplex") if c["kind"].split(":")[1] in ("ok", "raise", "stub")]
    def base(kind):
        if kind == "noresponse": return rng.choice(nores) if nores else rng.choice(pool)
        if kind == "raise": return rng.choice(by.get("raise") or pool)
        return rng.choice(by.get(kind) or by.get("unsupported") or pool)
    def call_event():
        p = rng.choice([si["protocol"], si["protocol"], rng.randrange(1, 0x7F), 0x7F, rng.randrange(0x80, 0x10000)])
        return {"ev": "call", "protocol": p, "method": rng.choice([1, 2, rng.randrange(1, 0x8000), rng.randrange(1 << 32)]),
                "body": rng.randbytes(rng.choice([0, 1, 4, 30])).hex(), "noresponse": False}
    def answer_event(i, ce):
        if rng.random() < 0.7: return {"ev": "ans", "call": i, "kind": "ok", "protocol": ce["protocol"], "method": ce["method"] & 0xFFFF7FFF, "body": rng.randbytes(rng.choice([0, 1, 8, 40])).hex()}
        return {"ev": "ans", "call": i, "kind": "err", "protocol": ce["protocol"], "code": rng.choice(all_codes + [0x80010002, 0x80040001, 1])}
    plans = []      # (number of calls, number of base requests, schedules)
    perms = list(itertools.permutations(DUPLEX_BASE))
    plans.append((1, DUP.interleavings(4, 1, rng, 100)))
    plans.append((2, DUP.interleavings(4, 2, rng, 10 if quick else 60)))
    plans.append((3, DUP.interleavings(4, 3, rng, 6 if quick else 40)))
    plans.append((1, DUP.interleavings(1, 1, rng, 10)))
    sessions = []
    for n_calls, scheds in plans:
        for sched in scheds:
            for perm in ([rng.choice(perms)] if quick else rng.sample(perms, 4)):
                reqs = [base(k) for k in perm]
                events, cevs, open_ = [], {}, set()
                for tok in sched:
                    if tok[0] == "call":
                        cevs[tok[1]] = call_event(); events.append(cevs[tok[1]]); open_.add(tok[1])
                        if rng.random() < 0.1: events.append(dict(call_event(), noresponse=True)); cevs[max(cevs) + 100] = events[-1]
                    elif tok[0] == "ans":
                        # (calls are numbered in invocation order, response-less ones included)
                        events.append(answer_event([id(e) for e in events if e["ev"] == "call"].index(id(cevs[tok[1]])), cevs[tok[1]]))
                        open_.discard(tok[1])
                        if rng.random() < 0.15:     # the answer once more / a response nobody waits for
                            events.append({"ev": "stray", "kind": rng.choice(["ok", "err"]), "protocol": cevs[tok[1]]["protocol"], "method": 1,
                                           "call_id": rng.choice([0, 0xFFFFFFFF, rng.randrange(1 << 32), 1000 + rng.randrange(1000)]), "code": 0x80010002})
                    else:
                        c = reqs[tok[1] % len(reqs)]
                        events.append({"ev": "req", "case": dict(c, kind="duplex%d:%s" % (len(open_), c["kind"].split(":", 1)[1]), duplex=len(events))})
                if rng.random() < 0.5:
                    c = base("ok"); events.append({"ev": "req", "case": dict(c, kind="duplex-after:%s" % c["kind"].split(":", 1)[1], duplex=len(events))})
                sessions.append(events)
    pre = R.prebuild(srvinfos)
    out = []
    for events in sessions:
        recs = DUP.run_sessions([(srvinfos, events, minor)], prebuilt=pre)[0]
        cases = [e["case"] for e in events if e["ev"] == "req"]
        results = [r for e, r in zip(events, recs) if e["ev"] == "req"]
        if not results: continue
        for r in results: r.setdefault("sent", []); r.setdefault("loop", "alive")
        others = [[k, r] for k, (e, r) in enumerate(zip(events, recs)) if e["ev"] != "req"]
        results[0]["duplex"] = {"events": events, "records": others, "bad": DUP.judge_calls(events, recs)}
        sel = [i for i, x in enumerate(results) if not x.get("skipped")]
        fresh = dict(zip(sel, R.run_fresh(srvinfos, [OBJ.plain(cases[i]) for i in sel], minor)))
        out.append((srvinfos, cases, results, minor, fresh, None))
    return out


# ------------------------------------------------------------------ a LISTENER with several connections (harness/c11_listener.py)
def listener_sessions(srvinfos, n_listener, rng, tier, minor, all_codes):
    """lifetimes of one listener (`rmc.serve_on_transport` / `rmc.serve` over the in-memory transport): connections are accepted,
    served and closed, concurrently and one after the other; handlers of the listener's classes (`srvinfos[:n_listener]`) attach
    instances of the per-connection classes (`srvinfos[n_listener:]`) to THEIR connection with `client.register_server`; requests of
    every outcome kind for every class arrive on connections that have / have not registered it. -> one session per connection in
    the format of the other families (cases = that connection's requests in order; results[0]["listener"] = the whole life)"""
    quick = tier == "quick"
    pools = [object_cases(si, i, rng, minor, all_codes, 2 if quick else 4, None, "listener") for i, si in enumerate(srvinfos)]
    for i, pool in enumerate(pools):
        for c in pool: c["cls_idx"] = i
    unknown = [dict(c, kind="listener:" + c["kind"], cls_idx=None) for c in unknown_protocol_cases(srvinfos, rng, 2, minor)]
    xs = list(range(n_listener, len(srvinfos)))
    def base_of(c): return c["kind"].split(":", 1)[1]
    gate_src = [c for i in range(n_listener) for c in pools[i] if base_of(c) in ("ok", "raise:rmc", "stub") and not srvinfos[i]["noresponse"]] or \
               [c for i in range(n_listener) for c in pools[i] if base_of(c) in ("ok", "raise:rmc", "stub")]
    def again(case, **kw):
        cid = rng.choice([0, 1, M32]) if rng.random() < 0.1 else rng.randrange(1 << 32)
        c = dict(case, call_id=cid, datagram=R.make_request(case["protocol"], case["method"], cid, bytes.fromhex(case["body"])).hex())
        c.update(kw); c["script"] = dict(c["script"])
        return c
    class Life:
        def __init__(self): self.events, self.open_, self.next = [], [], 0
        def filler(self):
            if self.open_ and rng.random() < 0.35:
                c = rng.choice(self.open_)
                pool = rng.choice(pools + [unknown]) or pools[0]
                if pool: self.events.append({"ev": "req", "conn": c, "case": again(rng.choice(pool))})
        def open(self):
            c = self.next; self.next += 1; self.open_.append(c); self.events.append({"ev": "open", "conn": c}); self.filler(); return c
        def close(self, c):
            self.open_.remove(c); self.events.append({"ev": "close", "conn": c}); self.filler()
        def req(self, c, k, bases=None):
            pool = [x for x in pools[k] if bases is None or base_of(x) in bases] or pools[k]
            if pool: self.events.append({"ev": "req", "conn": c, "case": again(rng.choice(pool))})
            self.filler()
        def gate(self, c, ks):
            if not gate_src: return
            src = rng.choice(gate_src)
            self.events.append({"ev": "req", "conn": c, "case": again(src, script=dict(src["script"], register=list(ks)))})
            self.filler()
    OK = ("ok",)
    lives = []
    if xs:
        x, y = xs[0], xs[-1]
        L = lambda: rng.randrange(n_listener)
        # concurrent connections: A registers x; B (open at the same time) has not, then registers its own; C comes later
        f = Life(); a = f.open(); b = f.open()
        f.req(a, x, OK); f.gate(a, [x]); f.req(a, x, OK); f.req(b, x, OK); f.req(b, L()); f.req(b, x); f.gate(b, [x]); f.req(b, x, OK); f.req(a, x, OK)
        f.close(a); f.req(b, x, OK); c = f.open(); f.req(c, x, OK); f.req(c, L(), OK); f.gate(c, [x, y] if y != x else [x]); f.req(c, y, OK); f.req(b, y, OK)
        f.close(b); f.req(c, x); f.close(c); lives.append(f)
        # one after the other: the registration ends with its connection
        f = Life(); a = f.open(); f.gate(a, [x]); f.req(a, x, OK); f.req(a, x); f.close(a)
        b = f.open(); f.req(b, x, OK); f.req(b, L(), OK); f.gate(b, [x]); f.req(b, x, OK); f.close(b)
        c = f.open(); f.req(c, x, OK); f.req(c, y, OK); f.close(c); lives.append(f)
        # the same protocol twice on ONE connection (the handler raises), once each on two
        f = Life(); a = f.open(); f.gate(a, [x]); f.gate(a, [x]); f.req(a, x, OK); f.req(a, L(), OK); b = f.open()
        f.gate(b, [y, x] if y != x else [x]); f.gate(b, [x]); f.req(b, x, OK); f.req(b, y, OK); f.req(a, y, OK); f.gate(a, [rng.randrange(n_listener)])
        f.req(a, x, OK); f.close(b); f.req(a, x); f.close(a); lives.append(f)
    # random lives
    for _ in range(2 if quick else 10):
        f = Life()
        f.open()
        for _ in range(rng.randint(25, 60)):
            r = rng.random()
            if (r < 0.12 and len(f.open_) < 3 and f.next < 6) or not f.open_:
                if f.next >= 8: break
                f.open()
            elif r < 0.2: f.close(rng.choice(f.open_))
            elif r < 0.4 and xs: f.gate(rng.choice(f.open_), rng.sample(xs, rng.randint(1, len(xs))))
            elif r < 0.8 and xs: f.req(rng.choice(f.open_), rng.choice(xs), OK if rng.random() < 0.6 else None)
            else: f.req(rng.choice(f.open_), rng.randrange(len(srvinfos)))
        for c in list(f.open_):
            if rng.random() < 0.7: f.close(c)
        lives.append(f)
    out = []
    for n, f in enumerate(lives):
        events = LST.plan(f.events, srvinfos, n_listener)
        for ev in events:
            if ev["ev"] != "req": continue
            case = ev["case"]
            exp = case["lst"]["expect"]
            where = ("listener-gate-refused" if any(w == "dup" for _, w in exp) else "listener-gate" if exp else
                     "listener" if case.get("cls_idx") is None or case["cls_idx"] < n_listener else
                     "listener-own" if case["srv"] is not None else "listener-not-registered-here")
            case["kind"] = where + ":" + base_of(case)
        api = LST.APIS[(n + minor) % 2]
        recs, info = LST.run_listeners([(api, srvinfos, n_listener, events, minor)])[0]
        bad = LST.judge(events, recs, srvinfos, n_listener)
        if not bad and info["served"] != [[1, 10, False]]:
            bad = ("listen", "rmc.%s asked the transport to serve %s, expected PRUDP port 1, stream type 10, no key" % (api, info["served"]), 0)
        conns = list(dict.fromkeys(ev["conn"] for ev in events if ev["ev"] == "req"))
        life = {"api": api, "n_listener": n_listener, "events": events, "bad": bad, "recs": recs,
                "others": [[k, r] for k, (e, r) in enumerate(zip(events, recs)) if e["ev"] != "req"],
                "connections": sum(1 for e in events if e["ev"] == "open")}
        for c in conns:
            cases = [e["case"] for e in events if e["ev"] == "req" and e["conn"] == c]
            results = [r for e, r in zip(events, recs) if e["ev"] == "req" and e["conn"] == c]
            for r in results: r.setdefault("sent", []); r.setdefault("loop", "alive")
            results[0]["listener"] = dict(life, primary=(c == conns[0]))
            out.append((srvinfos, cases, results, minor, {}, None))
    return out


def _worker(job):
    """job = (kind, srvinfos, seed, tier, minor, all_codes, extra) -> (srvinfos, cases, results, minor)"""
    kind, srvinfos, seed, tier, minor, all_codes, extra = job
    rng = random.Random(seed)
    _SEEN_SLOTS.clear()
    if kind == "duplex":
        return duplex_sessions(srvinfos, rng, tier, minor, all_codes)
    if kind == "listener":
        return listener_sessions(srvinfos, extra, rng, tier, minor, all_codes)
    if kind == "server":
        cases = unknown_protocol_cases(srvinfos, rng, 2, minor) + cases_for_server(srvinfos[0], 0, rng, tier, minor, all_codes)
        jobs = [(srvinfos, cases, minor)]
    elif kind == "frames":
        cases = frames_for_server(srvinfos[0], 0, rng, tier, minor)
        rng.shuffle(cases)
        jobs = [(srvinfos, cases, minor)]
    elif kind == "lethal":
        cases = lethal_cases(srvinfos[0], 0, rng)
        # each lethal case in its own session, followed by a probe that can no longer be answered
        jobs = [(srvinfos, [c], minor) for c in cases]
    elif kind == "mixed":
        pool = []
        for i, si in enumerate(srvinfos):
            pool += cases_for_server(si, i, rng, "quick", minor, all_codes)
        pool += unknown_protocol_cases(srvinfos, rng, 20, minor)
        cases = [rng.choice(pool) for _ in range(extra)]
        jobs = [(srvinfos, cases, minor)]
    if kind in ("objects", "slow", "objects-mixed"):
        vjobs = object_jobs(kind, srvinfos, rng, tier, minor, all_codes, extra)
        res = OBJ.run_sessions(vjobs, seed)
        out = []
        for j, r in zip(vjobs, res):
            # the reference: the same request, the handler doing the same AT ONCE, on a plain object of the generated class, alone
            # on a fresh connection under the ordinary event loop
            sel = [i for i, x in enumerate(r) if not x.get("skipped")]
            fresh = dict(zip(sel, R.run_fresh(j[0], [OBJ.plain(j[1][i]) for i in sel], j[2])))
            out.append((j[0], j[1], r, j[2], fresh, schema_export(j[1], j[2])))
        return out
    res = R.run_sessions(jobs)
    out = []
    for j, r in zip(jobs, res):
        # every answered request once more, alone on a fresh connection: the reference for "unaffected by earlier requests"
        fresh = {}
        if kind != "lethal":
            sel = [i for i, (c, x) in enumerate(zip(j[1], r)) if not x.get("skipped") and fresh_wanted(c, x, rng)]
            fr = R.run_fresh(j[0], [j[1][i] for i in sel], j[2])
            fresh = dict(zip(sel, fr))
        out.append((j[0], j[1], r, j[2], fresh, schema_export(j[1], j[2])))
    return out


def schema_export(cases, minor):
    """what the Lean driver needs to read the parameters of this session's requests: the structure layouts (by key) and the
    holder names the reference reader resolved; the reference trees (needed only while the session ran) are dropped"""
    sch, keys, names = None, [], {}
    for c in cases:
        if c.get("extract") != "ref": continue
        if sch is None: sch = FR.schema_for(session_settings(minor))
        for k in sch.closure(c["rq"]["tys"]):
            if k not in keys: keys.append(k)
        for n, k in c["ref"].get("names", {}).items():
            names[n] = k
            for kk in sch.closure([["struct", k]]):
                if kk not in keys: keys.append(kk)
        c["ref"] = {k: v for k, v in c["ref"].items() if k not in ("tree", "names")}
    if sch is None: return None
    return {"nex": sch.settings["nex.version"], "structs": {k: sch.structs[k]["levels"] for k in keys}, "names": names}


def fresh_wanted(case, res, rng):
    """all successes and everything around a failure-in-the-middle; a sample of the rest"""
    if res["sent"] and len(res["sent"]) == 1:
        a = parse_answer(bytes.fromhex(res["sent"][0]))
        if a is None or a["ok"]: return True
    if case["kind"].startswith(("partial", "ok", "random-body", "wrong-type", "wrong-result")): return True
    if case["kind"].startswith("frame:"): return rng.random() < 0.5
    return rng.random() < 0.1


# ------------------------------------------------------------------ independent reading of the answers
def parse_answer(data):
    """-> dict(protocol, ok, call_id, method|code, body) or None (independent of RMCMessage.decode)"""
    if len(data) < 6: return None
    (ln,) = struct.unpack_from("<I", data)
    p = data[4:]
    if ln != len(p) or p[0] & 0x80: return None
    if p[0] == 0x7F:
        if len(p) < 4: return None
        proto = struct.unpack_from("<H", p, 1)[0]; p = p[3:]
    else:
        proto = p[0]; p = p[1:]
    if len(p) < 9: return None
    if p[0]:
        cid, meth = struct.unpack_from("<II", p, 1)
        if not meth & 0x8000: return None
        return {"protocol": proto, "ok": True, "call_id": cid, "method": meth & ~0x8000, "body": p[9:]}
    if len(p) != 9: return None
    code, cid = struct.unpack_from("<II", p, 1)
    return {"protocol": proto, "ok": False, "call_id": cid, "code": code}


def expectation(case, si, res):
    """the property's outcome for this request: ("none",) | ("ok", body) | ("err", code) | ("skip", why)"""
    sc = case["script"]
    if si is None: return ("err", NOTIMPL)
    m = next((x for x in si["methods"] if x["id"] == case["method"]), None)
    def answer(x): return ("none",) if si["noresponse"] else x
    if m is None or not m["supported"]: return answer(("err", NOTIMPL))
    if case["extract"] == "other": return answer(("err", PYCODE["other"]))
    if case["extract"] == "ref" and case["ref"]["out"] == "err":
        return answer(("err", PYCODE[case["ref"]["cls"]]))       # the parameters cannot be read: the reader's exception, nothing else
    if case["extract"] == "observed" and not res["called"]:
        o = res["observed"] or ""
        if o in PYCODE: return answer(("err", PYCODE[o]))
        if o.startswith("rmc:"): return answer(("err", int(o[4:])))
        return ("skip", "extraction did %r" % o)
    mode = sc["mode"]
    if mode == "stub": return answer(("err", NOTIMPL))
    if mode == "raise":
        if sc["exc"] in ("RMCError", "SubRMCError"):
            tok = rmc_token(sc.get("code"))
            if tok == "key": return answer(("err", PYCODE["key"]))
            code = int(tok[4:])
            if not (0 <= code <= M32): return ("skip", "error code outside u32")
            return answer(("err", code))
        cls = R.EXC[sc["exc"]][1]
        if cls == "base": return ("skip", "BaseException is not answered")
        return answer(("err", PYCODE[cls]))
    if mode in ("wrong", "missing"):
        if m["resp"] == "n": return answer(("ok", b""))
        if m["resp"] == "o": return answer(("err", PYCODE["type"]))
        return answer(("err", PYCODE["other"]))
    if res["value_error"]: return ("skip", "no value")
    if case["extract"] == "ref" and not res["called"] and not (res["observed"] or "").startswith("ret:"):
        return answer(("okany",))       # readable parameters, a handler that would answer: reading them must not fail
    if mode == "wrongpos":
        # the property: a wrongly typed result is answered with an error response — the PythonCore code of the exception
        # that the validation / encoder raises for it — never with a success. WHICH values are wrongly typed is stated on
        # Python's types (RES.incompatible), not on what the encoder did; the code is that of the exception actually
        # raised (a different exception class than the model's is a correspondence difference, not a wrong answer)
        w = RES.token_value(sc["w"])
        def must_fail(cls):
            o = res["observed"] or ""
            if o in PYCODE: return answer(("err", PYCODE[o]))
            if o.startswith("rmc:"): return answer(("err", int(o[4:])))
            return answer(("err", PYCODE[cls]))      # nothing was raised: the success that was sent is the violation
        if sc["where"].startswith("top."):
            T = eval(m["expected"], importlib.import_module("nintendo.nex." + si["module"]).__dict__)
            if not isinstance(w, T): return must_fail("other")       # generated isinstance check: RuntimeError
        if sc["where"] == "in1" and w is None: return must_fail("other")   # check_required: ValueError
        c = RES.incompatible(sc["slot"], w)
        if c: return must_fail(c)
        mode = "partial"    # a value the encoder duck-types (bool for int, tuple for list, anything for bool ...): observed
    if mode == "partial":
        # a late value of the result has the wrong type: which exception its encoder raises depends on the type
        # (struct.error, TypeError, AttributeError; `bool` accepts anything) -> the class is observed; the body of a
        # success is judged against a fresh connection (history_check)
        if m["resp"] == "n": return answer(("ok", b""))
        o = res["observed"] or ""
        if o in PYCODE: return answer(("err", PYCODE[o]))
        if o.startswith("ret:"): return answer(("ok", bytes.fromhex(o[4:]) if o[4:] != "-" else b""))
        return ("skip", "partial result did %r" % o)
    # ok: the handler's output
    o = res["observed"] or ""
    if not o.startswith("ret:"): return ("skip", "scripted success did not return: %r" % o)
    return answer(("ok", bytes.fromhex(o[4:]) if o[4:] != "-" else b""))


def allowed_calls(case, si):
    """the user methods the property lets this request run, as a list of admissible invocation lists ([class, user] each):
    none at all for an unknown protocol, an unknown or unsupported method id and for parameters that cannot be read;
    otherwise the method with exactly the requested id, once"""
    if si is None: return [[]]
    m = next((x for x in si["methods"] if x["id"] == case["method"]), None)
    if m is None or not m["supported"] or case["extract"] == "other": return [[]]
    own = [[si["class"], m["user"]]]
    if case["extract"] == "ref": return [[]] if case["ref"]["out"] == "err" else [own]
    return [own] if case["extract"] == "ok" else [[], own]     # arbitrary body: read completely, or not at all


def judge_invocations(case, si, res):
    calls = res.get("calls")
    if calls is None: return None
    ok = allowed_calls(case, si)
    if calls in ok: return None
    ran = ", ".join("%s.%s" % tuple(c) for c in calls) or "no user method"
    if ok == [[]]:
        why = ("an unregistered protocol" if si is None else
               "a method id the server does not define" if not any(x["id"] == case["method"] for x in si["methods"]) else
               "an unsupported method" if case["extract"] not in ("other", "ref") else "a body its parameters cannot be read from")
        if res.get("args") and case["extract"] == "ref": ran += " with the arguments " + str(res["args"])[:300]
        return ("handler-invoked", "%s ran for a request with %s: no handler may be invoked" % (ran, why))
    return ("wrong-handler-invoked", "%s ran, expected exactly one invocation of %s.%s" % (ran, ok[-1][0][0], ok[-1][0][1]))


def judge_arguments(case, res):
    """a request whose parameters are readable: the handler is invoked with exactly the values the body carries"""
    ref = case.get("ref")
    if case.get("extract") != "ref" or ref["out"] != "ok" or ref.get("nocheck") or not res.get("called") or res.get("args") is None: return None
    if res["args"] == ref["canon"]: return None
    return ("handler-arguments", "the handler was invoked with the arguments %s, the request carries %s" % (res["args"][:300], ref["canon"][:300]))


def judge_case(case, si, res):
    """-> None or (key, why): the response(s) first, then which user methods ran (and with which arguments)"""
    bad = judge_response(case, si, res)
    who = "%s.%s method %d (%s)" % (case["module"], case["class"], case["method"], case["kind"])
    if case.get("what"): who += " [%s; body %s]" % (case["what"], case["body"][:200])
    inv = judge_invocations(case, si, res) or judge_arguments(case, res)
    if not inv and case.get("objects") and res.get("called") and res.get("observed") == "base" and res.get("loop") == "alive" \
            and not (case["script"]["mode"] == "raise" and R.EXC.get(case["script"].get("exc"), (0, ""))[1] == "base"):
        # the awaited user coroutine was cancelled from outside before it was done: whatever is answered is not its outcome
        inv = ("handler-abandoned", "the user's coroutine did not get to finish (%s was thrown into it, the loop went on)" % res.get("observed_type"))
    if bad and inv: return (bad[0], "%s; moreover %s" % (bad[1], inv[1]))
    if inv: return (inv[0], "%s: %s" % (who, inv[1]))
    return bad


def judge_response(case, si, res):
    """-> None or (key, why)"""
    exp = expectation(case, si, res)
    if exp[0] == "skip": return None
    sent = [bytes.fromhex(x) for x in res["sent"]]
    who = "%s.%s method %d (%s)" % (case["module"], case["class"], case["method"], case["kind"])
    if case.get("what"): who += " [%s; body %s]" % (case["what"], case["body"][:200])
    sc = case["script"]
    if sc["mode"] == "wrongpos":
        w = RES.token_value(sc["w"])
        who += " returning a result with the %s value %.60r at %s (declared %s)" % (
            type(w).__name__, w, "/".join(str(x) for st in sc["path"] for x in st) or "the top level", sc["slot"])
    if res["hang"]: return ("hang", "%s: the receive loop did not return to recv()" % who)
    if res["loop"] != "alive":
        return ("connection-terminated", "%s: the receive loop ended with %s" % (who, res["loop"]))
    if exp[0] == "none":
        if sent: return ("answered-noresponse", "%s: protocol %d is response-less but %d datagram(s) were sent" % (who, case["protocol"], len(sent)))
        return None
    if len(sent) != 1:
        return ("response-count", "%s: %d responses sent, expected exactly one" % (who, len(sent)))
    a = parse_answer(sent[0])
    if a is None: return ("malformed-response", "%s: response %s does not parse" % (who, sent[0].hex()))
    if a["protocol"] != case["protocol"] or a["call_id"] != case["call_id"]:
        return ("wrong-ids", "%s: response carries protocol %d call %d, request had %d / %d" % (who, a["protocol"], a["call_id"], case["protocol"], case["call_id"]))
    if exp[0] == "okany":
        if not a["ok"]: return ("wrong-outcome", "%s: the parameters are readable (%s) but the request was answered with error %#x" % (who, case["ref"]["canon"][:200], a["code"]))
        return None
    if exp[0] == "ok":
        if not a["ok"]: return ("wrong-outcome", "%s: expected success, got error %#x" % (who, a["code"]))
        if a["method"] != case["method"] & ~0x8000 and a["method"] != case["method"]:
            return ("wrong-method", "%s: success response carries method %d" % (who, a["method"]))
        if a["body"] != exp[1]: return ("wrong-body", "%s: success body %s differs from the handler's output %s" % (who, a["body"].hex(), exp[1].hex()))
        return None
    if a["ok"]: return ("wrong-outcome", "%s: expected error %#x, got a success response" % (who, exp[1]))
    if a["code"] != exp[1]: return ("wrong-code", "%s: expected error code %#x, got %#x" % (who, exp[1], a["code"]))
    return None


def object_context(case, res):
    """the circumstances the objects / slow families add to a request (for the violation text)"""
    fl = case["objects"][case["srv"]] if case["srv"] is not None else None
    t = ""
    if fl is not None:
        t += " [the registered object is an instance of a stateful subclass (%s) and bool(object) was %s when the request arrived" % (fl, res.get("truthy"))
    else:
        t += " [registered objects: %s" % ",".join(case["objects"])
    d = case["script"].get("delay_ms")
    if d is not None: t += "; the handler awaits %g s before it %s; the loop was back at recv() after %g s, datagrams sent at %s ms" % (
        d / 1000.0, {"ok": "returns", "raise": "raises", "stub": "calls the generated stub"}.get(case["script"]["mode"], "returns"),
        res.get("elapsed_ms", 0) / 1000.0, res.get("sent_at_ms"))
    return t + "]"


def object_sequence(srvinfos, seq, minor, si):
    """the request alone if that still fails (reference readings are not recomputed here: judged on the response only), else with
    all of its predecessors on the connection (the truth value of a `grows` / `drains` / `flips` object depends on them)"""
    try:
        r = OBJ.run_sessions([(srvinfos, seq[-1:], minor, seq[-1]["objects"])])[0][0]
        if judge_case(seq[-1], si, r): return seq[-1:]
    except Exception:
        pass
    return seq


def real_dispatch(srvinfos, res):
    """what the real loop did with a request, in the vocabulary of the model's `dispatch` (driver line `inv`)"""
    h, calls = res.get("handled") or [], res.get("calls") or []
    if not h: return "nosrv" if not calls else "nosrv+calls %r" % calls
    if len(h) != 1: return "entered %r" % h
    si = next((s for s in srvinfos if s["class"] == h[0][0]), None)
    if si is None: return "entered %r" % h
    if not calls: u = "-"
    elif len(calls) == 1 and calls[0][0] == si["class"]:
        u = next((str(m["id"]) for m in si["methods"] if m["user"] == calls[0][1]), "?" + calls[0][1])
    else: u = "calls %r" % calls
    return "%s:%s:%s" % (si["protocol"], h[0][1], u)


def listener_table(evs, srvinfos, n_listener):
    """the per-connection classes the connection of the LAST event has registered (per the property) when that event arrives"""
    c, mine = evs[-1]["conn"], []
    for e in evs[:-1]:
        if e["conn"] != c: continue
        if e["ev"] == "open": mine = []
        elif e["ev"] == "req": mine += [j for j, w in e["case"]["lst"]["expect"] if w == "ok"]
    return mine


_SHRUNK = {"request": 0, "listener": 0}      # lives minimised for the report (the first three of each kind)


def shrink_life(srvinfos, life, evs, minor, key, listener_side):
    """a shorter life of the listener that still ends in the same verdict (whole connections dropped, then single requests /
    closes; every candidate is planned anew and run on the real listener); at most ~200 runs"""
    import copy
    n, api, budget = life["n_listener"], life["api"], [200]
    def failing(cand):
        if budget[0] <= 0: return None
        budget[0] -= 1
        cand = copy.deepcopy(cand)
        try:
            LST.plan(cand, srvinfos, n)
            recs, _ = LST.run_listeners([(api, srvinfos, n, cand, minor)])[0]
        except Exception:
            return None
        if listener_side:
            bad = LST.judge(cand, recs, srvinfos, n)
            return cand if bad and bad[0] == key and bad[2] == len(cand) - 1 else None
        if recs[-1].get("skipped"): return None
        c = cand[-1]["case"]
        bad = judge_case(c, srvinfos[c["srv"]] if c["srv"] is not None else None, recs[-1])
        return cand if bad and bad[0] == key else None
    cur = failing(evs)
    if cur is None: return evs
    last = cur[-1]["conn"]
    for c in sorted({e["conn"] for e in cur} - {last}):
        got = failing([e for e in cur if e["conn"] != c])
        if got: cur = got
    i = len(cur) - 2
    while i >= 0:
        if cur[i]["ev"] != "open":
            got = failing(cur[:i] + cur[i + 1:])
            if got: cur = got
        i -= 1
    return cur


def shrink_history(srvinfos, seq, minor, fresh_last):
    """smallest sub-sequence (ending in the same request) that still makes the last answer differ from the fresh one"""
    def differs(sub):
        r = R.run_sessions([(srvinfos, sub, minor)])[0][-1]
        return not r.get("skipped") and (r["sent"], r["loop"]) != (fresh_last["sent"], fresh_last["loop"])
    last = seq[-1]
    # one predecessor is usually enough: try the nearest first
    for c in reversed(seq[-400:-1]):
        if differs([c, last]): return [c, last]
    # otherwise delta-debug the prefix
    prefix = seq[:-1]
    n = 2
    while len(prefix) >= 2 and n <= len(prefix):
        size = max(1, len(prefix) // n)
        for i in range(0, len(prefix), size):
            cand = prefix[:i] + prefix[i + size:]
            if cand and differs(cand + [last]):
                prefix, n = cand, max(n - 1, 2); break
        else:
            if size == 1: break
            n = min(n * 2, len(prefix))
    return prefix + [last]



# ------------------------------------------------------------------ order of first use of structure classes (harness/c11_firstuse.py)
def _firstuse_call(mode, data, timeout=1500):
    import subprocess, sys, json
    p = subprocess.run([sys.executable, os.path.join(os.path.dirname(os.path.abspath(__file__)), "c11_firstuse.py"), mode],
                       input=json.dumps(data), stdout=subprocess.PIPE, stderr=subprocess.PIPE, text=True, timeout=timeout)
    if p.returncode != 0: raise vf.InfraError("c11_firstuse %s failed: %s" % (mode, p.stderr[-1500:]))
    return json.loads(p.stdout)


def firstuse_run(seed, tier, box):
    """(in a thread, beside the pool) generate the sequences, run each in an interpreter that has used no structure yet"""
    try:
        g = _firstuse_call("gen", {"seed": seed, "tier": tier})
        jobs = g["jobs"]
        res = _firstuse_call("run", jobs)
        # a sample once more in really fresh interpreters (one python process per sequence)
        two = [i for i, j in enumerate(jobs) if len(j["steps"]) == 2]
        rng = random.Random(seed)
        pick = rng.sample(two, min(len(two), 6 if tier == "quick" else 48))
        fresh = {i: _firstuse_call("run1", jobs[i]) for i in pick}
        box.update({"jobs": jobs, "results": res, "fresh": fresh, "pairs": g["pairs"], "stats": g["stats"]})
    except BaseException as e:
        box["error"] = e


def firstuse_judge(ctx, box):
    if "error" in box: raise vf.InfraError("first-use family: %r" % (box["error"],))
    jobs, results = box["jobs"], box["results"]
    runs = [(j, r, "forked from a zygote that only imported the library") for j, r in zip(jobs, results)]
    runs += [(jobs[i], r, "a fresh python process") for i, r in box["fresh"].items()]
    same = {}       # (configuration, request, handler script) -> first (job, step index, datagrams sent)
    n_steps = n_bad = 0
    for job, r, how in runs:
        if "error" in r: raise vf.InfraError("first-use family: a sequence could not be run: %s" % r["error"][-800:])
        desc = " then ".join("%s.%s [%s %s]" % (job["servers"][s["srv"]]["class"], s["user"], {"resp": "returns", "req": "takes", "any-resp": "returns in a holder", "any-req": "takes in a holder"}[s["way"]], s["cls"]) for s in job["steps"])
        for k, (st, x) in enumerate(zip(job["steps"], r["steps"])):
            n_steps += 1
            si = job["servers"][st["srv"]]
            ctx.case(key=("firstuse", job["cfg"], tuple(job["pair"]), job["order"], k, st["datagram"][:60], st["vseed"]), nontrivial=True,
                     tag="firstuse:%s:%s=>%s" % (job["order"], st["way"], "problem" if x["problems"] else "silent" if si["noresponse"] else "send-ok"))
            for key, why in x["problems"]:
                n_bad += 1
                if n_bad > 4: break          # (the first few sequences are enough)
                ctx.violation("c11:firstuse:%s:%s" % (key, job["pair"][0]),
                              "RMC server, order of first use of structure classes in one process (%s; PRUDP minor version %d, nex.version %d; the first requests this process ever served: %s): request %d: %s"
                              % (how, job["cfg"] % 100, R.NEX_VERSIONS[job["cfg"] // 100], desc, k + 1, why),
                              {"firstuse": job, "step": k, "problems": x["problems"], "sent": x.get("sent"),
                               "how": "harness/corr_C11.py replay(): harness/c11_firstuse.py run1 (the sequence in a fresh python process)"})
                break
            sig = (job["cfg"], st["datagram"], st["vseed"], tuple(st["any_resp"]))
            if sig not in same: same[sig] = (job, k, x.get("sent"), desc)
            elif same[sig][2] != x.get("sent") and not ctx.violations:
                oj, ok_, osent, odesc = same[sig]
                ctx.violation("c11:firstuse:order-dependence:%s" % job["pair"][0],
                              "RMC server: the same request (%s.%s, same handler result) is answered %s as request %d of a process whose first requests are [%s], but %s as request %d of a process whose first requests are [%s]"
                              % (si["class"], st["user"], x.get("sent"), k + 1, desc, osent, ok_ + 1, odesc),
                              {"firstuse": job, "step": k, "firstuse_other": oj, "step_other": ok_,
                               "how": "harness/corr_C11.py replay(): both sequences, each in a fresh python process; the answers to the named steps are compared"})
    ctx.extra["first_use_ancestor_derived_pairs"] = box["pairs"]
    ctx.extra["first_use_sequences_each_in_an_interpreter_that_used_no_structure_yet"] = len(jobs)
    ctx.extra["first_use_sequences_rerun_in_really_fresh_python_processes"] = len(box["fresh"])
    ctx.extra["first_use_requests_judged"] = n_steps
    ctx.extra["first_use_sequences_by_order"] = box["stats"]


# ------------------------------------------------------------------ run
def translate(ctx):
    servers, problems = T.extract_all(vf.REPO)
    ctx.extra["servers"] = len(servers)
    ctx.extra["methods"] = sum(len(s["methods"]) for s in servers)
    for p in problems:
        ctx.obligation(False)
    ctx.obligation(not problems)   # "every generated handle()/handler/stub has the generator's shape"
    src, obl = T.lean_table(servers)
    ok, out = ctx.lean_check("GenC11", src)
    for _ in obl: ctx.obligation(ok)
    failing = None
    if not ok:
        # which one? the Bool checkers are cheap to re-run here
        for s in servers:
            ids = [m["id"] for m in s["methods"]]
            dup = sorted({i for i in ids if ids.count(i) > 1})
            if dup: failing = (s, dup); break
    # second reader: the imported classes
    mism = []
    for s in servers:
        try:
            cls = getattr(importlib.import_module("nintendo.nex." + s["module"]), s["class"])
            inst = cls()
            if sorted(inst.methods.keys()) != sorted(set(m["id"] for m in s["methods"])) or cls.PROTOCOL_ID != s["protocol"] \
                    or bool(getattr(cls, "NORESPONSE", False)) != s["noresponse"]:
                mism.append("%s.%s" % (s["module"], s["class"]))
            for m in s["methods"]:
                if inst.methods[m["id"]].__name__ != "handle_" + m["user"]: mism.append("%s.%s:%d" % (s["module"], s["class"], m["id"]))
        except Exception as e:
            mism.append("%s.%s: %r" % (s["module"], s["class"], e))
    ctx.obligation(not mism)
    return servers, problems, ok, out, failing, mism


def run(ctx):
    rng, quick = ctx.rng, ctx.tier == "quick"
    ctx.rule = ("every generated server class x every method id of its table (+ unknown ids incl. those aliasing each defined id under a "
                "narrowing of the 32-bit id, holes of the table, unknown protocols incl. aliases of the registered ones) x scripted user behaviour "
                "(stub / well-typed result / wrongly typed / incomplete / RMC errors / mapped, subclassed and unmapped exceptions / a result that is well typed "
                "except for ONE value of any builtin kind at any position: whole result, response field, list element, map key or value, structure "
                "attribute at any depth) x (PRUDP minor version, NEX version) x request body "
                "(valid, extended, truncated at every length, random, or valid except for ONE length / count / version / tag field of its NESTED framing — structure frame, "
                "anydata holder, buffer, string, list, map at any depth — declaring less than needed, more than there is, or the right amount followed by surplus); "
                "x the registered OBJECT (an instance of the generated class, or of a stateful user subclass whose truth value is plain / empty or non-empty "
                "container via __len__ / __bool__ False or True / both / changing from request to request) x the virtual time the handler awaits before its "
                "outcome (0, 1 ms, 0.5 s ... 29 / 30 / 31 s ... 1 h, 1 day, random; virtual-time loop, the session lingers for late datagrams); "
                "x the OTHER DIRECTION of the connection (0..3 calls of the served side outstanding towards the peer when the request arrives; schedules of outgoing calls, peer "
                "requests and the peer's answers, answers before / between / after the requests, in and out of call order) "
                "x the ORDER OF FIRST USE of structure classes in the process (every (ancestor, derived) pair of structure classes: ancestor first / derived first / each alone, every way "
                "of using a class - returned, taken, in an anydata holder -, each sequence in an interpreter that has used no structure yet); "
                "x the LISTENER the connection belongs to (rmc.serve / rmc.serve_on_transport over an in-memory transport: up to 8 connections per life, open at once and one "
                "after the other; handlers attaching servers to their own connection with register_server - once, twice, on two connections, a protocol of the listener; "
                "requests for a protocol on connections that registered it / did not / were accepted after the registering one closed); "
                "each request goes through the real RMCClient.start loop and through the Lean model; "
                "a case is distinct per (class, method, kind, script, body)")
    ctx.assumptions.append("which `except`/`isinstance` clause a given Python exception class matches is modelled (Exc), exercised with subclasses and "
                           "multiple inheritance; user handlers are parameters of the model (their own side effects are outside it); "
                           "BaseExceptions that are not Exceptions and RMCError codes outside 0..2^32-1 end the receive loop (modelled as `propagates`, outside the property's quantifier)")
    ctx.assumptions.append("wrongly typed results: wrong values are kinds of a finite universe (RmcResult.Atom / Val: scalars, text, bytes, NEX value objects, "
                           "flat lists / tuples / dicts, opaque objects); values the encoder duck-types (bool for int, tuple for list, any value for bool / "
                           "stationurl, a Structure of another class at a structure position) are accepted by code and model alike and are not flagged")
    servers, problems, ok, out, failing, mism = translate(ctx)
    all_codes = sorted(errors.error_names.keys())
    jobs = []
    for i, s in enumerate(servers):
        nv = len(R.NEX_VERSIONS)
        ver = 100 * (((i + ctx.seed) // 2) % nv)     # quick: one (minor version, NEX version) per class, rotating with the seed
        jobs.append(("server", [s], rng.randrange(1 << 30), ctx.tier, (3 if (i + ctx.seed) % 2 else 0) + ver, all_codes, None))
        if quick and not (i + ctx.seed) % 2:
            # structure frames exist only with structure headers: the nested-framing cases of the classes whose one job runs without
            jobs.append(("frames", [s], rng.randrange(1 << 30), ctx.tier, 3 + ver, all_codes, None))
        if not quick:
            jobs.append(("server", [s], rng.randrange(1 << 30), ctx.tier, (0 if (i + ctx.seed) % 2 else 3) + ver, all_codes, None))
            for k in range(1, nv):
                jobs.append(("server", [s], rng.randrange(1 << 30), ctx.tier, rng.choice([0, 3]) + 100 * ((ver // 100 + k) % nv), all_codes, None))
    for s in (rng.sample(servers, 6) if quick else servers):
        jobs.append(("lethal", [s], rng.randrange(1 << 30), ctx.tier, 0, all_codes, None))
    # long mixed sequences over several servers with distinct protocol ids
    for _ in range(4 if quick else 32):
        pick, used = [], set()
        for s in rng.sample(servers, len(servers)):
            if s["protocol"] not in used and len(pick) < 8:
                pick.append(s); used.add(s["protocol"])
        jobs.append(("mixed", pick, rng.randrange(1 << 30), ctx.tier, rng.choice([0, 3]) + 100 * rng.randrange(len(R.NEX_VERSIONS)), all_codes, 1500 if quick else 6000))
    # registered objects of every truth-value flavour, handlers awaiting every delay of the list (virtual time)
    for i, s in enumerate(servers):
        cfgs = [(3 if (i + ctx.seed) % 3 == 0 else 0) + 100 * ((i + ctx.seed) % len(R.NEX_VERSIONS))]
        if not quick: cfgs.append((0 if cfgs[0] % 100 else 3) + 100 * rng.randrange(len(R.NEX_VERSIONS)))
        for cfg in cfgs:
            jobs.append(("objects", [s], rng.randrange(1 << 30), ctx.tier, cfg, all_codes, None))
            jobs.append(("slow", [s], rng.randrange(1 << 30), ctx.tier, cfg, all_codes, None))
    nores = [s for s in servers if s["noresponse"]]
    for k in range(4 if quick else 24):
        pick, used = [], set()
        for s in ([nores[k % len(nores)]] if nores else []) + rng.sample(servers, len(servers)):   # always a response-less one
            if s["protocol"] not in used and len(pick) < 8:
                pick.append(s); used.add(s["protocol"])
        jobs.append(("objects-mixed", pick, rng.randrange(1 << 30), ctx.tier, rng.choice([0, 3]) + 100 * rng.randrange(len(R.NEX_VERSIONS)), all_codes, 400 if quick else 2000))
    # calls in BOTH directions on one connection: every class (+ a response-less one) under schedules of outgoing calls,
    # peer requests and the peer's answers
    for i, s in enumerate(servers):
        nr = next((x for x in nores[(i + ctx.seed) % max(1, len(nores)):] + nores if x["protocol"] != s["protocol"]), None)
        cfg = (3 if (i + ctx.seed) % 2 else 0) + 100 * ((i + ctx.seed) % len(R.NEX_VERSIONS))
        jobs.append(("duplex", [s] + ([nr] if nr else []), rng.randrange(1 << 30), ctx.tier, cfg, all_codes, None))
    # a LISTENER with several connections and per-connection registration: every class is once the listener's class (beside a second
    # one) while instances of two other classes are attached by handlers to their own connections
    for i, s in enumerate(servers):
        others = [x for x in rng.sample(servers, len(servers)) if x["protocol"] != s["protocol"]]
        pick, used = [s], {s["protocol"]}
        for x in others:
            if x["protocol"] not in used and len(pick) < 4 and (len(pick) != 1 or any(m["supported"] for m in x["methods"])):
                pick.append(x); used.add(x["protocol"])
        cfg = (3 if (i + ctx.seed) % 2 else 0) + 100 * ((i + ctx.seed) % len(R.NEX_VERSIONS))
        jobs.append(("listener", pick, rng.randrange(1 << 30), ctx.tier, cfg, all_codes, min(2, len(pick) - 1)))
    par = min(16, os.cpu_count() or 1)
    import threading
    fu_box = {}
    fu_thread = threading.Thread(target=firstuse_run, args=(ctx.seed, ctx.tier, fu_box))
    fu_thread.start()
    import time as _t
    t_a = _t.time()
    with multiprocessing.get_context("fork").Pool(par) as pool:
        parts = pool.map(_worker, jobs, chunksize=1)
    sessions = [x for p in parts for x in p]
    ctx.extra["seconds_in_the_session_pool"] = round(_t.time() - t_a, 1)

    # model lines: every connection's real request sequence, in order, through the model's `serve` (sbegin / sreq)
    lines, index = [], []
    wlines, windex = [], []     # wrongly typed results: the model's exception (by name) and the Lean twin of `incompatible`
    gids = {}                   # (structure key, nex.version) -> id of its layout in the driver
    for sid, (srvinfos, cases, results, minor, fresh, export) in enumerate(sessions):
        lines.append("clear"); index.append(None)
        # (a connection of a listener starts with the listener's servers; what its handlers register is added when they have run)
        for si in (srvinfos[:cases[0]["lst"]["n_listener"]] if cases and cases[0].get("lst") else srvinfos):
            lines.append(srv_line(si)); index.append(None)
        ids = None
        if export:
            nex = export["nex"]
            ids = lambda key, nex=nex: gids[(key, nex)]
            new = [k for k in export["structs"] if (k, nex) not in gids]
            for k in new: gids[(k, nex)] = len(gids) + 1
            for k in new:
                lines.append("sdef %d %s" % (gids[(k, nex)], FR.levels_token(export["structs"][k], ids))); index.append(None)
            for n, k in sorted(export["names"].items()):
                lines.append("sreg %s %s" % (FR.hx(n.encode("utf8")), gids[(k, nex)])); index.append(None)
        lines.append("sbegin"); index.append(None)
        for cid, (case, res) in enumerate(zip(cases, results)):
            si = srvinfos[case["srv"]] if case["srv"] is not None else None
            m = next((x for x in si["methods"] if x["id"] == case["method"]), None) if si else None
            for j in (case.get("lst") or {}).get("model_add", []):
                lines.append(srv_line(srvinfos[j])); index.append(None)
            ut = user_token(case["script"], m)
            if ut is None and case["script"]["mode"] == "wrongpos":
                sc = case["script"]
                o = res.get("observed") or "ret:-"
                ut = "retv:%s:%s:%s:%s" % (sc["where"], sc["slot"], sc["w"], o[4:] if o.startswith("ret:") else "-")
                if not res.get("skipped"):
                    wlines.append("rchk %s %s %s" % (sc["where"], sc["slot"], sc["w"])); windex.append((sid, cid, "chk"))
                    wlines.append("rinc %s %s" % (sc["slot"], sc["w"])); windex.append((sid, cid, "inc"))
            elif ut is None:
                o = res.get("observed") or "ret:-"
                if case["script"]["mode"] == "ok" and not o.startswith("ret:"): o = "ret:-"
                ut = "ret:good:" + o
            ex = case["extract"]
            if ex == "observed":
                ex = "ok" if (res.get("called") or not (m and m["supported"])) else (res.get("observed") or "ok")
            if ex == "ref":
                # the model reads the parameters from the request's own body
                tok = FR.schema_token(case["rq"]["tys"], ids)
                ex = "m%d:%s" % (case["rq"]["hdr"], tok)
                if not res.get("skipped"):      # the reference reader vs its Lean twin
                    lines.append("rq %d %s %s" % (case["rq"]["hdr"], tok, case["body"] or "-")); index.append((sid, cid, "rq"))
            if case.get("objects"):
                # registered OBJECTS: their truth values when this request arrived, the time the user's coroutine awaits
                truth = "-" if res.get("skipped") else (",".join("%d:%d" % (s["protocol"], 1 if t else 0) for s, t in zip(srvinfos, res["truths"])) or "-")
                d_ms = case["script"].get("delay_ms")
                lines.append("sreqo %s %s %s %s %s" % (case["datagram"], ex, ut, truth, "-" if d_ms is None else d_ms)); index.append((sid, cid))
            else:
                lines.append("sreq %s %s %s" % (case["datagram"], ex, ut)); index.append((sid, cid))
            if not res.get("skipped"):
                lines.append("inv %s %s" % (case["datagram"], ex)); index.append((sid, cid, "inv"))
    # the lives of the listeners through the Lean LISTENER model (RmcListener.step: the driver keeps the table of every connection
    # itself): accept / close / every request / every register_server call of a handler, in the order of the life
    llines, lindex = [], []
    for sid, (srvinfos, cases, results, minor, fresh, export) in enumerate(sessions):
        life = results[0].get("listener") if results else None
        if not life or not life["primary"]: continue
        llines.append("clear"); lindex.append(None)
        for si in srvinfos[:life["n_listener"]]:
            llines.append(srv_line(si)); lindex.append(None)
        llines.append("lnew"); lindex.append(None)
        for ev, rec in zip(life["events"], life["recs"]):
            c = ev["conn"]
            if ev["ev"] != "req":
                if not rec.get("skipped"): llines.append("%s %d" % ("lacc" if ev["ev"] == "open" else "lclose", c)); lindex.append(None)
                continue
            if rec.get("skipped"): continue
            case = ev["case"]
            si = srvinfos[case["srv"]] if case["srv"] is not None else None
            m = next((x for x in si["methods"] if x["id"] == case["method"]), None) if si else None
            ut = user_token(case["script"], m)
            if ut is None:
                o = rec.get("observed") or "ret:-"
                if not o.startswith("ret:"): o = "ret:-"
                ut = "ret:good:" + o
            llines.append("lreq %d %s %s %s" % (c, case["datagram"], case["extract"], ut)); lindex.append((sid, case, rec, None, None))
            for n_reg, (j, want) in enumerate(case["lst"]["expect"]):
                llines.append("lreg %d %s" % (c, srv_line(srvinfos[j])[4:])); lindex.append((sid, case, rec, want, n_reg))
    t_a = _t.time()
    outs = ctx.driver().batch(lines + wlines + llines)
    ctx.extra["seconds_in_the_lean_driver"] = round(_t.time() - t_a, 1)
    louts, outs = outs[len(lines) + len(wlines):], outs[:len(lines) + len(wlines)]
    wouts, outs = outs[len(lines):], outs[:len(lines)]
    n_diff, first = 0, None
    n_wrong = n_wrong_incompat = 0
    for line, o, (sid, cid, what) in zip(wlines, wouts, windex):
        srvinfos, cases, results, minor, fresh, export = sessions[sid]
        case, res = cases[cid], results[cid]
        if res["value_error"]: continue
        sc = case["script"]
        if what == "inc":
            mine = RES.incompatible(sc["slot"], RES.token_value(sc["w"])) or "-"
            if o != mine: raise vf.InfraError("the oracle's `incompatible` and Lean's `incompat` differ on %r: %s / %s" % (line, mine, o))
            n_wrong += 1
            if mine != "-": n_wrong_incompat += 1
            continue
        if o == "bad-op": raise vf.InfraError("driver rejected %r" % line[:120])
        si = srvinfos[case["srv"]]
        if not res["called"]: continue          # (response-less / extraction failed: the result was never produced)
        real_t = res.get("observed_type") or "ok"
        if o != real_t:
            n_diff += 1
            if first is None: first = (case, res, line + " -> " + o, "the real validation / encoder: " + real_t, minor, [s["class"] for s in srvinfos])
    n_lreq = n_lreg = 0
    for line, o, ix in zip(llines, louts, lindex):
        if ix is None:
            if o != "ok": raise vf.InfraError("driver rejected %r: %s" % (line[:80], o))
            continue
        sid, case, rec, want, n_reg = ix
        srvinfos, minor = sessions[sid][0], sessions[sid][3]
        if o == "bad-op": raise vf.InfraError("driver rejected %r" % line[:120])
        if want is not None:
            # a register_server call: the oracle's per-connection table (LST.plan) and Lean's (RmcListener.step) are twins ...
            if o != want: raise vf.InfraError("the oracle's per-connection registry and Lean's RmcListener.step differ on %r: %s / %s" % (line[:120], want, o))
            n_lreg += 1
            got = rec.get("registered") or []
            real_r = ("ok" if got[n_reg][1] == "ok" else "dup") if n_reg < len(got) else "not-called"
            if rec.get("called") and real_r != o:     # ... and the model must predict what the real register_server did
                n_diff += 1
                if first is None: first = (case, rec, line[:200] + " -> " + o, "the real register_server: " + real_r, minor, [s["class"] for s in srvinfos])
            continue
        n_lreq += 1
        hres, _, reaction = o.partition(" => ")
        real = ("propagate" if rec["loop"] != "alive" else "silent" if not rec["sent"] else
                "send " + rec["sent"][0] if len(rec["sent"]) == 1 else "multi %d" % len(rec["sent"]))
        real_h = rec["observed"] if rec["observed"] is not None else "nosrv"
        if case["script"]["mode"] == "ok" and rec["value_error"]: continue
        if hres != real_h or reaction != real:
            n_diff += 1
            if first is None: first = (case, rec, "listener model (connection %d): %s" % (case["lst"]["conn"], o), real_h + " => " + real, minor, [s["class"] for s in srvinfos])
    ctx.extra["listener_requests_answered_by_the_lean_listener_model"] = n_lreq
    ctx.extra["register_server_calls_replayed_through_the_lean_listener_model"] = n_lreg
    n_cases = n_fresh = n_after_fail = n_inv = n_rq = n_obj = n_falsy = n_slow = 0
    rq_tags = collections.Counter()
    for line, o, ix in zip(lines, outs, index):
        if ix is None:
            if o != "ok": raise vf.InfraError("driver rejected %r: %s" % (line[:80], o))
            continue
        srvinfos, cases, results, minor, fresh, export = sessions[ix[0]]
        case, res = cases[ix[1]], results[ix[1]]
        si = srvinfos[case["srv"]] if case["srv"] is not None else None
        if len(ix) == 3 and ix[2] == "rq":
            # the reference reader (the oracle for arbitrary bodies) and its Lean twin
            n_rq += 1
            ref = case["ref"]
            mine = ("ok " + ref["canon"]).rstrip() if ref["out"] == "ok" else "err " + ref["cls"]
            if o.rstrip() != mine:
                raise vf.InfraError("the reference reader and Lean's readRequest differ on %r: %s / %s" % (line[:300], mine[:300], o[:300]))
            tag = "read:" + case["kind"].split(":")[0] + ":" + (ref["out"] if ref["out"] == "ok" else ref["cls"])
            rq_tags[tag] += 1
            continue
        if len(ix) == 3:
            # the model's dispatch (which server's handle() is entered, with which method id, which user method runs)
            real_d = real_dispatch(srvinfos, res)
            n_inv += 1
            if o != real_d:
                n_diff += 1
                if first is None: first = (case, res, line[:200] + " -> " + o, "the real dispatch: " + real_d, minor, [s["class"] for s in srvinfos])
            continue
        if res.get("skipped"):
            # the real loop had ended: the model's `serve` must have ended too
            if o != "dead":
                n_diff += 1
                if first is None: first = (case, res, o, "skipped (loop ended)", minor, [s["class"] for s in srvinfos])
            continue
        n_cases += 1
        if case.get("objects"):
            # the model's time until the loop is back at recv() (all of the coroutine's awaiting, or none) vs the virtual clock
            ms, _, o = o.partition(" ")
            n_obj += 1
            if res["truthy"] is False: n_falsy += 1
            if case["script"].get("delay_ms"): n_slow += 1
            if ms != str(res["elapsed_ms"]) and not res["hang"]:
                n_diff += 1
                if first is None: first = (case, res, "back at recv() after %s ms" % ms, "back at recv() after %d ms" % res["elapsed_ms"], minor, [s["class"] for s in srvinfos])
        hres, _, reaction = o.partition(" => ")
        real = ("propagate" if res["loop"] != "alive" else "silent" if not res["sent"] else
                "send " + res["sent"][0] if len(res["sent"]) == 1 else "multi %d" % len(res["sent"]))
        real_h = res["observed"] if res["observed"] is not None else "nosrv"
        if case["script"]["mode"] in ("ok", "partial") and res["value_error"]:
            continue
        ans = parse_answer(bytes.fromhex(res["sent"][0])) if real.startswith("send") else None
        tag = case["kind"] + "=>" + ("send-ok" if ans and ans["ok"] else "send-err" if real.startswith("send") else real.split(" ")[0])
        ctx.case(key=(case["module"], case["class"], case["method"], case["kind"], case["body"][:40], repr(sorted(case["script"].items()))),
                 nontrivial=True, tag=tag,
                 sample={"case": {k: v for k, v in case.items() if k != "datagram"}, "model": o[:160], "real": (real_h + " => " + real)[:160]} if n_cases % 7919 == 0 else None)
        bad = judge_case(case, si, res)
        if bad and case.get("objects"):
            what = "RMC server: " + bad[1] + object_context(case, res)
            ctx.violation("c11:%s:%s" % (bad[0], case["kind"].split(":")[0]), what,
                          {"sequence": object_sequence(srvinfos, cases[:ix[1] + 1], minor, si), "case": case, "minor_version": minor, "registered": ["%s.%s" % (s["module"], s["class"]) for s in srvinfos],
                           "objects": case["objects"], "real": res, "model": o,
                           "how": "harness/corr_C11.py replay(): the sequence on one connection in virtual time (harness/c11_objects.py) against objects of the "
                                  "user subclasses `objects` (truth-value flavours) of the registered classes; the last request is judged"})
        elif bad and case.get("duplex") is not None:
            evs = results[0]["duplex"]["events"][:case["duplex"] + 1]
            ctx.violation("c11:%s:%s" % (bad[0], case["kind"].split(":")[0].rstrip("0123456789")),
                          "RMC server: %s [calls in both directions on one connection; schedule: %s]" % (bad[1], DUP.describe(evs)),
                          {"duplex": evs, "case": case, "minor_version": minor, "registered": ["%s.%s" % (s["module"], s["class"]) for s in srvinfos],
                           "real": res, "model": o, "how": "harness/corr_C11.py replay(): the schedule (harness/c11_duplex.py) on one connection; its last event is the judged request"})
        elif bad and case.get("lst") is not None:
            life = next(r["listener"] for r in results if r.get("listener"))
            evs = life["events"][:case["lst"]["event"] + 1]
            if _SHRUNK["request"] < 3: _SHRUNK["request"] += 1; evs = shrink_life(srvinfos, life, evs, minor, bad[0], False)
            ctx.violation("c11:%s:%s" % (bad[0], case["kind"].split(":")[0]),
                          "RMC listener (rmc.%s, %d connection(s) so far; the connection's servers when the request arrived: %s): %s [life of the listener: %s]"
                          % (life["api"], sum(1 for e in evs if e["ev"] == "open"),
                             "the listener's" + "".join(" + " + srvinfos[j]["class"] for j in listener_table(evs, srvinfos, life["n_listener"])), bad[1], LST.describe(evs)),
                          {"listener": {"api": life["api"], "n_listener": life["n_listener"], "events": evs}, "case": evs[-1]["case"], "minor_version": minor,
                           "registered": ["%s.%s" % (s["module"], s["class"]) for s in srvinfos], "real": {k: v for k, v in res.items() if k != "listener"}, "model": o,
                           "how": "harness/corr_C11.py replay(): the life of the listener (harness/c11_listener.py) up to the judged request, which is its last event"})
        elif bad:
            ctx.violation("c11:%s:%s" % (bad[0], case["kind"].split(":")[0]), "RMC server: " + bad[1],
                          {"case": case, "minor_version": minor, "registered": ["%s.%s" % (s["module"], s["class"]) for s in srvinfos],
                           "real": res, "model": o, "how": "harness/corr_C11.py replay(): one session with the registered classes, this datagram and script"})
        # independence of earlier requests: the same request alone on a fresh connection must be answered identically
        if ix[1] in fresh:
            n_fresh += 1
            if case["kind"] == "ok-after-failure": n_after_fail += 1
            fr = fresh[ix[1]]
            if case.get("objects"):
                if (fr["sent"], fr["loop"]) != (res["sent"], res["loop"]) and not ctx.violations:
                    who = "%s.%s method %d (%s)" % (case["module"], case["class"], case["method"], case["kind"])
                    ctx.violation("c11:object-or-duration-dependence:%s" % case["kind"].split(":")[0],
                                  "RMC server: %s is answered %s%s, but %s when the handler does the same at once on a plain object of the generated class (fresh connection)"
                                  % (who, res["sent"] or res["loop"], object_context(case, res), fr["sent"] or fr["loop"]),
                                  {"sequence": cases[:ix[1] + 1], "case": case, "minor_version": minor, "registered": ["%s.%s" % (s["module"], s["class"]) for s in srvinfos],
                                   "objects": case["objects"], "real": res, "fresh": fr,
                                   "how": "harness/corr_C11.py replay(): the sequence in virtual time against the user subclasses vs its last request, instant, plain object, fresh connection"})
            elif case.get("duplex") is not None:
                if (fr["sent"], fr["loop"]) != (res["sent"], res["loop"]) and not ctx.violations:
                    evs = results[0]["duplex"]["events"][:case["duplex"] + 1]
                    who = "%s.%s method %d (%s)" % (case["module"], case["class"], case["method"], case["kind"])
                    ctx.violation("c11:outstanding-call-dependence:%s" % case["kind"].split(":")[0].rstrip("0123456789"),
                                  "RMC server: %s is answered %s in the schedule [%s], but %s alone on a fresh connection without calls of the other direction"
                                  % (who, res["sent"] or res["loop"], DUP.describe(evs), fr["sent"] or fr["loop"]),
                                  {"duplex": evs, "case": case, "minor_version": minor, "registered": ["%s.%s" % (s["module"], s["class"]) for s in srvinfos],
                                   "real": res, "fresh": fr, "how": "harness/corr_C11.py replay(): the schedule on one connection vs its last request on a fresh one"})
            elif (fr["sent"], fr["loop"]) != (res["sent"], res["loop"]) and not ctx.violations:
                seq = shrink_history(srvinfos, cases[:ix[1] + 1], minor, fr)
                who = "%s.%s method %d (%s)" % (case["module"], case["class"], case["method"], case["kind"])
                ctx.violation("c11:history-dependence:%s" % case["kind"].split(":")[0],
                              "RMC server: %s is answered %s after %d earlier request(s) on the same connection, but %s on a fresh connection "
                              "(minimised sequence: %s)" % (who, res["sent"] or res["loop"], len(seq) - 1, fr["sent"] or fr["loop"],
                                                            " ; ".join("%s.m%d[%s]" % (c["class"], c["method"], c["kind"]) for c in seq)),
                              {"sequence": seq, "case": case, "minor_version": minor, "registered": ["%s.%s" % (s["module"], s["class"]) for s in srvinfos],
                               "in_sequence": res, "fresh": fr, "how": "harness/corr_C11.py replay(): the sequence on one connection vs its last request on a fresh one"})
        if hres != real_h or reaction != real:
            n_diff += 1
            if first is None: first = (case, res, o, real_h + " => " + real, minor, [s["class"] for s in srvinfos])
    # order of first use of structure classes
    t_a = _t.time()
    fu_thread.join()
    ctx.extra["seconds_waiting_for_the_first_use_family_after_everything_else"] = round(_t.time() - t_a, 1)
    firstuse_judge(ctx, fu_box)
    # the CALL side of the schedules with calls in both directions
    n_dup = n_dup_req = n_dup_while = n_dup_calls = 0
    for srvinfos, cases, results, minor, fresh, export in sessions:
        d = results[0].get("duplex") if results else None
        if d is None: continue
        n_dup += 1
        n_dup_req += len(cases)
        n_dup_while += sum(1 for c in cases if c["kind"].startswith("duplex") and c["kind"][6:7].isdigit() and c["kind"][6] != "0")
        n_dup_calls += sum(1 for e in d["events"] if e["ev"] == "call")
        if d["bad"]:
            key, why, k = d["bad"]
            evs = d["events"][:k + 1]
            ctx.violation("c11:duplex:%s" % key, "RMC connection with calls in both directions: %s [schedule: %s]" % (why, DUP.describe(evs)),
                          {"duplex": evs, "judge": "calls", "minor_version": minor, "registered": ["%s.%s" % (s["module"], s["class"]) for s in srvinfos],
                           "how": "harness/corr_C11.py replay(): the schedule (harness/c11_duplex.py) on one connection, judged by c11_duplex.judge_calls"})
    # the LISTENER side of the lives with several connections
    n_lst = n_lst_conn = n_lst_req = n_lst_gate = n_lst_refused = n_lst_own = n_lst_nothere = 0
    for srvinfos, cases, results, minor, fresh, export in sessions:
        life = results[0].get("listener") if results else None
        if life is None: continue
        n_lst_req += len(cases)
        for c in cases:
            k = c["kind"].split(":")[0]
            n_lst_gate += k == "listener-gate"; n_lst_refused += k == "listener-gate-refused"; n_lst_own += k == "listener-own"; n_lst_nothere += k == "listener-not-registered-here"
        if not life["primary"]: continue
        n_lst += 1; n_lst_conn += life["connections"]
        if life["bad"]:
            key, why, k = life["bad"]
            evs = life["events"][:k + 1]
            if _SHRUNK["listener"] < 3: _SHRUNK["listener"] += 1; evs = shrink_life(srvinfos, life, evs, minor, key, True)
            ctx.violation("c11:listener:%s" % key, "RMC listener (rmc.%s): %s [life of the listener: %s]" % (life["api"], why, LST.describe(evs)),
                          {"listener": {"api": life["api"], "n_listener": life["n_listener"], "events": evs}, "judge": "listener", "minor_version": minor,
                           "registered": ["%s.%s" % (s["module"], s["class"]) for s in srvinfos],
                           "how": "harness/corr_C11.py replay(): the life of the listener (harness/c11_listener.py), judged by c11_listener.judge"})
    ctx.extra["listener_lives_with_several_connections"] = n_lst
    ctx.extra["connections_accepted_by_those_listeners"] = n_lst_conn
    ctx.extra["requests_on_those_connections"] = n_lst_req
    ctx.extra["requests_whose_handler_registered_servers_on_its_own_connection"] = n_lst_gate
    ctx.extra["requests_whose_handler_registered_a_protocol_its_connection_already_has"] = n_lst_refused
    ctx.extra["requests_for_a_protocol_the_connection_registered_for_itself"] = n_lst_own
    ctx.extra["requests_for_a_protocol_only_other_connections_registered"] = n_lst_nothere
    ctx.extra["connections_with_calls_in_both_directions"] = n_dup
    ctx.extra["outgoing_calls_on_those_connections"] = n_dup_calls
    ctx.extra["peer_requests_on_those_connections"] = n_dup_req
    ctx.extra["peer_requests_arriving_while_an_outgoing_call_is_outstanding"] = n_dup_while
    ctx.extra["requests_to_objects_of_stateful_user_subclasses_in_virtual_time"] = n_obj
    ctx.extra["requests_arriving_while_the_addressed_object_is_falsy"] = n_falsy
    ctx.extra["requests_whose_handler_awaited_virtual_time_first"] = n_slow
    ctx.extra["requests_whose_dispatch_and_invoked_user_method_were_compared_with_the_model"] = n_inv
    ctx.extra["requests_compared_with_fresh_connection"] = n_fresh
    ctx.extra["requests_whose_parameters_were_read_by_the_reference_reader_and_by_the_model"] = n_rq
    ctx.extra["reference_reading_by_kind_and_outcome"] = dict(sorted(rq_tags.items()))
    ctx.extra["wrongly_typed_result_cases"] = n_wrong
    ctx.extra["wrongly_typed_result_cases_the_property_calls_incompatible"] = n_wrong_incompat
    ctx.extra["successes_right_after_a_mid_encoding_failure"] = n_after_fail
    ctx.traces_validated = len(sessions)
    ctx.programs = len(servers)
    ctx.extra["sessions"] = len(sessions)
    ctx.extra["requests"] = n_cases
    ctx.extra["requests_differing_from_model"] = n_diff
    ctx.extra["translator_shape_problems"] = problems[:10]
    # translator obligations: find a failing input before declaring the tie broken
    if (problems or not ok or mism) and not ctx.violations:
        if failing:
            s, dup = failing
            ctx.violation("c11:duplicate-method-id:%s.%s" % (s["module"], s["class"]),
                          "method id(s) %r occur twice in the dispatch table of %s.%s: a request for one of the methods is answered by the other's handler" % (dup, s["module"], s["class"]),
                          {"module": s["module"], "class": s["class"], "duplicate_ids": dup, "table": [(m["const"], m["id"]) for m in s["methods"]]})
        else:
            ctx.corr_break("rmc-server-table", "generated server tables no longer have the modelled shape: %s" % (problems[:3] or mism[:3] or out[-300:]),
                           {"problems": problems[:20], "mismatch": mism[:20], "lean": out[-1000:]})
    if n_diff and not ctx.violations and not ctx.known_hits:
        case, res, o, real, minor, regs = first
        ctx.corr_break("rmcserver-model-correspondence", "real handle_request/generated handle and the Lean model disagree on %d of %d requests" % (n_diff, n_cases),
                       {"case": case, "real": real, "model": o, "minor_version": minor, "registered": regs,
                        "theorems_no_longer_tied": ["Nx.C11.one_response", "Nx.C11.outcome_table", "Nx.C11.C11_sequence"]})


def replay(ctx, path):
    import json
    r = json.load(open(path))
    case = r.get("case")
    servers, _ = T.extract_all(vf.REPO)
    lookup = {"%s.%s" % (s["module"], s["class"]): s for s in servers}
    regs = [lookup[n] for n in r.get("registered", [])]
    def reref(c):
        # the reference reading of the parameters is recomputed (the replay file does not carry the value trees)
        if c.get("extract") == "ref":
            ref = FR.reference(FR.schema_for(session_settings(r.get("minor_version", 0))), bool(c["rq"]["hdr"]), c["rq"]["tys"], bytes.fromhex(c["body"]))
            if ref is not None: c["ref"] = ref
        return c
    if "firstuse" in r:
        a = _firstuse_call("run1", r["firstuse"])
        for st, x in zip(r["firstuse"]["steps"], a.get("steps", [])): print("%s [%s %s] -> %s %s" % (st["user"], st["way"], st["cls"], x.get("sent"), x["problems"] or ""))
        bad = "error" in a or any(x["problems"] for x in a["steps"])
        if "firstuse_other" in r:
            b = _firstuse_call("run1", r["firstuse_other"])
            for st, x in zip(r["firstuse_other"]["steps"], b.get("steps", [])): print("other order: %s [%s %s] -> %s %s" % (st["user"], st["way"], st["cls"], x.get("sent"), x["problems"] or ""))
            if a["steps"][r["step"]].get("sent") != b["steps"][r["step_other"]].get("sent"): bad = True; print("VIOLATION order-dependence")
        if bad: print("VIOLATION", [x["problems"] for x in a.get("steps", [])] or a.get("error"))
        return 1 if bad else 0
    if "listener" in r:
        L = r["listener"]
        evs = L["events"]
        recs, info = LST.run_listeners([(L["api"], regs, L["n_listener"], evs, r.get("minor_version", 0))])[0]
        for e, x in zip(evs, recs): print(LST.describe([e]), "->", {k: x.get(k) for k in ("sent", "state", "hang", "elsewhere", "owners", "registered", "skipped") if x.get(k)})
        bad = LST.judge(evs, recs, regs, L["n_listener"])
        if r.get("judge") != "listener" and not bad and evs[-1]["ev"] == "req":
            c = evs[-1]["case"]
            if recs[-1].get("skipped"): bad = ("skipped", "the connection's handler had ended")
            else: bad = judge_case(c, regs[c["srv"]] if c["srv"] is not None else None, recs[-1])
        if bad: print("VIOLATION", bad)
        return 1 if bad else 0
    if "duplex" in r:
        evs = r["duplex"]
        recs = DUP.run_sessions([(regs, evs, r.get("minor_version", 0))])[0]
        for e, x in zip(evs, recs): print(DUP.describe([e]), "->", {k: x.get(k) for k in ("sent", "loop", "hang", "completed", "outstanding", "skipped") if x.get(k)})
        bad = DUP.judge_calls(evs, recs)
        if r.get("judge") != "calls" and not bad and evs[-1]["ev"] == "req":
            c = evs[-1]["case"]
            if recs[-1].get("skipped"): bad = ("skipped", "the receive loop had ended")
            else:
                bad = judge_case(c, regs[c["srv"]] if c["srv"] is not None else None, recs[-1])
                if not bad:
                    fr = R.run_fresh(regs, [OBJ.plain(c)], r.get("minor_version", 0))[0]
                    print("alone on a fresh connection ->", fr["sent"] or fr["loop"])
                    if (fr["sent"], fr["loop"]) != (recs[-1]["sent"], recs[-1]["loop"]): bad = ("outstanding-call-dependence",)
        if bad: print("VIOLATION", bad)
        return 1 if bad else 0
    case = r["case"]
    for c in r.get("sequence", []) + [case]: reref(c)
    if "objects" in r:
        seq = r["sequence"]
        a = OBJ.run_sessions([(regs, seq, r.get("minor_version", 0), r["objects"])])[0]
        for c, x in zip(seq, a): print("%s.m%d[%s] bool(object)=%s after %s ms -> %s" % (c["class"], c["method"], c["kind"], x.get("truthy"), x.get("elapsed_ms"), x.get("sent") or x.get("loop")))
        if a[-1].get("skipped"): print("VIOLATION the receive loop had ended"); return 1
        si = regs[case["srv"]] if case["srv"] is not None else None
        bad = judge_case(case, si, a[-1])
        b = R.run_fresh(regs, [OBJ.plain(case)], r.get("minor_version", 0))[0]
        print("instant handler, plain object, fresh connection ->", b["sent"] or b["loop"])
        if bad: print("VIOLATION", bad)
        elif (a[-1]["sent"], a[-1]["loop"]) != (b["sent"], b["loop"]): bad = True; print("VIOLATION object-or-duration-dependence")
        return 1 if bad else 0
    if "sequence" in r:
        seq = r["sequence"]
        a = R.run_sessions([(regs, seq, r.get("minor_version", 0))])[0]
        b = R.run_sessions([(regs, [seq[-1]], r.get("minor_version", 0))])[0][0]
        for c, x in zip(seq, a): print("%s.m%d[%s] -> %s" % (c["class"], c["method"], c["kind"], x.get("sent") or x.get("loop")))
        print("fresh connection, last request alone ->", b["sent"] or b["loop"])
        bad = (a[-1].get("sent"), a[-1].get("loop")) != (b["sent"], b["loop"])
        if bad: print("VIOLATION history-dependence")
        return 1 if bad else 0
    res = R.run_sessions([(regs, [case], r.get("minor_version", 0))])[0][0]
    si = regs[case["srv"]] if case["srv"] is not None else None
    print(res)
    bad = judge_case(case, si, res)
    if bad: print("VIOLATION", bad)
    return 1 if bad else 0
