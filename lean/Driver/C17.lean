import NxModel.Nex.Backend
import NxModel.Nex.BackendServe
import NxModel.Nex.BackendConnAck
import NxModel.DriverUtil
/-! line-protocol driver for the back-end login model (see harness/corr_C17.py)
  plan <nexVersion> <clientVersion> <kd> <keySize> <pidSize> <authHost> <authPort> <username> <passwordhex|none> <authInfo 0|1>
       (resp <result> <pid> <tickethex> <sourceKeyText|~> <addr> <port> <PID> <CID> <sid> | fail <code>)
       (resp <result> <tickethex> | fail <code>)
  -> <calls joined by |> ; <none | source hex | derived kd pid hex> ; <connect host port sid pid cid sessionkeyhex internalhex | rmc code | exc Name>
  session <nexVersion> <clientVersion> <kd> <keySize> <pidSize> <authHost> <authPort> { ;; (<username> <passwordhex|none> <authInfo 0|1> | guest) <first> <second> }
  -> the plans of the steps through one client object (`Backend.session`), same format, joined by " ;; "
  serve <keySize> <pidSize> <ticketVersion> <epoch> <tzOffset> <serverKeyHex> { ;; <connectPayloadHex> <nowTicks> }
  -> the verdicts of one secure server object on these CONNECT payloads at these instants (`Backend.serve`), joined by " ;; ":
     accept <pid> <cid> <responsehex> | err <Name>
  creq <pidSize> <internalhex> <sessionkeyhex> <pid> <cid> <check>
  -> the CONNECT payload the client builds from these credentials (`Backend.connectRequest`), hex | err <Name>
  cack <hasCredentials 0|1> <check> <connectAckPayloadHex>
  -> the client's verdict on the answer to its CONNECT (`Backend.checkResponse`): ok | err <Name>
-/
open Nx Nx.Backend

def showCall : Call → String
  | .login u => s!"login {u}"
  | .loginEx u => s!"loginEx {u}"
  | .validateAndRequestTicket u => s!"validateAndRequestTicket {u}"
  | .validateAndRequestTicketWithCustomData u => s!"validateAndRequestTicketWithCustomData {u}"
  | .validateAndRequestTicketWithParam u d n c => s!"validateAndRequestTicketWithParam {u} {if d then 1 else 0} {n} {c}"
  | .requestTicket s t => s!"requestTicket {s} {t}"

def showKey : KeyUse → String
  | .none => "none"
  | .source k => "source " ++ hexOut k
  | .derived kd pid k => s!"derived {kd} {pid} " ++ hexOut k

def showOut : Except Fail Connect → String
  | .ok c => s!"connect {c.host} {c.port} {c.streamId} {c.pid} {c.cid} {hexOut c.ticket.sessionKey} {hexOut c.ticket.internal}"
  | .error (.rmc code) => s!"rmc {code}"
  | .error (.exc e) => "exc " ++ e.name

def parseFirst : List String → Option (Reply AuthResp × List String)
  | "fail" :: code :: r => code.toNat?.map fun c => (.fail c, r)
  | "resp" :: res :: pid :: t :: sk :: addr :: port :: spid :: cid :: sid :: r => do
    let res ← res.toNat?; let pid ← pid.toNat?; let t ← fromHex t
    let port ← port.toNat?; let spid ← spid.toNat?; let cid ← cid.toNat?; let sid ← sid.toNat?
    pure (.resp ⟨res, pid, t, if sk = "~" then "" else sk, ⟨addr, port, spid, cid, sid⟩⟩, r)
  | _ => none

def parseSecond : List String → Option (Reply TicketResp)
  | ["fail", code] => code.toNat?.map .fail
  | ["resp", res, t] => do
    let res ← res.toNat?; let t ← fromHex t
    pure (.resp ⟨res, t⟩)
  | _ => none

def showPlan (p : Plan) : String :=
  "|".intercalate (p.calls.map showCall) ++ " ; " ++ showKey p.key ++ " ; " ++ showOut p.outcome

def parseStep (toks : List String) : Option Step :=
  let argsRest : Option (Args × List String) :=
    match toks with
    | "guest" :: rest => some (guestArgs, rest)
    | user :: pw :: ai :: rest =>
      (if pw = "none" then some none else (fromHex pw).map some).map fun pw => (⟨user, pw, ai = "1"⟩, rest)
    | _ => none
  match argsRest with
  | some (a, rest) =>
    match parseFirst rest with
    | some (first, rest) => (parseSecond rest).map fun second => ⟨a, ⟨first, second⟩⟩
    | none => none
  | none => none

def sessionLine (line : String) : String :=
  match (line.splitOn " ;; ").map (fun part => (part.splitOn " ").filter (· ≠ "")) with
  | ["session", nv, cv, kd, ks, ps, ah, ap] :: stepToks =>
    match nv.toNat?, cv.toNat?, kd.toNat?, ks.toNat?, ps.toNat?, ap.toNat?, stepToks.mapM parseStep with
    | some nv, some cv, some kd, some ks, some ps, some ap, some steps =>
      " ;; ".intercalate ((session ⟨⟨nv, cv, kd, ks, ps, ah, ap⟩⟩ steps).map showPlan)
    | _, _, _, _, _, _, _ => "bad-op"
  | _ => "bad-op"

def showVerdict : Verdict → String
  | .accepted pid cid _ resp => s!"accept {pid} {cid} {hexOut resp}"
  | .refuse e => "err " ++ e.name

def parsePresentation : List String → Option Presentation
  | [d, now] => do let d ← fromHex d; let now ← now.toNat?; pure ⟨d, now⟩
  | _ => none

def serveLine (line : String) : String :=
  match (line.splitOn " ;; ").map (fun part => (part.splitOn " ").filter (· ≠ "")) with
  | ["serve", ks, ps, tv, ep, tz, key] :: ptoks =>
    match ks.toNat?, ps.toNat?, tv.toNat?, ep.toNat?, tz.toInt?, fromHex key, ptoks.mapM parsePresentation with
    | some ks, some ps, some tv, some ep, some tz, some key, some pres =>
      " ;; ".intercalate ((serve ⟨⟨ks, ps, tv⟩, ep, tz, key⟩ pres).map showVerdict)
    | _, _, _, _, _, _, _ => "bad-op"
  | _ => "bad-op"

def creqLine (line : String) : String :=
  match (line.splitOn " ").filter (· ≠ "") with
  | ["creq", ps, internal, sk, pid, cid, check] =>
    match ps.toNat?, fromHex internal, fromHex sk, pid.toNat?, cid.toNat?, check.toNat? with
    | some ps, some internal, some sk, some pid, some cid, some check =>
      match connectRequest ps ⟨"", 0, 0, pid, cid, ⟨sk, 0, internal⟩⟩ check with
      | .ok b => hexOut b
      | .error e => "err " ++ e.name
    | _, _, _, _, _, _ => "bad-op"
  | _ => "bad-op"

def cackLine (line : String) : String :=
  match (line.splitOn " ").filter (· ≠ "") with
  | ["cack", cred, check, d] =>
    match check.toNat?, fromHex d with
    | some check, some d =>
      match checkResponse (cred = "1") check d with
      | .ok _ => "ok"
      | .error e => "err " ++ e.name
    | _, _ => "bad-op"
  | _ => "bad-op"

def step (line : String) : String :=
  if line.startsWith "cack " then cackLine line else
  if line.startsWith "session " then sessionLine line else
  if line.startsWith "serve " then serveLine line else
  if line.startsWith "creq " then creqLine line else
  match (line.splitOn " ").filter (· ≠ "") with
  | "plan" :: nv :: cv :: kd :: ks :: ps :: ah :: ap :: user :: pw :: ai :: rest =>
    match nv.toNat?, cv.toNat?, kd.toNat?, ks.toNat?, ps.toNat?, ap.toNat?, parseFirst rest with
    | some nv, some cv, some kd, some ks, some ps, some ap, some (first, rest) =>
      match parseSecond rest, (if pw = "none" then some none else (fromHex pw).map some) with
      | some second, some pw =>
        let p := plan ⟨nv, cv, kd, ks, ps, ah, ap⟩ ⟨user, pw, ai = "1"⟩ ⟨first, second⟩
        showPlan p
      | _, _ => "bad-op"
    | _, _, _, _, _, _, _ => "bad-op"
  | _ => "bad-op"

def main : IO Unit := runLines step
