import NxModel.Prudp.V0
import NxModel.Prudp.Lite
/-!
# Encoding selection — mirrors `PRUDPMessageSelector` (prudp.py 503-534)
-/
namespace Nx.Prudp
open Nx

inductive Codec where
  | v0 | v1 | lite
  deriving DecidableEq, Repr

def TRANSPORT_UDP : Nat := 0
def TRANSPORT_TCP : Nat := 1
def TRANSPORT_WEBSOCKET : Nat := 2

/-- the two settings the selector reads: `prudp.transport`, `prudp.version` -/
structure SelCfg where
  transport : Nat := 0
  version : Nat := 2
  deriving DecidableEq, Repr

/-- `select(version)`; `version` is `packet.version` or an explicit argument (`None` allowed) -/
def select (s : SelCfg) (version : Option Nat) : Codec :=
  if s.transport = TRANSPORT_UDP then
    if version = some 0 then .v0 else .v1
  else .lite

/-- `analyze(data)` -/
def analyze (s : SelCfg) (data : Bytes) : Codec :=
  if s.transport = TRANSPORT_UDP ∧ s.version = 2 then
    if data.take 3 = [0xEA, 0xD0, 0x01] then .v1 else .v0
  else select s (some s.version)

def signatureSize : Codec → Nat
  | .v0 => 4
  | .v1 => 16
  | .lite => 16

structure Cfg where
  v0 : V0Cfg := {}
  sel : SelCfg := {}
  deriving DecidableEq, Repr

/-- `PRUDPMessageSelector.encode` (total) -/
def encode (c : Cfg) (p : Packet) : Bytes :=
  match select c.sel p.version with
  | .v0 => v0Encode c.v0 p
  | .v1 => v1Encode p
  | .lite => liteEncode p

def encodeChecked (c : Cfg) (p : Packet) : Except Err Bytes :=
  match select c.sel p.version with
  | .v0 => v0EncodeChecked c.v0 p
  | .v1 => v1EncodeChecked p
  | .lite => liteEncodeChecked p

/-- `PRUDPMessageSelector.decode(data)` with the lite object's buffer threaded through -/
def decode (c : Cfg) (liteBuffer data : Bytes) : Except Err (List Packet) × Bytes :=
  match analyze c.sel data with
  | .v0 => (v0Decode c.v0 data, liteBuffer)
  | .v1 => (v1Decode data, liteBuffer)
  | .lite => liteFeed liteBuffer data

end Nx.Prudp
