"""C14 — SEVERAL protocols on ONE connection, in BOTH directions, response-less ("noresponse") protocols among them.

The per-method sweep (schema_rpc.py) and the wire sessions (c14_wire.py) drive one protocol per connection. Real programs
do not: a game server handles MatchMaking calls and pushes Notification events to the same client over the same connection,
a client sends MessageDelivery / NintendoNotification requests next to its ordinary calls, and either peer may or may not
have registered a handler for the response-less protocol (only a peer that HAS registered one knows that the protocol is
response-less: a peer without a handler answers like for any unknown protocol id, with Core::NotImplemented under the
request's call id). The property quantifies over all generated methods — the response-less ones included — and demands the
implementation's values for every call whatever else happens on the connection.

One worker = one ordinary generated module M + one module N that defines a response-less protocol (found from the .proto
definitions: `set noresponse`). A *session* is one connection between side A (connects) and side B (accepts):
  * B serves an ordinary protocol P of M (in half of the sessions A serves P as well, so B calls A — without it a call of B
    to A must yield Core::NotImplemented: unknown protocol);
  * the response-less protocol is handled by B, by A, by both, by neither (all four, cyclically);
  * the plan is a sequence of steps; a step is one call or a group of calls started together as tasks. Calls: ordinary
    (real generated client -> recording implementation that returns prepared values), calls of a method the server leaves
    at the generated stub (-> Core::NotImplemented), one-way calls of the response-less protocol in either direction, and
    ordinary calls whose implementation pushes one-way calls to its caller before it returns (what servers do). Blocks put
    one-way calls directly in front of ordinary calls (no pause in between: the peer's reaction to the one-way request
    arrives while the ordinary call is outstanding), several one-way calls in a row, mixed groups in flight together;
  * transports: the in-memory pair of the per-method sweep (direct or yielding sends, with / without a send lock, any
    negotiated minor version, call id counters fresh or preset near a boundary / the 32-bit wrap) and the real PRUDP
    connection (rmc.connect(servers=...) / rmc.serve) of every shipped settings profile over harness/sim.py with the
    fault regimes of c14_wire.py (each distinct datagram lost at most once).

Oracle (per call, values through the Lean schema interpreter as everywhere in C14): every ordinary call of an implemented
method returns normally with the visible values its implementation returned, and that implementation ran exactly once
with the visible arguments; a stub / an unserved protocol yields Core::NotImplemented and nothing else does; every
one-way call returns None, and when the addressed peer registered a handler the handler's implementation ran exactly once
per call with the visible arguments (perfect matching of calls and arrivals), never otherwise.
Model tie: what each instrumented RMCClient did (request() sections with the call id on the wire, every datagram its
loop received, every resumption with the body / error handed to the caller) is replayed through the Lean call-matching
machine (`mux` lines, NxModel/Nex/C14Mux.lean) — rpc_mixed_one_way_own_result is the theorem this ties.
A failing in-memory session is shrunk (steps dropped while it still fails) before it is reported.

Re-run one session:  NX_REPO=<tree> /venv/bin/python harness/c14_mixed.py <replay.json>"""
import asyncio, contextlib, json, os, random, struct, sys, traceback

import c14_wire as W14

SERVER = W14.SERVER
SERVER_KEY = W14.SERVER_KEY
HANDLERS = [(0, 0), (1, 0), (0, 1), (1, 1)]            # (B handles the response-less protocol, A handles it)
SIDE = {"A": "A (the connecting side)", "B": "B (the accepting side)"}


def task(args):
    repo, name, nrname, seed, exe, nmem, profiles = args
    res = {"module": name, "cases": 0, "lines": 0, "tags": {}, "diffs": [], "keys": [], "samples": [], "error": None,
           "methods": 0, "fc_cases": 0}
    try:
        _task(repo, name, nrname, seed, exe, nmem, profiles, res)
    except Exception:
        res["error"] = traceback.format_exc()
        res["error_in_library"] = os.path.join(os.path.abspath(repo), "nintendo") + os.sep in res["error"]
    return res


def _short(x, n=1500):
    x = str(x)
    return x if len(x) <= n else x[:n] + "...(%d more)" % (len(x) - n)


def call_id_of(data):
    off = 7 if (data[4] & 0x7F) == 0x7F else 5
    return struct.unpack_from("<I", data, off)[0]


def one_way_protocols(env):
    return [p for p in env.protos if p["noresponse"] and any(m["supported"] for m in p["methods"])]


def ordinary_protocols(env):
    return [p for p in env.protos if not p["noresponse"] and any(m["supported"] for m in p["methods"])]


# ------------------------------------------------------------------------------------------------ sessions and plans

def sessions_of(name, nrname, seed, nmem, profiles):
    out = []
    rng = random.Random("mixed/%s/%s/%s" % (seed, name, nrname))
    for i in range(nmem):
        hb, ha = HANDLERS[i % 4]
        spec = {"module": name, "one_way_module": nrname, "transport": "memory", "seed": "%s/%s/%s/mem/%d" % (seed, name, nrname, i),
                "handler_B": hb, "handler_A": ha, "served_by_A_too": rng.random() < 0.5, "pid_size": rng.choice([4, 8]),
                "minor": rng.choice([0, 1, 2, 3, 4, 5]), "sends": "direct" if i % 3 == 0 else "yielding", "send_lock": rng.random() < 0.5}
        if i % 3 == 2:
            # mostly: the 32-bit counter wraps in the middle of the session (call id 0 and the ids after it are used by some call)
            spec["call_id_counters"] = [rng.choice([0xFF, 0xFFFF, rng.randrange(1 << 32)]) if rng.random() < 0.3 else 0xFFFFFFFF - rng.randrange(8) for _ in range(2)]
        out.append(spec)
    for j, profile in enumerate(profiles):
        hb, ha = HANDLERS[rng.randrange(4)]
        regimes = W14.STREAM_REGIMES if profile == "switch" else W14.UDP_REGIMES
        regime = rng.choice(regimes)
        spec = {"module": name, "one_way_module": nrname, "transport": profile, "profile": profile, "regime": regime,
                "seed": "%s/%s/%s/%s/%d/%s" % (seed, name, nrname, profile, j, regime),
                "handler_B": hb, "handler_A": ha, "served_by_A_too": rng.random() < 0.5,
                "access_key": "%08x" % rng.randrange(1 << 32), "pid_size": 8 if profile == "switch" else 4,
                "credentials": rng.random() < 0.34}
        if rng.random() < 0.15: spec["compression"] = 1
        if rng.random() < 0.3:
            spec["minor_c"], spec["minor_s"] = rng.choice([(2, 4), (4, 2), (3, 5), (5, 3), (0, 4), (4, 4), (2, 2), (1, 3)])
        out.append(spec)
    return out


def plan_session(WM, WN, spec):
    """the protocols and the steps of one session, from the session's own seed. A step is a list of calls made together
    (one call: alone, awaited before the next step starts). call = dict(k, kind in ord/stub/nr, dir "AB"/"BA", w "M"/"N",
    m, args, rets, push=[one-way calls made by the implementation before it returns])"""
    from schema_tie import module_configs
    rng = random.Random("mixplan/" + spec["seed"])
    for W in (WM, WN):
        g = W.gen
        g.rng, g.any_i, g.var_i = rng, rng.randrange(64), rng.randrange(64)
    nrs = one_way_protocols(WN.env)
    if not nrs: return None
    N = rng.choice(nrs)
    ords = [p for p in ordinary_protocols(WM.env) if p["id"] != N["id"]]
    if not ords: return None
    rich = [p for p in ords if any("struct" in WM.kinds(m) for m in p["methods"] if m["supported"])] or ords
    P = rng.choice(rich if rng.random() < 0.7 else ords)
    nex = rng.choice(sorted({c[0] for c in module_configs(WM.env)} | {c[0] for c in module_configs(WN.env)}))
    spec["nex"], spec["protocol"], spec["one_way_protocol"] = nex, P["name"], N["name"]
    cfg = (nex, 0, spec["pid_size"])
    pms = [m for m in P["methods"] if m["supported"]]
    nms = [m for m in N["methods"] if m["supported"]]
    counter = [0]
    def values(W, m):
        g = W.gen
        x = rng.random()
        g.nonascii = x < 0.2
        g.edge = 0.2 <= x < 0.4            # a string from the edges of the domain in every string position (c14_values.py)
        g.edge_long_cap, g.edge_long_left = 32768, 1      # a message must fit 255 PRUDP fragments
        try:
            args = [g.gen(v["type"], cfg, 0, False) for v in m["request"]]
            g.edge_long_left = 1
            rets = [g.gen(v["type"], cfg, 0, len(m["response"]) == 1 and v["type"]["name"] != "anydata") for v in m["response"]]
        finally:
            g.nonascii = False; g.edge = False
        return args, rets
    def mk(kind, d, m=None):
        if kind == "nr":
            m = m or rng.choice(nms); w = "N"; p = N
        else:
            m = m or rng.choice(pms); w = "M"; p = P
        args, rets = values(WM if w == "M" else WN, m)
        counter[0] += 1
        return {"k": counter[0], "kind": kind, "dir": d, "w": w, "p": p, "m": m, "args": args, "rets": rets, "push": [], "pause": 0}
    def other(d): return d[::-1]
    steps = [[mk("ord", "AB")]]                    # the first call: B's side of the connection becomes known to the session
    for _ in range(rng.randint(4, 7)):
        block = rng.choice(["nr-ord", "nr-ord", "nr-ord", "nr-run", "group", "group", "push", "stub", "reverse"])
        first = len(steps)
        if block == "nr-ord":
            d = rng.choice(["AB", "AB", "BA"])
            steps += [[mk("nr", d)], [mk("ord", d)]]
            if rng.random() < 0.5: steps.append([mk("ord", "AB")])
        elif block == "nr-run":
            for _ in range(rng.randint(2, 4)): steps.append([mk("nr", rng.choice(["AB", "AB", "BA"]))])
            steps += [[mk("ord", "AB")], [mk("ord", rng.choice(["AB", "BA"]))]]
        elif block == "group":
            n = rng.randint(2, 5)
            free = {"A": list(pms), "B": list(pms)}            # ordinary methods still unused in this group, per callee
            for v in free.values(): rng.shuffle(v)
            group = []
            for _ in range(n):
                r = rng.random()
                if r < 0.5: group.append(mk("nr", rng.choice(["AB", "AB", "BA"])))
                else:
                    d, kind = ("AB", "ord") if r < 0.8 else (("BA", "ord") if r < 0.9 else ("AB", "stub"))
                    if free[d[1]]: group.append(mk(kind, d, free[d[1]].pop()))
                    else: group.append(mk("nr", d))
            if not any(c["kind"] == "nr" for c in group): group.append(mk("nr", "AB"))
            rng.shuffle(group)
            steps.append(group)
            steps.append([mk("ord", "AB")])
        elif block == "push":
            c = mk("ord", "AB")
            c["push"] = [mk("nr", "BA") for _ in range(rng.randint(1, 3))]
            steps += [[c], [mk("ord", rng.choice(["AB", "BA"]))]]
        elif block == "stub":
            if rng.random() < 0.5: steps.append([mk("nr", "AB")])
            steps += [[mk("stub", "AB")], [mk("ord", "AB")]]
        else:
            steps += [[mk("nr", "BA")], [mk("ord", "BA")], [mk("ord", "AB")]]
        steps[first][0]["pause"] = rng.choice([0, 0, 0, 0.5, 1.25])
    steps.append([mk("nr", rng.choice(["AB", "BA"]))])
    steps.append([mk("ord", "AB")])
    return {"P": P, "N": N, "steps": steps}


def all_calls(steps):
    for step in steps:
        for c in step:
            yield c
            for pc in c["push"]: yield pc


def expectation(spec, c):
    """what the property says the caller of c gets"""
    if c["kind"] == "nr": return "none"
    if c["kind"] == "stub": return "notimpl"
    if c["dir"] == "BA" and not spec["served_by_A_too"]: return "notimpl"
    return "values"


def shown(c, spec=None, n=120):
    import schema_values as SV
    s = "%s->%s %s.%s(%s)" % (c["dir"][0], c["dir"][1], c["p"]["name"], c["m"]["name"], _short(SV.vals(c["args"]), n))
    if c["kind"] == "nr":
        s += " [one-way"
        if spec is not None: s += "; %s has %s handler for protocol %d" % (c["dir"][1], "a" if spec["handler_" + c["dir"][1]] else "NO", c["p"]["id"])
        s += "]"
    elif c["kind"] == "stub": s += " [left unimplemented by the server]"
    elif spec is not None and expectation(spec, c) == "notimpl": s += " [protocol not served by A]"
    if c["push"]: s += " {whose implementation first sends: %s}" % "; ".join(shown(pc, spec, n) for pc in c["push"])
    return s


def sequence_text(steps, spec, n=90):
    out = []
    for step in steps:
        if len(step) == 1: out.append(shown(step[0], spec, n))
        else: out.append("TOGETHER{ " + " | ".join(shown(c, spec, n) for c in step) + " }")
    return "; then ".join(out)


# ------------------------------------------------------------------------------------------------ running a session

class Engine:
    def __init__(self, WM, WN, spec, plan, obs, now, timeout=None):
        self.W = {"M": WM, "N": WN}
        self.spec, self.plan, self.obs, self.now, self.timeout = spec, plan, obs, now, timeout
        self.rc = {"A": None, "B": None}
        self.srvP = {"A": None, "B": None}
        self.srvN = {"A": None, "B": None}
        self.arrivals = obs["arrivals"] = {"A": [], "B": []}
        self.ev = obs["events"] = {"A": [], "B": []}
        self.mux = obs["mux"] = {}
        self.clients = {}
        self.progress = 0
        self.seq = 0
        self.finished = False

    def make_servers(self):
        from schema_tie import make_class_name
        P, N = self.plan["P"], self.plan["N"]
        clsP = getattr(self.W["M"].mod, make_class_name(P["name"], "Server"))
        clsN = getattr(self.W["N"].mod, make_class_name(N["name"], "Server"))
        self.srvP["B"] = clsP()
        if self.spec["served_by_A_too"]: self.srvP["A"] = clsP()
        for side in "AB":
            if not self.spec["handler_" + side]: continue
            s = clsN()
            for m in N["methods"]:
                if not m["supported"]: continue
                async def impl(client, *a, _n=m["name"], _side=side):
                    self.attach(_side, client)
                    self.arrivals[_side].append((_n, a)); self.progress += 1
                setattr(s, m["name"], impl)
            self.srvN[side] = s

    def servers(self, side):
        return [s for s in (self.srvP[side], self.srvN[side]) if s is not None]

    def attach(self, side, rc, instrument=False):
        if self.rc[side] is not None: return
        self.rc[side] = rc
        if instrument: self.instrument(side, rc)

    def instrument(self, side, rc):
        """log, from outside, what this RMCClient does: request() sections (with the call id that went out), every datagram
        its loop receives, what request() hands back"""
        from nintendo.nex import common
        ev = self.ev[side]
        st = self.mux[side] = {"first": rc.call_id if isinstance(getattr(rc, "call_id", None), int) else None, "n": 0, "cur": {}}
        tr = rc.client
        orig_send, orig_recv, orig_request = tr.send, tr.recv, rc.request
        async def send(data, *a, **k):
            data = bytes(data); self.progress += 1
            if len(data) > 4 and data[4] & 0x80:
                inv = st["cur"].get(asyncio.current_task())
                if inv is not None and inv["n"] is None:
                    inv["n"] = st["n"]; st["n"] += 1
                    ev.append(("call", inv, call_id_of(data)))
            return await orig_send(data, *a, **k)
        async def recv(*a, **k):
            d = await orig_recv(*a, **k)
            self.progress += 1
            ev.append(("recv", None, bytes(d).hex()))
            return d
        async def request(protocol, method, body, noresponse=False):
            t = asyncio.current_task()
            inv = {"n": None, "noresp": bool(noresponse), "protocol": protocol, "method": method}
            prev = st["cur"].get(t)
            st["cur"][t] = inv
            try:
                r = await orig_request(protocol, method, body, noresponse)
            except common.RMCError as e:
                if inv["n"] is not None and not noresponse: ev.append(("wake", inv, ("rmc", e.result().code())))
                raise
            finally:
                if prev is None: st["cur"].pop(t, None)
                else: st["cur"][t] = prev
            if inv["n"] is not None and not noresponse and r is not None: ev.append(("wake", inv, ("body", bytes(r).hex())))
            return r
        tr.send, tr.recv, rc.request = send, recv, request

    def client(self, side, c):
        from schema_tie import make_class_name
        key = (side, c["w"])
        if key not in self.clients:
            self.clients[key] = getattr(self.W[c["w"]].mod, make_class_name(c["p"]["name"], "Client"))(self.rc[side])
        return self.clients[key]

    def robj_of(self, c):
        from nintendo.nex import rmc
        real, m = self.W[c["w"]].real, c["m"]
        rr = [real.build_typed(v["type"], t) for v, t in zip(m["response"], c["rets"])]
        if len(rr) > 1:
            o = rmc.RMCResponse()
            for v, x in zip(m["response"], rr): setattr(o, v["name"], x)
            return o
        return rr[0] if rr else None

    async def call(self, c, out):
        import anyio
        from nintendo.nex import common
        from schema_tie import exc_name
        X = c["dir"][0]
        self.seq += 1
        out["seq"] = self.seq
        if self.rc[X] is None:
            out["flow"] = "harness: side %s of the connection is not known yet" % X
            return
        real = self.W[c["w"]].real
        cli = self.client(X, c)
        rargs = [real.build_typed(v["type"], t) for v, t in zip(c["m"]["request"], c["args"])]
        out["t0"] = self.now()
        try:
            with (anyio.fail_after(self.timeout) if self.timeout else contextlib.nullcontext()):
                result = await getattr(cli, c["m"]["name"])(*rargs)
            flow = "ok"
        except common.RMCError as e:
            flow, result = "rmcerror " + e.name(), None
        except TimeoutError:
            flow, result = "no answer within %g s" % self.timeout, None
        except Exception as e:
            flow, result = "err %s (%s: %s)" % (exc_name(e), type(e).__name__, _short(e, 120)), None
        out.update(flow=flow, result=result, t1=self.now())
        self.progress += 1

    def install(self, c, out):
        out["rec"] = rec = {"n": 0, "args": None, "pushed": [{"c": pc, "flow": None} for pc in c["push"]]}
        if c["kind"] != "ord": return
        Y = c["dir"][1]
        srv = self.srvP[Y]
        if srv is None: return
        robj = self.robj_of(c)
        async def impl(client, *a):
            rec["n"] += 1; self.progress += 1
            self.attach(Y, client)
            if rec["n"] == 1:
                rec["args"] = a
                for po in rec["pushed"]: await self.call(po["c"], po)
            return robj
        setattr(srv, c["m"]["name"], impl)

    def uninstall(self, c):
        srv = self.srvP[c["dir"][1]]
        if c["kind"] == "ord" and srv is not None and c["m"]["name"] in srv.__dict__: delattr(srv, c["m"]["name"])

    async def settle(self, cond, passes=2000):
        import anyio
        if self.timeout:                       # virtual time
            for _ in range(240):
                if cond(): return True
                await anyio.sleep(0.0625)
            return cond()
        idle, last = 0, self.progress
        while not cond():
            await anyio.sleep(0)
            if self.progress != last: idle, last = 0, self.progress
            else:
                idle += 1
                if idle > passes: return False
        return True

    async def watchdog(self, scope):
        """in memory nothing is ever late: when nothing at all has happened for 3000 passes of the event loop, the pending
        calls wait for something that will never come"""
        import anyio
        idle, last = 0, self.progress
        while not self.finished:
            await anyio.sleep(0)
            if self.progress != last: idle, last = 0, self.progress
            else:
                idle += 1
                if idle > 3000:
                    self.obs["hung"] = True
                    scope.cancel()
                    return

    async def run_plan(self, rng):
        import anyio
        from sim import quant
        for step in self.plan["steps"]:
            outs = [{"c": c, "flow": None} for c in step]
            self.obs["calls"].append(outs)
            if self.timeout and step[0]["pause"]: await anyio.sleep(quant(step[0]["pause"]))
            for c, o in zip(step, outs): self.install(c, o)
            try:
                if len(step) == 1:
                    await self.call(step[0], outs[0])
                else:
                    async def later(c, o, k):
                        for _ in range(k): await anyio.sleep(0)
                        await self.call(c, o)
                    async with anyio.create_task_group() as cg:
                        for c, o in zip(step, outs): cg.start_soon(later, c, o, rng.choice([0, 0, 1, 2]))
            finally:
                for c in step: self.uninstall(c)
        # every one-way request addressed to a peer with a handler gets the time to reach it; then some more for what must NOT come
        want = {"A": 0, "B": 0}
        for step in self.obs["calls"]:
            for o in step:
                for x in [o] + o["rec"]["pushed"]:
                    c = x["c"]
                    if c["kind"] == "nr" and x.get("flow") == "ok" and self.spec["handler_" + c["dir"][1]]: want[c["dir"][1]] += 1
        await self.settle(lambda: all(len(self.arrivals[s]) >= want[s] for s in "AB"))
        if self.timeout: await anyio.sleep(3)
        else: await self.settle(lambda: False, passes=60)
        self.obs["completed"] = True


def leaf_of(e):
    while getattr(e, "exceptions", None): e = e.exceptions[0]
    return "%s: %s" % (type(e).__name__, _short(e, 200))


def new_obs(plan):
    return {"steps": plan["steps"], "calls": [], "faults": [], "datagrams": 0, "fragmented": 0, "crash": None, "setup_error": None, "teardown": None}


def run_memory(WM, WN, spec, plan):
    """one session over the in-memory transport of the per-method sweep"""
    import anyio
    from nintendo.nex import rmc, settings as nexsettings
    obs = new_obs(plan)
    rng = random.Random("mem/" + spec["seed"])
    yields = {"direct": (0,), "yielding": (0, 1, 1, 2, 3)}[spec["sends"]]
    minor = spec["minor"]

    class Pipe:
        def __init__(self):
            self.q = asyncio.Queue(); self.peer = None
            self.lock = anyio.Lock() if spec["send_lock"] else None
        def minor_version(self): return minor
        async def _deliver(self, data):
            for _ in range(rng.choice(yields)): await anyio.sleep(0)
            await self.peer.q.put(data)
        async def send(self, data):
            if self.lock is not None:
                async with self.lock: await self._deliver(bytes(data))
            else:
                await self._deliver(bytes(data))
        async def recv(self):
            d = await self.q.get()
            if d is None: raise anyio.EndOfStream
            return d
        async def close(self):
            await self.peer.q.put(None); await self.q.put(None)
        disconnect = close
        def pid(self): return 1
        def local_address(self): return ("127.0.0.1", 1)
        def remote_address(self): return ("127.0.0.1", 2)
        def local_sid(self): return 1
        def remote_sid(self): return 1

    eng = Engine(WM, WN, spec, plan, obs, now=lambda: 0.0)
    async def main():
        st = nexsettings.default()
        st["nex.version"] = spec["nex"]; st["nex.struct_header"] = 0; st["nex.pid_size"] = spec["pid_size"]
        a, b = Pipe(), Pipe(); a.peer = b; b.peer = a
        rcA, rcB = rmc.RMCClient(st, a), rmc.RMCClient(st, b)
        for rc, start in zip((rcA, rcB), spec.get("call_id_counters") or (None, None)):
            if start is not None and isinstance(getattr(rc, "call_id", None), int): rc.call_id = start
        obs["hdr"] = (int(bool(rcA.settings["nex.struct_header"])), int(bool(rcB.settings["nex.struct_header"])))
        eng.make_servers()
        eng.attach("A", rcA, instrument=True); eng.attach("B", rcB, instrument=True)
        async with anyio.create_task_group() as tg:
            tg.start_soon(rcA.start, eng.servers("A")); tg.start_soon(rcB.start, eng.servers("B"))
            try:
                with anyio.CancelScope() as scope:
                    tg.start_soon(eng.watchdog, scope)
                    await eng.run_plan(rng)
            finally:
                eng.finished = True
                await rcA.close()
    try:
        anyio.run(main)
    except Exception as e:
        tb = traceback.format_exc()
        if os.path.join(os.path.abspath(WM.repo), "nintendo") + os.sep not in tb: raise
        obs["crash"] = leaf_of(e); obs["traceback"] = tb[-3000:]
    obs["expected_hdr"] = 1 if minor >= 3 else 0
    return obs


def run_wire(WM, WN, spec, plan):
    """one session over the real PRUDP leg (rmc.connect / rmc.serve of the tree under test) on the simulated network"""
    import anyio
    from sim import Sim
    from nintendo.nex import rmc
    obs = new_obs(plan)
    rng = random.Random("net/" + spec["seed"])
    with Sim("sim/" + spec["seed"]) as sim:
        sim.install_factories()
        cs, ss = W14.make_settings(spec)
        spec["settings"] = {k: v for k, v in cs.settings.items() if k.startswith(("prudp.", "prudp_v0.", "nex.")) and k != "prudp.access_key"}
        udp = W14.install_network(sim, cs, spec, rng, obs)
        creds = None
        if spec["credentials"]:
            from prudp_session import make_credentials
            creds, _ = make_credentials(cs, random.Random("cred/" + spec["seed"]), cs["kerberos.key_size"], server_key=SERVER_KEY)
        eng = Engine(WM, WN, spec, plan, obs, now=sim.now, timeout=60)
        eng.make_servers()
        async def main():
            async with rmc.serve(ss, eng.servers("B"), SERVER[0], SERVER[1], key=SERVER_KEY if creds else None):
                try:
                    async with rmc.connect(cs, SERVER[0], SERVER[1], credentials=creds, servers=eng.servers("A")) as rc:
                        obs["connected"] = True
                        obs["hdr"] = (int(bool(rc.settings["nex.struct_header"])), None)
                        eng.attach("A", rc, instrument=True)
                        await eng.run_plan(rng)
                except Exception as e:
                    if not obs.get("connected"): obs["setup_error"] = leaf_of(e)
                    else: obs["teardown"] = leaf_of(e)
        async def guarded():
            with anyio.move_on_after(3000) as scope:
                await main()
            obs["timed_out"] = scope.cancelled_caught
        try:
            sim.run(guarded())
        except Exception as e:
            tb = traceback.format_exc()
            if os.path.join(os.path.abspath(WM.repo), "nintendo") + os.sep not in tb: raise
            obs["teardown"] = leaf_of(e)
        obs["end"] = sim.now()
        obs["udp"] = udp
        obs["version"] = cs["prudp.version"] if udp else "lite"
        obs["minors"] = (cs["prudp.minor_version"], ss["prudp.minor_version"])
        obs["orig_hdr"] = (int(bool(cs["nex.struct_header"])), int(bool(ss["nex.struct_header"])))
    obs["expected_hdr"] = W14.expected_header(obs)
    return obs


def header_of(WM, spec):
    """the structure-header flag the connection of this session runs with (needed for the visible values before the
    session is run): in memory minor >= 3; over the wire what struct_header_auto gives for the negotiated minor version"""
    if spec["transport"] == "memory": return 1 if spec["minor"] >= 3 else 0
    cs, ss = W14.make_settings(spec)
    udp = cs["prudp.transport"] == cs.TRANSPORT_UDP
    return W14.expected_header({"udp": udp, "version": cs["prudp.version"] if udp else "lite", "minors": (cs["prudp.minor_version"], ss["prudp.minor_version"]),
                                "orig_hdr": (int(bool(cs["nex.struct_header"])), int(bool(ss["nex.struct_header"])))})


def run_session(WM, WN, spec, plan):
    return run_memory(WM, WN, spec, plan) if spec["transport"] == "memory" else run_wire(WM, WN, spec, plan)


# ------------------------------------------------------------------------------------------------ the oracle

def first_difference(expected, got):
    e, g = expected.split(), got.split()
    i = next((i for i, (x, y) in enumerate(zip(e, g)) if x != y), min(len(e), len(g)))
    return "value #%d passed %s, arrived %s" % (i, _short(e[i], 80) if i < len(e) else "<end>", _short(g[i], 80) if i < len(g) else "<end>")


def verdict(WM, WN, spec, obs):
    """the property on one observed session: a list of (order, call, text) problems, and the number of calls that were fine.
    Visible values come from c["vis"] = (visreq, visresp, sresp) answers of the Lean interpreter."""
    import schema_values as SV
    Ws = {"M": WM, "N": WN}
    problems, fine, known = [], [], 0
    flat = []
    for step in obs["calls"]:
        for o in step:
            flat.append((o, len(step)))
            for po in o.get("rec", {}).get("pushed", []): flat.append((po, 0))
    def canon_args(c, values, mask_line):
        real = Ws[c["w"]].real
        mask = SV.parse_val(mask_line[3:])
        return "ok [" + "".join(" " + real.canon(v["type"], a, mk) for v, a, mk in zip(c["m"]["request"], values, mask)) + " ]"
    for o, together in flat:
        c = o["c"]; m = c["m"]
        if "seq" not in o: continue                           # not reached (the session ended before; reported as such)
        mvreq, mvresp, msresp = c["vis"]
        if not mvreq.startswith("ok ") or (c["kind"] != "nr" and not mvresp.startswith("ok ")):
            raise RuntimeError("interpreter rejects generated values: %r / %r" % (mvreq[:100], mvresp[:100]))
        exp = expectation(spec, c)
        flow = o.get("flow")
        why = None
        where = " (in flight together with %d other call(s))" % (together - 1) if together > 1 else (" (made by the implementation of an ordinary call before it returned)" if together == 0 else "")
        if flow is None:
            why = "never returned"
        elif exp == "none":
            if flow != "ok": why = "is a one-way call and must simply return, but the caller got: %s" % flow
            elif o.get("result") is not None: why = "is a one-way call but returned %r" % (o["result"],)
        elif exp == "notimpl":
            if flow != "rmcerror Core::NotImplemented":
                why = "must yield Core::NotImplemented (%s), but the caller got: %s" % (
                    "the server leaves the method at the generated stub" if c["kind"] == "stub" else "side A serves no protocol %d" % c["p"]["id"], flow)
        else:
            rec = o["rec"]
            if flow != "ok":
                if msresp == "err Other" and flow == "rmcerror PythonCore::Exception":
                    known += 1              # known finding: isinstance(response, common.Data) in the generated server (reported by the sweep)
                    continue
                why = "is implemented (its implementation %s), but the caller got: %s" % (
                    "ran and returned normally" if rec["n"] else "was never called", flow)
            elif rec["n"] != 1:
                why = "returned, but its implementation was called %d times" % rec["n"]
            elif len(rec["args"]) != len(m["request"]) or canon_args(c, rec["args"], mvreq) != mvreq:
                why = "delivered other arguments to the implementation than those passed: " + first_difference(mvreq, canon_args(c, rec["args"], mvreq))
            else:
                result = o["result"]
                if len(m["response"]) > 1: vals = [getattr(result, v["name"], None) for v in m["response"]]
                elif len(m["response"]) == 1: vals = [result]
                else: vals = []
                real = Ws[c["w"]].real
                mask = SV.parse_val(mvresp[3:])
                got = "ok [" + "".join(" " + real.canon(v["type"], a, mk) for v, a, mk in zip(m["response"], vals, mask)) + " ]"
                if got != mvresp or (not m["response"] and result is not None):
                    why = "returned other values to the caller than its implementation returned: " + first_difference(mvresp, got)
        if why is None: fine.append(o)
        else: problems.append((o["seq"], c, "%s%s %s" % (shown(c, spec), where, why)))
    # ---- one-way calls and the handler implementations: exactly once each, with the arguments given
    for Y in "AB":
        made = [o for o, _ in flat if o["c"]["kind"] == "nr" and o["c"]["dir"][1] == Y and "t0" in o]
        arr = obs["arrivals"][Y]
        if not spec["handler_" + Y]:
            continue                                          # no handler object exists on that side: nothing can have been called
        def ok(i, j):
            c = made[i]["c"]
            return arr[j][0] == c["m"]["name"] and len(arr[j][1]) == len(c["m"]["request"]) and canon_args(c, arr[j][1], c["vis"][0]) == c["vis"][0]
        match = {}
        def augment(i, seen):
            for j in range(len(arr)):
                if j not in seen and ok(i, j):
                    seen.add(j)
                    if j not in match or augment(match[j], seen):
                        match[j] = i
                        return True
            return False
        for i in range(len(made)):
            if not augment(i, set()):
                c = made[i]["c"]
                same_method = [j for j in range(len(arr)) if arr[j][0] == c["m"]["name"]]
                problems.append((made[i]["seq"], c, "%s: %s" % (shown(c, spec),
                    "its arguments reached the handler's implementation only for another call of the sequence (called %d times for %d calls)" % (len(arr), len(made)) if any(ok(i, j) for j in range(len(arr))) else
                    ("the handler's implementation on %s was never called with the arguments given (%d call(s) of %s arrived)" % (Y, len(same_method), c["m"]["name"])))))
        if len(arr) > len(made):
            problems.append((10 ** 9, None, "the handler for the one-way protocol on %s ran %d times for %d one-way calls" % (Y, len(arr), len(made))))
    problems.sort(key=lambda x: x[0])
    return problems, fine, known


def mux_lines(obs, side):
    """the client-side events of one instrumented RMCClient as `mux` driver lines + what the real code did at each"""
    st = obs["mux"].get(side)
    if st is None: return []
    evs = obs["events"][side]
    first = st["first"]
    if first is None: first = next((x for k, inv, x in evs if k == "call"), 1)
    out = [("mux new %d" % first, ("new", None))]
    for kind, inv, x in evs:
        if kind == "call": out.append(("mux call %d" % (1 if inv["noresp"] else 0), ("call", (inv["n"], x, inv["noresp"]))))
        elif kind == "recv": out.append(("mux recv %s" % x, ("recv", None)))
        elif kind == "wake": out.append(("mux wake %d" % inv["n"], ("wake", (inv["n"], x))))
    return out


def mux_compare(checks, outs):
    bad = []
    for (line, (kind, x)), o in zip(checks, outs):
        if "SPECDIFF" in o or "H-IDS-BROKEN" in o or o.startswith("crash") or o == "bad-op":
            bad.append("model: %s -> %s" % (line[:60], o[:80]))
        elif kind == "call":
            n, cid, noresp = x
            w = o.split(";")[0].split()
            if len(w) != 3 or w[0] != "sent" or int(w[1]) != n or int(w[2]) != cid:
                bad.append("request #%d of this side (%s) went out with call id %d, the model says %s" % (n, "one-way" if noresp else "ordinary", cid, o))
        elif kind == "wake":
            n, (k, v) = x
            want = "done %d %s" % (n, "body " + (v or "-") if k == "body" else "rmc %d" % v)
            if o != want: bad.append("request #%d of this side: request() gave %s, the model says %s" % (n, _short(want, 100), _short(o, 100)))
    return bad


def shrink(WM, WN, spec, plan, problems, budget):
    """drop steps of a failing session while it still fails (re-running the real code on every candidate); returns the
    smallest failing sequence of steps found + its problems"""
    wire = spec["transport"] != "memory"
    def fails(steps):
        try:
            obs = run_session(WM, WN, spec, dict(plan, steps=steps))
            pr, _, _ = verdict(WM, WN, spec, obs)
        except Exception:
            return None
        return pr or None
    steps = plan["steps"]
    best = problems
    # cut behind the step of the first failing call
    bad = problems[0][1]
    if bad is not None:
        idx = next((i for i, st in enumerate(steps) if any(c is bad or any(pc is bad for pc in c["push"]) for c in st)), len(steps) - 1)
        if idx + 1 < len(steps):
            pr = fails(steps[:idx + 1])
            if pr: steps, best = steps[:idx + 1], pr
    i = 1 if wire else 0            # over the wire the first call makes B's end of the connection known to the session
    while i < len(steps) and budget > 0 and len(steps) > 1:
        cand = steps[:i] + steps[i + 1:]
        budget -= 1
        pr = fails(cand)
        if pr: steps, best = cand, pr
        else: i += 1
    return steps, best


# ------------------------------------------------------------------------------------------------ worker

def prepare(WM, WN, specs, exe):
    """plans of all sessions + the visible values of every call (one driver batch per module)"""
    from schema_tie import driver_batch, FUEL
    from schema_proto2lean import code
    import schema_values as SV
    linesM, linesN = WM.env.driver_lines(), (WN.env.driver_lines() if WN is not WM else None)
    nM, nN = len(linesM), (len(linesN) if linesN is not None else 0)
    if linesN is None: linesN = linesM
    planned = []
    for spec in specs:
        plan = plan_session(WM, WN, spec)
        if plan is None: continue
        hdr = header_of(WM, spec)
        cs = "%d %d %d %d" % (spec["nex"], hdr, spec["pid_size"], FUEL)
        for c in all_calls(plan["steps"]):
            lines = linesM if c["w"] == "M" else linesN
            c["line"] = len(lines)
            mref = "%d %d" % (code(c["p"]["name"]), code(c["m"]["name"]))
            lines.append("visreq %s %s %s" % (cs, mref, SV.vals(c["args"])))
            lines.append("visresp %s %s %s" % (cs, mref, SV.vals(c["rets"])))
            lines.append("sresp %s %s %s" % (cs, mref, SV.vals(c["rets"])))
        planned.append((spec, plan, hdr))
    outsM = driver_batch(exe, linesM)
    outsN = outsM if linesN is linesM else driver_batch(exe, linesN)
    for outs, n in ((outsM, nM), (outsN, nN)):
        for i in range(n):
            if outs[i] != "ok": raise RuntimeError("driver rejected a schema line: %r" % outs[i])
    for spec, plan, hdr in planned:
        for c in all_calls(plan["steps"]):
            outs = outsM if c["w"] == "M" else outsN
            c["vis"] = tuple(outs[c["line"]:c["line"] + 3])
    return planned, len(linesM) + (len(linesN) if linesN is not linesM else 0)


def _task(repo, name, nrname, seed, exe, nmem, profiles, res):
    from schema_tie import driver_batch
    import schema_values as SV
    WM = W14.Worker(repo, name)
    WN = WM if nrname == name else W14.Worker(repo, nrname)
    tags = res["tags"]
    def tag(t, n=1): tags[t] = tags.get(t, 0) + n
    planned, nlines = prepare(WM, WN, sessions_of(name, nrname, seed, nmem, profiles), exe)
    res["lines"] = nlines
    mux = ["mux new 1"]
    done = []
    for spec, plan, hdr in planned:
        obs = run_session(WM, WN, spec, plan)
        if obs["expected_hdr"] != hdr:
            raise RuntimeError("header flag of the session computed before (%d) and after (%d) the run differ" % (hdr, obs["expected_hdr"]))
        problems, fine, known = verdict(WM, WN, spec, obs)
        checks = {}
        for side in "AB":
            ml = mux_lines(obs, side)
            checks[side] = (len(mux), ml)
            mux += [l for l, _ in ml]
        done.append((spec, plan, obs, problems, fine, known, checks))
    outs = driver_batch(exe, mux)
    res["lines"] += len(mux)
    nrep = {}
    for spec, plan, obs, problems, fine, known, checks in done:
        transport = spec["transport"]
        skey = "%s+%s:mixed:%s" % (name, nrname, spec["seed"])
        res["cases"] += 1 + sum(1 for _ in all_calls(plan["steps"]))
        tag("mixed:%s:handlers-B%d-A%d" % ("memory" if transport == "memory" else "wire", spec["handler_B"], spec["handler_A"]))
        if transport != "memory":
            tag("mixed-wire:%s:%s" % (transport, spec["regime"]))
            tag("wire:datagrams", obs["datagrams"]); tag("wire:faults", len(obs["faults"]))
        if known: tag("mixed:known-anydata-result", known)
        bad_model = []
        for side in "AB":
            i0, ml = checks[side]
            b = mux_compare(ml, outs[i0:i0 + len(ml)])
            bad_model += ["side %s: %s" % (side, x) for x in b]
            tag("mixed:mux-lines", len(ml))
        base = {"module": name, "one_way_module": nrname, "protocol": plan["P"]["name"], "one_way_protocol": plan["N"]["name"],
                "transport": "in-memory pair (%s sends, %s)" % (spec["sends"], "send lock" if spec["send_lock"] else "no send lock") if transport == "memory" else "PRUDP, settings profile %s, network '%s'" % (transport, spec["regime"]),
                "session": {k: v for k, v in spec.items() if k != "settings"}, "settings_of_both_ends": spec.get("settings"),
                "handler_for_one_way_protocol": {"A": bool(spec["handler_A"]), "B": bool(spec["handler_B"])},
                "ordinary_protocol_served_by": "A and B" if spec["served_by_A_too"] else "B only",
                "calls_in_order": [[{"k": c["k"], "from_to": c["dir"], "kind": {"ord": "ordinary", "stub": "ordinary, left unimplemented", "nr": "one-way"}[c["kind"]],
                                     "method": "%s.%s" % (c["p"]["name"], c["m"]["name"]), "args": _short(SV.vals(c["args"]), 1200), "returns": _short(SV.vals(c["rets"]), 1200),
                                     "implementation_first_sends": [{"k": pc["k"], "from_to": pc["dir"], "method": "%s.%s" % (pc["p"]["name"], pc["m"]["name"]), "args": _short(SV.vals(pc["args"]), 600)} for pc in c["push"]]}
                                    for c in step] for step in plan["steps"]],
                "observed": [[o.get("flow") or "not reached" for o in step] for step in obs["calls"]],
                "faults_applied_by_the_network": obs["faults"][:60],
                "how": "harness/c14_mixed.py: one connection, real generated clients / servers of both protocols on real RMCClient objects; "
                       "re-run this session with: NX_REPO=<tree> /venv/bin/python /verif/harness/c14_mixed.py <this file>"}
        vkey = "mixed-protocols:%s:%s" % (plan["N"]["name"], "memory" if transport == "memory" else transport)
        def diff(what, **more):
            nrep[vkey] = nrep.get(vkey, 0) + 1
            if nrep[vkey] <= 4:
                d = dict(base, key=skey, what=what, vkey=vkey); d.update(more); res["diffs"].append(d)
        broken = obs.get("crash") or obs.get("setup_error") or (obs.get("teardown") if not obs.get("completed") else None)
        if problems:
            tag("mixed:FAILS")
            steps, pr = plan["steps"], problems
            shrunk = False
            if nrep.get(vkey, 0) < 2:
                steps, pr = shrink(WM, WN, spec, plan, problems, 40 if transport == "memory" else 16)
                shrunk = steps is not plan["steps"]
            if not shrunk and pr[0][1] is not None:          # what follows the failing call is of no interest
                bad = pr[0][1]
                idx = next((i for i, st in enumerate(steps) if any(c is bad or any(pc is bad for pc in c["push"]) for c in st)), len(steps) - 1)
                steps = steps[:idx + 1]
            conn = "one connection (%s); %s served by %s; one-way protocol %s (id %d) handled by %s" % (
                base["transport"], plan["P"]["name"], base["ordinary_protocol_served_by"], plan["N"]["name"], plan["N"]["id"],
                " and ".join(s for s in "AB" if spec["handler_" + s]) or "neither side")
            if spec.get("call_id_counters"):
                conn += "; the connection has been in use for long: call id counters stand at %d (A), %d (B)" % tuple(spec["call_id_counters"])
            diff("%s. Failing call: %s. %s sequence of calls on the connection (%d step(s)): %s%s" % (
                conn, pr[0][2], "Smallest failing" if shrunk else "The", len(steps), sequence_text(steps, spec),
                "; %d further problem(s) in the session: %s" % (len(pr) - 1, "; ".join(x[2] for x in pr[1:3])) if len(pr) > 1 else ""),
                 problems=[x[2] for x in problems][:20], model_disagreements=bad_model[:10],
                 failing_sequence=[[shown(c, spec, 400) for c in st] for st in steps], failing_sequence_is_shrunk=shrunk,
                 size=sum(1 for _ in all_calls(steps)) + (0 if shrunk else 1000))
        elif broken or obs.get("hung") or not obs.get("completed"):
            tag("mixed:BROKEN-SESSION")
            diff("one connection (%s): the session did not run to its end (%s) after %d call(s); sequence: %s" % (
                base["transport"], broken or ("nothing happened any more while calls were outstanding" if obs.get("hung") else "timed out"),
                sum(1 for s in obs["calls"] for o in s if o.get("flow")), sequence_text(plan["steps"], spec)), traceback=obs.get("traceback"))
        elif bad_model:
            diff("mixed session on %s: every call got its own values, but the RMCClient's call matching differs from the model: %s" % (base["transport"], "; ".join(bad_model[:3])),
                 soft=True, model_disagreements=bad_model[:20])
        else:
            res["keys"].append(skey)
            for o in fine:
                c = o["c"]
                res["keys"].append("%s:call%d:%s:%s:%s" % (skey, c["k"], c["dir"], c["kind"], c["m"]["name"]))
                tag("mixed-call:%s:%s:%s" % ("memory" if transport == "memory" else "wire", c["kind"], expectation(spec, c)))
            if len(res["samples"]) < 1:
                res["samples"].append({"module": name, "one_way_module": nrname, "transport": base["transport"], "sequence": _short(sequence_text(plan["steps"], spec, 40), 600)})


if __name__ == "__main__":
    here = os.path.dirname(os.path.abspath(__file__))
    sys.path[:0] = [os.path.join(here, "..", "lib"), os.path.join(here, "..", "tools"), here]
    repo = os.environ.get("NX_REPO", "/repo")
    sys.path.insert(0, repo)
    rp = json.load(open(sys.argv[1]))
    spec = rp["session"]
    exe = os.environ.get("NXDRV", os.path.join(here, "..", "lean", ".lake", "build", "bin", "nxdrv_C14"))
    WM = W14.Worker(repo, spec["module"])
    WN = WM if spec["one_way_module"] == spec["module"] else W14.Worker(repo, spec["one_way_module"])
    planned, _ = prepare(WM, WN, [spec], exe)
    spec, plan, hdr = planned[0]
    obs = run_session(WM, WN, spec, plan)
    problems, fine, known = verdict(WM, WN, spec, obs)
    print("sequence:", sequence_text(plan["steps"], spec))
    print("flows:", [[o.get("flow") for o in step] for step in obs["calls"]])
    for p in problems: print("FAIL:", p[2])
    if obs.get("crash") or obs.get("teardown") or obs.get("hung"): print("session broke:", obs.get("crash") or obs.get("teardown") or "hung")
    print("session fails" if problems or not obs.get("completed") else "session ok (%d calls)" % len(fine))
    sys.exit(1 if problems or not obs.get("completed") else 0)
