import NxModel.Prudp.Channel
/-! the sliding window releases exactly the log, in order, once each -/
namespace Nx.Chan

variable {α : Type}

def keys (l : List (Nat × α)) : List Nat := l.map Prod.fst

theorem mem_of_lookup {k : Nat} {v : α} {l : List (Nat × α)} (h : lookup k l = some v) : (k, v) ∈ l := by
  induction l with
  | nil => simp [lookup] at h
  | cons x t ih =>
    obtain ⟨k', v'⟩ := x
    simp only [lookup] at h
    split at h
    · next heq => cases h; simp [heq]
    · exact List.mem_cons_of_mem _ (ih h)

theorem lookup_none_iff {k : Nat} {l : List (Nat × α)} : lookup k l = none ↔ k ∉ keys l := by
  induction l with
  | nil => simp [lookup, keys]
  | cons x t ih =>
    obtain ⟨k', v'⟩ := x
    simp only [lookup, keys, List.map_cons, List.mem_cons]
    split
    · next heq => simp [heq]
    · next hne =>
      rw [ih]; simp only [keys]
      constructor
      · intro h hc; cases hc with
        | inl e => exact hne e.symm
        | inr m => exact h m
      · intro h m; exact h (Or.inr m)

theorem lookup_of_mem {k : Nat} {v : α} {l : List (Nat × α)} (hnd : (keys l).Nodup) (h : (k, v) ∈ l) :
    lookup k l = some v := by
  induction l with
  | nil => cases h
  | cons x t ih =>
    obtain ⟨k', v'⟩ := x
    simp only [keys, List.map_cons, List.nodup_cons] at hnd
    simp only [lookup]
    cases List.mem_cons.mp h with
    | inl e => cases e; simp
    | inr m =>
      have : k' ≠ k := by
        intro e; subst e
        exact hnd.1 (List.mem_map.mpr ⟨(k', v), m, rfl⟩)
      simp [this]; exact ih hnd.2 m

theorem mem_erase {k : Nat} {x : Nat × α} {l : List (Nat × α)} : x ∈ erase k l ↔ x ∈ l ∧ x.1 ≠ k := by
  induction l with
  | nil => simp [erase]
  | cons y t ih =>
    obtain ⟨k', v'⟩ := y
    simp only [erase]
    split
    · next heq =>
      rw [ih]; constructor
      · rintro ⟨m, ne⟩; exact ⟨List.mem_cons_of_mem _ m, ne⟩
      · rintro ⟨m, ne⟩
        cases List.mem_cons.mp m with
        | inl e => subst e; exact absurd heq ne
        | inr m => exact ⟨m, ne⟩
    · next hne =>
      simp only [List.mem_cons, ih]
      constructor
      · rintro (e | ⟨m, ne⟩)
        · subst e; exact ⟨Or.inl rfl, hne⟩
        · exact ⟨Or.inr m, ne⟩
      · rintro ⟨e | m, ne⟩
        · exact Or.inl e
        · exact Or.inr ⟨m, ne⟩

theorem erase_length_le (k : Nat) (l : List (Nat × α)) : (erase k l).length ≤ l.length := by
  induction l with
  | nil => simp [erase]
  | cons y t ih =>
    obtain ⟨k', v'⟩ := y
    simp only [erase]; split <;> simp <;> omega

theorem erase_length_lt {k : Nat} {l : List (Nat × α)} (h : k ∈ keys l) : (erase k l).length < l.length := by
  induction l with
  | nil => simp [keys] at h
  | cons y t ih =>
    obtain ⟨k', v'⟩ := y
    simp only [erase]
    split
    · have := erase_length_le k t; simp; omega
    · next hne =>
      simp only [keys, List.map_cons, List.mem_cons] at h
      cases h with
      | inl e => exact absurd e.symm hne
      | inr m => have := ih m; simp; omega

theorem keys_erase_sublist (k : Nat) (l : List (Nat × α)) : (keys (erase k l)).Sublist (keys l) := by
  induction l with
  | nil => simp [erase, keys]
  | cons y t ih =>
    obtain ⟨k', v'⟩ := y
    simp only [erase]
    split
    · exact List.Sublist.cons _ ih
    · simp only [keys, List.map_cons]; exact List.Sublist.cons_cons _ ih

theorem nodup_erase {k : Nat} {l : List (Nat × α)} (h : (keys l).Nodup) : (keys (erase k l)).Nodup :=
  List.Nodup.sublist (keys_erase_sublist k l) h

/-- the id of the `j`-th packet of a log whose first id is `start` -/
def idOf (start j : Nat) : Nat := (start + j) % 65536

/-- weak window invariant w.r.t. the sender's log `L`: `r` packets released so far -/
structure WInv (L : List α) (start : Nat) (w : Window α) (r : Nat) : Prop where
  le : r ≤ L.length
  next : w.next = idOf start r
  nodup : (keys w.packets).Nodup
  ents : ∀ id p, (id, p) ∈ w.packets → ∃ j, r ≤ j ∧ j < r + 32768 ∧ L[j]? = some p ∧ id = idOf start j

theorem drop_take_succ (L : List α) (r n : Nat) (x : α) (h : L[r]? = some x) :
    (L.drop r).take (n + 1) = x :: (L.drop (r + 1)).take n := by
  have hr : r < L.length := by
    cases hlt : decide (r < L.length) with
    | true => exact of_decide_eq_true hlt
    | false =>
      have : L.length ≤ r := Nat.le_of_not_lt (of_decide_eq_false hlt)
      rw [List.getElem?_eq_none this] at h; cases h
  rw [List.getElem?_eq_getElem hr] at h
  cases h
  rw [List.drop_eq_getElem_cons hr, List.take_succ_cons]

theorem drain_spec (L : List α) (start : Nat) :
    ∀ (fuel : Nat) (w : Window α) (r : Nat) (acc : List α), WInv L start w r → w.packets.length ≤ fuel →
      ∃ r', r ≤ r' ∧ WInv L start (Window.drain fuel w acc).1 r' ∧
        lookup (Window.drain fuel w acc).1.next (Window.drain fuel w acc).1.packets = none ∧
        (Window.drain fuel w acc).2 = acc ++ (L.drop r).take (r' - r) := by
  intro fuel
  induction fuel with
  | zero =>
    intro w r acc hinv hlen
    have : w.packets = [] := List.eq_nil_of_length_eq_zero (by omega)
    refine ⟨r, Nat.le_refl _, ?_, ?_, ?_⟩
    · simpa [Window.drain] using hinv
    · simp [Window.drain, this, lookup]
    · simp [Window.drain]
  | succ fuel ih =>
    intro w r acc hinv hlen
    cases hl : lookup w.next w.packets with
    | none =>
      refine ⟨r, Nat.le_refl _, ?_, ?_, ?_⟩
      · simpa [Window.drain, hl] using hinv
      · simp [Window.drain, hl]
      · simp [Window.drain, hl]
    | some p =>
      have hmem := mem_of_lookup hl
      obtain ⟨j, hj1, hj2, hLj, hid⟩ := hinv.ents _ _ hmem
      have hjr : j = r := by
        have := hinv.next
        rw [this] at hid
        unfold idOf at hid
        omega
      subst hjr
      have hjlt : j < L.length := by
        cases hlt : decide (j < L.length) with
        | true => exact of_decide_eq_true hlt
        | false =>
          have : L.length ≤ j := Nat.le_of_not_lt (of_decide_eq_false hlt)
          rw [List.getElem?_eq_none this] at hLj; cases hLj
      let w' : Window α := { next := seqNext w.next, packets := erase w.next w.packets }
      have hinv' : WInv L start w' (j + 1) := by
        refine ⟨by omega, ?_, nodup_erase hinv.nodup, ?_⟩
        · show seqNext w.next = idOf start (j + 1)
          rw [hinv.next]; unfold seqNext idOf; omega
        · intro id q hq
          have hq' := mem_erase.mp hq
          obtain ⟨j', h1, h2, h3, h4⟩ := hinv.ents _ _ hq'.1
          refine ⟨j', ?_, by omega, h3, h4⟩
          have hne : id ≠ w.next := hq'.2
          rw [hinv.next, h4] at hne
          have : j' ≠ j := fun e => hne (by rw [e])
          omega
      have hlen' : w'.packets.length ≤ fuel := by
        have : w.next ∈ keys w.packets := by
          by_cases hm : w.next ∈ keys w.packets
          · exact hm
          · have := lookup_none_iff.mpr hm
            rw [hl] at this; cases this
        have := erase_length_lt this
        show (erase w.next w.packets).length ≤ fuel
        omega
      obtain ⟨r', hr', hI, hN, hA⟩ := ih w' (j + 1) (acc ++ [p]) hinv' hlen'
      refine ⟨r', by omega, ?_, ?_, ?_⟩
      · simpa [Window.drain, hl] using hI
      · simpa [Window.drain, hl] using hN
      · simp only [Window.drain, hl]
        rw [hA]
        have : r' - j = (r' - (j + 1)) + 1 := by omega
        rw [this, drop_take_succ L j _ p hLj]
        simp

/-- strong invariant: additionally the head of the window is not buffered -/
def SInv (L : List α) (start : Nat) (w : Window α) (r : Nat) : Prop :=
  WInv L start w r ∧ lookup w.next w.packets = none

theorem isDup_iff (start r i : Nat) (h1 : r < i + 32768) (h2 : i < r + 32768) :
    isDup (idOf start r) (idOf start i) = true ↔ i < r := by
  unfold isDup idOf
  simp only [decide_eq_true_eq]
  omega

/-- **the window theorem**: feeding a copy of `L[i]` (any `i` within half a window of the release point)
    releases a contiguous run `L[r .. r')` and keeps the invariant -/
theorem update_spec (L : List α) (start : Nat) (w : Window α) (r i : Nat) (p : α)
    (hinv : SInv L start w r) (hp : L[i]? = some p) (h1 : r < i + 32768) (h2 : i < r + 32768) :
    ∃ r', r ≤ r' ∧ SInv L start (w.update (idOf start i) p).1 r' ∧
      (w.update (idOf start i) p).2 = (L.drop r).take (r' - r) := by
  obtain ⟨hw, hnone⟩ := hinv
  unfold Window.update
  rw [hw.next]
  by_cases hir : i < r
  · have := (isDup_iff start r i h1 h2).mpr hir
    simp only [this, Bool.true_or, if_true]
    exact ⟨r, Nat.le_refl _, ⟨hw, hnone⟩, by simp⟩
  · have hd : isDup (idOf start r) (idOf start i) = false := by
      cases h : isDup (idOf start r) (idOf start i) with
      | false => rfl
      | true => exact absurd ((isDup_iff start r i h1 h2).mp h) hir
    simp only [hd, Bool.false_or]
    cases hl : lookup (idOf start i) w.packets with
    | some q =>
      simp only [Option.isSome_some, if_true]
      exact ⟨r, Nat.le_refl _, ⟨hw, hnone⟩, by simp⟩
    | none =>
      simp only [Option.isSome_none, Bool.false_eq_true, if_false]
      have hnotin := lookup_none_iff.mp hl
      let w' : Window α := { w with packets := w.packets ++ [(idOf start i, p)] }
      have hinv' : WInv L start w' r := by
        refine ⟨hw.le, hw.next, ?_, ?_⟩
        · show (keys (w.packets ++ [(idOf start i, p)])).Nodup
          simp only [keys, List.map_append, List.map_cons, List.map_nil]
          rw [List.nodup_append]
          refine ⟨hw.nodup, by simp, ?_⟩
          intro a ha b hb
          simp at hb; subst hb
          intro e; subst e
          exact hnotin ha
        · intro id q hq
          have hq' : (id, q) ∈ w.packets ++ [(idOf start i, p)] := hq
          rw [List.mem_append] at hq'
          cases hq' with
          | inl m => exact hw.ents _ _ m
          | inr m =>
            simp at m
            obtain ⟨e1, e2⟩ := m
            subst e1; subst e2
            exact ⟨i, by omega, h2, hp, rfl⟩
      obtain ⟨r', hr', hI, hN, hA⟩ := drain_spec L start w'.packets.length w' r [] hinv' (Nat.le_refl _)
      refine ⟨r', hr', ⟨?_, ?_⟩, ?_⟩
      · have : w.next = idOf start r := hw.next
        simpa [w', this] using hI
      · have : w.next = idOf start r := hw.next
        simpa [w', this] using hN
      · have : w.next = idOf start r := hw.next
        simpa [w', this] using hA

theorem sinv_init (L : List α) (start : Nat) (hs : start < 65536) : SInv L start { next := start, packets := [] } 0 := by
  refine ⟨⟨Nat.zero_le _, ?_, by simp [keys], ?_⟩, by simp [lookup]⟩
  · simp [idOf]; omega
  · intro id p h; cases h

end Nx.Chan

namespace Nx.Chan
variable {α : Type}

theorem lookup_append_none {k : Nat} {a b : List (Nat × α)} (h : lookup k a = none) :
    lookup k (a ++ b) = lookup k b := by
  induction a with
  | nil => rfl
  | cons x t ih =>
    obtain ⟨k', v'⟩ := x
    simp only [lookup] at h
    split at h
    · cases h
    · next hne => simp only [List.cons_append, lookup, hne, if_false]; exact ih h

theorem drain_acc_len : ∀ (fuel : Nat) (w : Window α) (acc : List α), acc.length ≤ (Window.drain fuel w acc).2.length := by
  intro fuel
  induction fuel with
  | zero => intro w acc; simp [Window.drain]
  | succ fuel ih =>
    intro w acc
    simp only [Window.drain]
    split
    · simp
    · next p _ =>
      have := ih { next := seqNext w.next, packets := erase w.next w.packets } (acc ++ [p])
      refine Nat.le_trans ?_ this
      simp

/-- progress: the packet the window is waiting for is always released when it arrives -/
theorem update_next_progress (L : List α) (start : Nat) (w : Window α) (r : Nat) (p : α)
    (hinv : SInv L start w r) : (w.update (idOf start r) p).2 ≠ [] := by
  obtain ⟨hw, hnone⟩ := hinv
  unfold Window.update
  rw [hw.next] at hnone ⊢
  have hd : isDup (idOf start r) (idOf start r) = false := by
    unfold isDup idOf; simp
  simp only [hd, hnone, Option.isSome_none, Bool.or_self, Bool.false_eq_true, if_false]
  have hlen : (w.packets ++ [(idOf start r, p)]).length = w.packets.length + 1 := by simp
  rw [hlen]
  simp only [Window.drain]
  rw [lookup_append_none hnone]
  simp only [lookup, if_true]
  intro hc
  have := drain_acc_len w.packets.length
    { next := seqNext (idOf start r), packets := erase (idOf start r) (w.packets ++ [(idOf start r, p)]) } ([] ++ [p])
  rw [hc] at this
  simp at this

end Nx.Chan
