import NxProofs.Negotiation
/-! C07: a datagram only touches the connections of its own source address; unknown ports and undecodable data
change nothing -/
namespace Nx.L1
open Nx Nx.Prudp

theorem streamLookup_set_same (k : Nat) (s : ServerStream) (l : List (Nat × ServerStream)) :
    streamLookup k (streamSet k s l) = some s := by
  induction l with
  | nil => simp [streamSet, streamLookup]
  | cons x t ih =>
    obtain ⟨k', s'⟩ := x
    by_cases h : k' = k
    · simp [streamSet, streamLookup, h]
    · simp [streamSet, streamLookup, h, ih]

theorem streamLookup_set_other (k k' : Nat) (s : ServerStream) (l : List (Nat × ServerStream)) (hne : k' ≠ k) :
    streamLookup k' (streamSet k s l) = streamLookup k' l := by
  induction l with
  | nil => simp [streamSet, streamLookup, Ne.symm hne]
  | cons x t ih =>
    obtain ⟨k2, s2⟩ := x
    by_cases h : k2 = k
    · subst h; simp [streamSet, streamLookup, Ne.symm hne]
    · by_cases h2 : k2 = k'
      · subst h2; simp [streamSet, streamLookup, h]
      · simp [streamSet, streamLookup, h, h2, ih]

/-- the connections of other addresses, as seen through the client table of one stream -/
def SameOthers (addr : Addr) (a b : ServerStream) : Prop :=
  ∀ k : ClientKey, k.1 ≠ addr → clientLookup k a.clients = clientLookup k b.clients

theorem sameOthers_refl (addr : Addr) (a : ServerStream) : SameOthers addr a a := fun _ _ => rfl

theorem sameOthers_trans {addr : Addr} {a b c : ServerStream} (h1 : SameOthers addr a b) (h2 : SameOthers addr b c) :
    SameOthers addr a c := fun k hk => (h1 k hk).trans (h2 k hk)

theorem gate_s (up : Bool) (r : SR) : (r.gate up).s = r.s := by
  unfold SR.gate; split <;> rfl

/-- one packet from `addr` leaves every connection with another remote address exactly as it was -/
theorem handle_frame (env : Env) (now : Time) (rnd : Rnd) (up : Bool) (s : ServerStream) (p : Packet) (addr : Addr) :
    SameOthers addr (s.handle env now rnd up p addr).s s := by
  intro k hk
  unfold ServerStream.handle
  by_cases h1 : p.type = TYPE_SYN ∧ (!hasAck p.flags) = true
  · rw [if_pos h1, gate_s, server_syn_stateless]
  · rw [if_neg h1]
    by_cases h2 : p.type = TYPE_CONNECT ∧ (!hasAck p.flags) = true
    · rw [if_pos h2]
      have hne : k ≠ (addr, p.sourcePort, p.sourceType) := by
        intro e; apply hk; rw [e]
      unfold ServerStream.processConnect
      simp only []
      split
      · rfl
      · split
        · rfl
        · split
          · rfl
          · cases hl : s.loginStep env now p _ _ with
            | error e => rfl
            | ok v =>
              obtain ⟨cl, resp⟩ := v
              simp only []
              split
              · simp only [clientLookup_set_other _ _ _ _ hne]
              · rfl
    · rw [if_neg h2]
      simp only []
      cases hc : clientLookup (addr, p.sourcePort, p.sourceType) s.clients with
      | none => rfl
      | some c =>
        simp only [ServerStream.liftConn]
        have hne : k ≠ (addr, p.sourcePort, p.sourceType) := by
          intro e; apply hk; rw [e]
        exact clientLookup_set_other _ _ _ _ hne

end Nx.L1

namespace Nx.L1
open Nx Nx.Prudp

/-- the connection with key `k` on the stream bound at port-table key `pk`, if any -/
def ServerT.conn (t : ServerT) (pk : Nat) (k : ClientKey) : Option Conn :=
  (streamLookup pk t.streams).bind (fun s => clientLookup k s.clients)

theorem dispatch_frame (env : Env) (now : Time) (rnd : Rnd) (addr : Addr) :
    ∀ (ps : List Packet) (t : ServerT) (pk : Nat) (k : ClientKey), k.1 ≠ addr →
      (ServerT.dispatch env now rnd addr ps t).t.conn pk k = t.conn pk k := by
  intro ps
  induction ps with
  | nil => intro t pk k _; rfl
  | cons p ps ih =>
    intro t pk k hk
    unfold ServerT.dispatch
    cases hs : streamLookup (portKey p.destPort p.destType) t.streams with
    | none => rfl
    | some s =>
      simp only []
      have step : ServerT.conn ({ t with streams := (streamSet (portKey p.destPort p.destType)
            (s.handle env now rnd (!t.isStream || t.links.contains addr) p addr).s t.streams) } : ServerT) pk k = t.conn pk k := by
        unfold ServerT.conn
        simp only []
        by_cases hpk : pk = portKey p.destPort p.destType
        · subst hpk
          rw [streamLookup_set_same, hs]
          simp only [Option.bind]
          exact handle_frame env now rnd _ s p addr k hk
        · rw [streamLookup_set_other _ _ _ _ hpk]
      split
      · exact step
      · rw [ih _ pk k hk]; exact step

/-- **frame theorem**: whatever bytes arrive from `addr` — valid, malformed, hostile — every connection whose remote
    address is not `addr`, on every virtual port, is exactly as before (state, windows, ciphers, timers, queues) -/
theorem processData_frame (env : Env) (now : Time) (rnd : Rnd) (t : ServerT) (data : Bytes) (addr : Addr)
    (pk : Nat) (k : ClientKey) (hk : k.1 ≠ addr) :
    (t.processData env now rnd data addr).t.conn pk k = t.conn pk k := by
  unfold ServerT.processData
  simp only []
  cases (decode env.cfg (if t.isStream = true then bufLookup addr t.liteBufs else t.liteBuf) data).1 with
  | error e => cases t.isStream <;> rfl
  | ok ps =>
    simp only []
    rw [dispatch_frame env now rnd addr ps _ pk k hk]
    cases t.isStream <;> rfl

/-- data that does not decode changes no stream at all (only the reassembly buffer of stream transports) -/
theorem processData_undecodable (env : Env) (now : Time) (rnd : Rnd) (t : ServerT) (data : Bytes) (addr : Addr) (e : Err)
    (h : (decode env.cfg (if t.isStream = true then bufLookup addr t.liteBufs else t.liteBuf) data).1 = .error e) :
    (t.processData env now rnd data addr).t.streams = t.streams ∧ (t.processData env now rnd data addr).outs = [] := by
  unfold ServerT.processData
  simp only [h]
  cases t.isStream <;> simp

/-- a packet for a port that is not bound creates nothing: the transport's streams are unchanged and nothing is sent -/
theorem dispatch_unknown_port (env : Env) (now : Time) (rnd : Rnd) (addr : Addr) (p : Packet) (ps : List Packet) (t : ServerT)
    (h : streamLookup (portKey p.destPort p.destType) t.streams = none) :
    (ServerT.dispatch env now rnd addr (p :: ps) t).t = t ∧ (ServerT.dispatch env now rnd addr (p :: ps) t).outs = [] ∧
    (ServerT.dispatch env now rnd addr (p :: ps) t).err = some .value := by
  unfold ServerT.dispatch
  simp only [h]
  exact ⟨trivial, trivial, trivial⟩

theorem bufLookup_set_other (a a' : Addr) (b : Bytes) (l : List (Addr × Bytes)) (hne : a' ≠ a) :
    bufLookup a' (bufSet a b l) = bufLookup a' l := by
  induction l with
  | nil => simp [bufSet, bufLookup, Ne.symm hne]
  | cons x t ih =>
    obtain ⟨a2, b2⟩ := x
    by_cases h : a2 = a
    · subst h; simp [bufSet, bufLookup, Ne.symm hne]
    · by_cases h2 : a2 = a'
      · subst h2; simp [bufSet, bufLookup, h]
      · simp [bufSet, bufLookup, h, h2, ih]

theorem dispatch_liteBufs (env : Env) (now : Time) (rnd : Rnd) (addr : Addr) :
    ∀ (ps : List Packet) (t' : ServerT), (ServerT.dispatch env now rnd addr ps t').t.liteBufs = t'.liteBufs := by
  intro ps
  induction ps with
  | nil => intro t'; rfl
  | cons p ps ih =>
    intro t'
    unfold ServerT.dispatch
    cases streamLookup (portKey p.destPort p.destType) t'.streams with
    | none => rfl
    | some s =>
      simp only []
      split
      · rfl
      · rw [ih]

/-- stream transports: the bytes one stream connection sends never touch the reassembly buffer of another
    (with the single shared buffer of the original code this was false: DESIGN §6 D4) -/
theorem processData_frame_buffers (env : Env) (now : Time) (rnd : Rnd) (t : ServerT) (data : Bytes) (addr other : Addr)
    (hs : t.isStream = true) (hne : other ≠ addr) :
    bufLookup other (t.processData env now rnd data addr).t.liteBufs = bufLookup other t.liteBufs := by
  unfold ServerT.processData
  simp only [hs, if_true]
  cases (decode env.cfg (bufLookup addr t.liteBufs) data).1 with
  | error e => exact bufLookup_set_other _ _ _ _ hne
  | ok ps =>
    simp only []
    rw [dispatch_liteBufs]
    exact bufLookup_set_other _ _ _ _ hne

end Nx.L1
