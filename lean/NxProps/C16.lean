import NxProofs.NexKerberos
/-!
# C16 — Kerberos tickets round-trip, authenticate, and keys derive per specification

Model: `NxModel/Nex/Kerberos.lean` over the Lean MD5 / HMAC-MD5 / RC4 references (`NxModel/Crypto/Md5.lean`,
validated against RFC vectors and the repository's known-answer vectors in the driver self-test).
Statements only; proofs in `NxProofs/NexKerberos.lean`.

What is a theorem: round trips for every key / size / width / version; *accepted ⇒ tag = HMAC(key, body)*
(check-before-decrypt), rejection of everything whose tag is not that HMAC and of everything shorter than
a tag; layouts; derivations equal the reference iteration.
What is NOT a theorem (cryptographic assumption, stated in the manifest, never a hypothesis here): that an
altered ciphertext or another key cannot satisfy `tag = HMAC(key, body)`. The harness samples every
single-bit flip / truncation. `wrong_key_accepted_counterexample` shows the one systematic exception
(HMAC's zero padding of short keys).
-/
namespace Nx.C16
open Nx Nx.Nex Nx.Nex.Kerberos Nx.Crypto

/-- RC4 with the same key twice is the identity (for every key and every data) -/
theorem rc4_involution (key x : Bytes) : rc4 key (rc4 key x) = x := Kerberos.rc4_involution key x

/-- `decrypt k (encrypt k x) = x` for every key the cipher accepts (1..256 bytes) and every data -/
theorem kerb_roundtrip (key data b : Bytes) (h : Kerberos.encrypt key data = .ok b) : Kerberos.decrypt key b = .ok data :=
  decrypt_encrypt key data b h

theorem kerb_encrypt_defined_iff (key data : Bytes) :
    (∃ b, Kerberos.encrypt key data = .ok b) ↔ (1 ≤ key.length ∧ key.length ≤ 256) := encrypt_ok_iff key data

/-- whatever is accepted carries the HMAC-MD5 of its body under the key, is at least a tag long, and decrypts to the RC4 image of the body -/
theorem kerb_accept_implies_mac (key b x : Bytes) (h : Kerberos.decrypt key b = .ok x) :
    tag b = hmacMd5 key (body b) ∧ 16 ≤ b.length ∧ x = rc4 key (body b) := decrypt_ok_implies_mac key b x h

/-- a buffer whose last 16 bytes are not the HMAC of the rest is rejected with ValueError, before the cipher is touched -/
theorem kerb_reject_bad_mac (key b : Bytes) (h : tag b ≠ hmacMd5 key (body b)) : Kerberos.decrypt key b = .error .value :=
  decrypt_rejects key b h

/-- every truncation below the tag size is rejected -/
theorem kerb_reject_short (key b : Bytes) (h : b.length < 16) : Kerberos.decrypt key b = .error .value := decrypt_short key b h

/-- the ciphertext is `RC4(key, data) ‖ HMAC-MD5(key, RC4(key, data))` -/
theorem kerb_envelope_layout (key data : Bytes) (hk : 1 ≤ key.length ∧ key.length ≤ 256) :
    Kerberos.encrypt key data = .ok (rc4 key data ++ hmacMd5 key (rc4 key data)) := by
  unfold Kerberos.encrypt rc4KeyOk
  simp [hk.1, hk.2]

/-- "decryption under any other key is rejected" does NOT hold literally: keys that differ by a trailing zero
byte (up to 64 bytes) have the same HMAC, so the check passes (the plaintext is then garbage) -/
theorem wrong_key_accepted_counterexample (key data b : Bytes) (hk : 1 ≤ key.length) (h64 : key.length < 64)
    (h : Kerberos.encrypt key data = .ok b) : key ++ [0] ≠ key ∧ ∃ x, Kerberos.decrypt (key ++ [0]) b = .ok x :=
  ⟨by intro e; have := congrArg List.length e; simp at this, wrong_key_accepted key data b hk h64 h⟩

/-- client tickets: every key size, pid width, key, field values (the writer fails only on a wrong session-key size / out-of-range pid / oversized buffer) -/
theorem client_ticket_roundtrip (c : Cfg) (key : Bytes) (t : ClientTicket) (b : Bytes)
    (h : ClientTicket.encrypt c key t = .ok b) : ClientTicket.decrypt c key b = .ok t :=
  clientTicket_roundtrip c key t b h

/-- server tickets: every key size, pid width, ticket version 0/1 and every per-ticket randomness -/
theorem server_ticket_roundtrip (c : Cfg) (key ticketKey : Bytes) (t : ServerTicket) (b : Bytes)
    (h : ServerTicket.encrypt c key ticketKey t = .ok b) : ServerTicket.decrypt c key b = .ok t :=
  serverTicket_roundtrip c key ticketKey t b h

/-- version 1: `buffer(ticketKey) ‖ buffer(envelope under md5(key ‖ ticketKey))` -/
theorem v1_key_def (c : Cfg) (key ticketKey : Bytes) (t : ServerTicket) (b : Bytes)
    (hv : c.ticketVersion = 1) (h : ServerTicket.encrypt c key ticketKey t = .ok b) :
    ∃ d e, serverPlain c t = .ok d ∧ Kerberos.encrypt (md5 (key ++ ticketKey)) d = .ok e ∧
      b = u32le ticketKey.length ++ ticketKey ++ (u32le e.length ++ e) :=
  serverTicket_v1_layout c key ticketKey t b hv h

/-- size guards -/
theorem size_guard_encrypt (c : Cfg) (key : Bytes) (t : ClientTicket) (h : c.keySize ≠ t.sessionKey.length) :
    ClientTicket.encrypt c key t = .error .value := client_size_guard c key t h

theorem size_guard_decrypt (c : Cfg) (key data : Bytes) (t : ClientTicket)
    (h : ClientTicket.decrypt c key data = .ok t) : t.sessionKey.length = c.keySize := decrypted_sessionKey_size c key data t h

/-- old scheme: `md5^(base + pid mod pidCount)(password)` -/
theorem derive_old_def (base pidc : Nat) (pw : Bytes) (pid : Nat) (h : 0 < pidc) :
    deriveOld base pidc pw pid = .ok (md5Pow (base + pid % pidc) pw) := deriveOld_def base pidc pw pid h

/-- new scheme: `md5^pidCount(md5^base(password) ‖ u64le pid)` -/
theorem derive_new_def (base pidc : Nat) (pw : Bytes) (pid : Nat) (h : pid < 18446744073709551616) :
    deriveNew base pidc pw pid = .ok (md5Pow pidc (md5Pow base pw ++ u64le pid)) := deriveNew_def base pidc pw pid h

theorem derive_old_is_a_digest (base pidc : Nat) (pw : Bytes) (pid : Nat) (k : Bytes) (hb : 0 < base)
    (h : deriveOld base pidc pw pid = .ok k) : k.length = 16 := derive_length_old base pidc pw pid k hb h

/-! non-vacuity -/
example : ∃ b, Kerberos.encrypt [107, 101, 121] [1, 2, 3] = .ok b := (kerb_encrypt_defined_iff _ _).mpr (by decide)
example : ∃ b, ClientTicket.encrypt ⟨2, 4, 0⟩ [107] ⟨[1, 2], 7, [9]⟩ = .ok b := ⟨_, rfl⟩
example : ∃ b, ServerTicket.encrypt ⟨2, 8, 1⟩ [107] [5, 5] ⟨123, 7, [1, 2]⟩ = .ok b := ⟨_, rfl⟩
example : ClientTicket.encrypt ⟨16, 4, 0⟩ [107] ⟨[1, 2], 7, [9]⟩ = .error .value := by decide

end Nx.C16
