import NxModel.Nex.Backend
/-! decision-logic lemmas about `Backend.plan`, stage by stage -/
namespace Nx.Backend
open Nx Nx.Crypto

attribute [local irreducible] deriveKey clientTicketDecrypt kerbDecrypt fromHexStrict

theorem firstCall_old (cfg : Cfg) (a : Args) (h : cfg.nexVersion < 40000) :
    firstCall cfg a = if a.authInfo then .loginEx a.username else .login a.username := by
  simp [firstCall, h]

theorem firstCall_switch (cfg : Cfg) (a : Args) (h1 : 40000 ≤ cfg.nexVersion) (h2 : cfg.nexVersion < 40400) :
    firstCall cfg a = if a.authInfo then .validateAndRequestTicketWithCustomData a.username
                      else .validateAndRequestTicket a.username := by
  simp [firstCall, Nat.not_lt.mpr h1, h2]

theorem firstCall_param (cfg : Cfg) (a : Args) (h : 40400 ≤ cfg.nexVersion) :
    firstCall cfg a = .validateAndRequestTicketWithParam a.username a.authInfo cfg.nexVersion cfg.clientVersion := by
  have h1 : ¬ cfg.nexVersion < 40000 := by omega
  have h2 : ¬ cfg.nexVersion < 40400 := by omega
  simp [firstCall, h1, h2]

theorem target_placeholder (cfg : Cfg) (st : Station) (h : st.address = "0.0.0.1") :
    target cfg st = (cfg.authHost, cfg.authPort) := by simp [target, h]

theorem target_real (cfg : Cfg) (st : Station) (h : st.address ≠ "0.0.0.1") :
    target cfg st = (st.address, st.port) := by simp [target, h]

/-! ### which key -/

/-- the decoded `source_key` the login path sees (`[]` when the path has no such field) -/
def sourceKeyOf (cfg : Cfg) (a : Args) (r : AuthResp) : Option Bytes :=
  if readsSourceKey cfg a then fromHexStrict r.sourceKey else some []

theorem chooseKey_source (cfg : Cfg) (a : Args) (r : AuthResp) (sk : Bytes)
    (h : sourceKeyOf cfg a r = some sk) (hne : sk ≠ []) : chooseKey cfg a r = .ok (.source sk, sk) := by
  unfold sourceKeyOf at h
  unfold chooseKey
  have hne' : sk.isEmpty = false := by cases sk <;> simp_all
  by_cases hr : readsSourceKey cfg a = true
  · simp only [hr, if_true] at h ⊢; simp [h, hne']
  · simp only [hr] at h; simp at h; exact absurd h (by simpa [eq_comm] using hne)

theorem chooseKey_derive (cfg : Cfg) (a : Args) (r : AuthResp) (h : sourceKeyOf cfg a r = some []) :
    chooseKey cfg a r =
      match a.password with
      | none => .error (.exc .value)
      | some pw =>
        match deriveKey cfg.keyDerivation pw r.pid with
        | .ok k => .ok (.derived cfg.keyDerivation r.pid k, k)
        | .error e => .error (.exc e) := by
  unfold sourceKeyOf at h
  unfold chooseKey
  by_cases hr : readsSourceKey cfg a = true
  · simp only [hr, if_true] at h ⊢; simp only [h, List.isEmpty_nil, Bool.not_true, Bool.false_eq_true, if_false]
    cases a.password with
    | none => rfl
    | some pw => simp only []; cases deriveKey cfg.keyDerivation pw r.pid <;> rfl
  · simp only [hr, Bool.false_eq_true, if_false, List.isEmpty_nil, Bool.not_true]
    cases a.password with
    | none => rfl
    | some pw => simp only []; cases deriveKey cfg.keyDerivation pw r.pid <;> rfl

theorem chooseKey_badhex (cfg : Cfg) (a : Args) (r : AuthResp) (h : sourceKeyOf cfg a r = none) :
    chooseKey cfg a r = .error (.exc .value) := by
  unfold sourceKeyOf at h
  unfold chooseKey
  by_cases hr : readsSourceKey cfg a = true
  · simp only [hr, if_true] at h ⊢; simp [h]
  · simp [hr] at h

/-- inversion: a key is chosen only in these two ways -/
theorem chooseKey_ok_inv (cfg : Cfg) (a : Args) (r : AuthResp) (ku : KeyUse) (key : Bytes)
    (h : chooseKey cfg a r = .ok (ku, key)) :
    (∃ sk, sourceKeyOf cfg a r = some sk ∧ sk ≠ [] ∧ ku = .source sk ∧ key = sk) ∨
    (∃ pw, sourceKeyOf cfg a r = some [] ∧ a.password = some pw ∧
       deriveKey cfg.keyDerivation pw r.pid = .ok key ∧ ku = .derived cfg.keyDerivation r.pid key) := by
  cases hs : sourceKeyOf cfg a r with
  | none => rw [chooseKey_badhex cfg a r hs] at h; cases h
  | some sk =>
    by_cases hne : sk = []
    · subst hne
      rw [chooseKey_derive cfg a r hs] at h
      cases hp : a.password with
      | none => simp [hp] at h
      | some pw =>
        cases hd : deriveKey cfg.keyDerivation pw r.pid with
        | error e => simp [hp, hd] at h
        | ok k =>
          simp only [hp, hd] at h
          injection h with h; injection h with h1 h2
          subst h2
          exact Or.inr ⟨pw, rfl, rfl, hd, h1.symm⟩
    · rw [chooseKey_source cfg a r sk hs hne] at h
      injection h with h; injection h with h1 h2
      exact Or.inl ⟨sk, rfl, hne, h1.symm, h2.symm⟩

/-! ### the second ticket -/

theorem afterTicket_direct (cfg : Cfg) (r : AuthResp) (second : Reply TicketResp) (c1 : Call) (ku : KeyUse)
    (key : Bytes) (t : ClientTicket) (h : t.target = r.station.pid) :
    afterTicket cfg r second c1 ku key t = finish cfg r ku [c1] t := by
  simp [afterTicket, h]

theorem afterTicket_calls (cfg : Cfg) (r : AuthResp) (second : Reply TicketResp) (c1 : Call) (ku : KeyUse)
    (key : Bytes) (t : ClientTicket) :
    (afterTicket cfg r second c1 ku key t).calls =
      if t.target ≠ r.station.pid then [c1, .requestTicket r.pid r.station.pid] else [c1] := by
  unfold afterTicket
  split
  · simp only []
    split
    · rfl
    · split
      · rfl
      · split <;> rfl
  · rfl

theorem afterTicket_ok_inv (cfg : Cfg) (r : AuthResp) (second : Reply TicketResp) (c1 : Call) (ku : KeyUse)
    (key : Bytes) (t : ClientTicket) (c : Connect) (h : (afterTicket cfg r second c1 ku key t).outcome = .ok c) :
    ∃ tf, c = ⟨(target cfg r.station).1, (target cfg r.station).2, r.station.sid, r.pid, r.station.cid, tf⟩ ∧
      ((t.target = r.station.pid ∧ tf = t) ∨
       (t.target ≠ r.station.pid ∧ ∃ r2, second = .resp r2 ∧ isError r2.result = false ∧
          clientTicketDecrypt cfg.keySize cfg.pidSize r2.ticket key = .ok tf)) := by
  unfold afterTicket at h
  by_cases htg : t.target ≠ r.station.pid
  · rw [if_pos htg] at h
    cases second with
    | fail code => simp at h
    | resp r2 =>
      simp only [] at h
      by_cases he : isError r2.result = true
      · simp [he] at h
      · simp only [he] at h
        cases hd : clientTicketDecrypt cfg.keySize cfg.pidSize r2.ticket key with
        | error e => simp [hd] at h
        | ok t2 =>
          simp only [hd, finish] at h
          injection h with h
          exact ⟨t2, h.symm, Or.inr ⟨htg, r2, rfl, by simpa using he, hd⟩⟩
  · rw [if_neg htg] at h
    simp only [finish] at h
    injection h with h
    exact ⟨t, h.symm, Or.inl ⟨by simpa using htg, rfl⟩⟩

/-! ### the whole plan -/

theorem plan_calls_head (cfg : Cfg) (a : Args) (s : Script) : (plan cfg a s).calls.head? = some (firstCall cfg a) := by
  unfold plan
  split
  · rfl
  · split
    · rfl
    · split
      · rfl
      · unfold afterKey
        split
        · rfl
        · rw [afterTicket_calls]; split <;> rfl

theorem plan_first_fail (cfg : Cfg) (a : Args) (s : Script) (code : Nat) (h : s.first = .fail code) :
    plan cfg a s = ⟨[firstCall cfg a], .none, .error (.rmc code)⟩ := by
  simp [plan, h]

theorem plan_error_result (cfg : Cfg) (a : Args) (s : Script) (r : AuthResp) (h : s.first = .resp r)
    (hc : checksResult cfg = true) (he : isError r.result = true) :
    plan cfg a s = ⟨[firstCall cfg a], .none, .error (.rmc r.result)⟩ := by
  simp [plan, h, hc, he]

theorem plan_key_fail (cfg : Cfg) (a : Args) (s : Script) (r : AuthResp) (f : Fail) (h : s.first = .resp r)
    (hc : ¬ (checksResult cfg = true ∧ isError r.result = true)) (hk : chooseKey cfg a r = .error f) :
    plan cfg a s = ⟨[firstCall cfg a], .none, .error f⟩ := by
  have : (checksResult cfg && isError r.result) = false := by
    cases h1 : checksResult cfg
    · rfl
    · cases h2 : isError r.result
      · rfl
      · exact absurd ⟨h1, h2⟩ hc
  simp [plan, h, this, hk]

theorem plan_through (cfg : Cfg) (a : Args) (s : Script) (r : AuthResp) (ku : KeyUse) (key : Bytes) (t : ClientTicket)
    (h : s.first = .resp r) (hc : ¬ (checksResult cfg = true ∧ isError r.result = true))
    (hk : chooseKey cfg a r = .ok (ku, key))
    (hd : clientTicketDecrypt cfg.keySize cfg.pidSize r.ticket key = .ok t) :
    plan cfg a s = afterTicket cfg r s.second (firstCall cfg a) ku key t := by
  have : (checksResult cfg && isError r.result) = false := by
    cases h1 : checksResult cfg
    · rfl
    · cases h2 : isError r.result
      · rfl
      · exact absurd ⟨h1, h2⟩ hc
  unfold plan
  rw [h]
  simp only [this, Bool.false_eq_true, if_false]
  rw [hk]
  show afterKey cfg r s.second (firstCall cfg a) ku key = _
  unfold afterKey
  rw [hd]

theorem plan_decrypt_fail (cfg : Cfg) (a : Args) (s : Script) (r : AuthResp) (ku : KeyUse) (key : Bytes) (e : Err)
    (h : s.first = .resp r) (hc : ¬ (checksResult cfg = true ∧ isError r.result = true))
    (hk : chooseKey cfg a r = .ok (ku, key))
    (hd : clientTicketDecrypt cfg.keySize cfg.pidSize r.ticket key = .error e) :
    plan cfg a s = ⟨[firstCall cfg a], ku, .error (.exc e)⟩ := by
  have : (checksResult cfg && isError r.result) = false := by
    cases h1 : checksResult cfg
    · rfl
    · cases h2 : isError r.result
      · rfl
      · exact absurd ⟨h1, h2⟩ hc
  unfold plan
  rw [h]
  simp only [this, Bool.false_eq_true, if_false]
  rw [hk]
  show afterKey cfg r s.second (firstCall cfg a) ku key = _
  unfold afterKey
  rw [hd]

theorem afterTicket_key (cfg : Cfg) (r : AuthResp) (second : Reply TicketResp) (c1 : Call) (ku : KeyUse)
    (key : Bytes) (t : ClientTicket) : (afterTicket cfg r second c1 ku key t).key = ku := by
  unfold afterTicket
  split
  · simp only []
    split
    · rfl
    · split
      · rfl
      · split <;> rfl
  · rfl

/-- **inversion of `plan`**: a plan that ends in a connection went through every gate -/
theorem plan_connect_inv (cfg : Cfg) (a : Args) (s : Script) (c : Connect) (h : (plan cfg a s).outcome = .ok c) :
    ∃ r ku key t tf, s.first = .resp r ∧ ¬ (checksResult cfg = true ∧ isError r.result = true) ∧
      chooseKey cfg a r = .ok (ku, key) ∧ (plan cfg a s).key = ku ∧
      clientTicketDecrypt cfg.keySize cfg.pidSize r.ticket key = .ok t ∧
      c = ⟨(target cfg r.station).1, (target cfg r.station).2, r.station.sid, r.pid, r.station.cid, tf⟩ ∧
      (plan cfg a s).calls = (if t.target ≠ r.station.pid then [firstCall cfg a, .requestTicket r.pid r.station.pid]
                              else [firstCall cfg a]) ∧
      ((t.target = r.station.pid ∧ tf = t) ∨
       (t.target ≠ r.station.pid ∧ ∃ r2, s.second = .resp r2 ∧ isError r2.result = false ∧
          clientTicketDecrypt cfg.keySize cfg.pidSize r2.ticket key = .ok tf)) := by
  cases hf : s.first with
  | fail code => rw [plan_first_fail cfg a s code hf] at h; cases h
  | resp r =>
    by_cases hres : checksResult cfg = true ∧ isError r.result = true
    · rw [plan_error_result cfg a s r hf hres.1 hres.2] at h; cases h
    · cases hk : chooseKey cfg a r with
      | error f => rw [plan_key_fail cfg a s r f hf hres hk] at h; cases h
      | ok p =>
        obtain ⟨ku, key⟩ := p
        cases hd : clientTicketDecrypt cfg.keySize cfg.pidSize r.ticket key with
        | error e => rw [plan_decrypt_fail cfg a s r ku key e hf hres hk hd] at h; cases h
        | ok t =>
          have hp := plan_through cfg a s r ku key t hf hres hk hd
          rw [hp] at h ⊢
          obtain ⟨tf, hc, hcase⟩ := afterTicket_ok_inv cfg r s.second _ ku key t c h
          exact ⟨r, ku, key, t, tf, rfl, hres, hk, afterTicket_key .., hd, hc, afterTicket_calls .., hcase⟩

/-! ### sequences of logins through one client object -/

theorem login_client_unchanged (c : Client) (st : Step) : (c.login st).1 = c := rfl

theorem session_eq_map (c : Client) (steps : List Step) :
    session c steps = steps.map (fun st => plan c.cfg st.args st.script) := by
  induction steps with
  | nil => rfl
  | cons st rest ih => simp [session, Client.login, ih]

theorem session_length (c : Client) (steps : List Step) : (session c steps).length = steps.length := by
  simp [session_eq_map]

theorem session_getElem? (c : Client) (steps : List Step) (k : Nat) :
    (session c steps)[k]? = steps[k]?.map (fun st => plan c.cfg st.args st.script) := by
  simp [session_eq_map]

theorem session_append (c : Client) (pre post : List Step) :
    session c (pre ++ post) = session c pre ++ session c post := by
  simp [session_eq_map]

theorem session_after_prefix (c : Client) (pre : List Step) (st : Step) :
    (session c (pre ++ [st]))[pre.length]? = some (plan c.cfg st.args st.script) := by
  simp [session_eq_map]

theorem session_step_alone (c : Client) (steps : List Step) (k : Nat) :
    ((session c steps)[k]?).map (fun p => [p]) = steps[k]?.map (fun st => session c [st]) := by
  rw [session_getElem?]; cases steps[k]? <;> simp [session, Client.login]

theorem session_connect_own (cl : Client) (steps : List Step) (k : Nat) (p : Plan) (c : Connect)
    (hp : (session cl steps)[k]? = some p) (h : p.outcome = .ok c) :
    ∃ st r, steps[k]? = some st ∧ p = plan cl.cfg st.args st.script ∧ st.script.first = .resp r ∧ c.pid = r.pid := by
  rw [session_getElem?] at hp
  cases hs : steps[k]? with
  | none => simp [hs] at hp
  | some st =>
    simp [hs] at hp
    subst hp
    obtain ⟨r, ku, key, t, tf, hf, _, _, _, _, hc, _⟩ := plan_connect_inv cl.cfg st.args st.script c h
    exact ⟨st, r, rfl, rfl, hf, by simp [hc]⟩

end Nx.Backend
