import NxModel.Prudp.Sig
/-!
# Payload transformation and connection request — verif-side reference for C08
(`PayloadEncoder`, `ZlibCompression`, `RC4Encryption`, prudp.py 537-658; `build_connection_request`,
`check_connection_response`, `process_login_request` response, prudp.py 946-973 / 1344-1369; `KerberosEncryption`)

zlib's deflate cannot be reproduced byte for byte: the compressor's output (for `encode`) and the inflater's output
(for `decode`) are *oracle inputs*; the framing (ratio byte, zero byte = stored) is computed here.
-/
namespace Nx.Prudp
open Nx Nx.Crypto

/-! ## keys -/

def DEFAULT_KEY : Bytes := [0x43, 0x44, 0x26, 0x4D, 0x4C]   -- b"CD&ML"

/-- `modify_key`: the first half of the key gets `len/2 + 1 - i` added to byte `i` -/
def modifyKeyAux (add : Nat) : Nat → Nat → Bytes → Bytes
  | _, _, [] => []
  | half, i, x :: r =>
    (if i < half then b8 (x.toNat + add - i) else x) :: modifyKeyAux add half (i + 1) r

def modifyKey (key : Bytes) : Bytes := modifyKeyAux (key.length / 2 + 1) (key.length / 2) 0 key

/-- `modify_key` applied `n` times (closed form of the chain, for the theorems) -/
def modifyKeyN : Nat → Bytes → Bytes
  | 0, k => k
  | n + 1, k => modifyKeyN n (modifyKey k)

/-- the loop of `set_session_key`: keys of substreams 1..n given the key of substream 0 -/
def substreamKeysFrom : Nat → Bytes → List Bytes
  | 0, _ => []
  | n + 1, k => modifyKey k :: substreamKeysFrom n (modifyKey k)

/-- keys of substreams 0..maxSubstream -/
def substreamKeys (key : Bytes) (maxSubstream : Nat) : List Bytes := key :: substreamKeysFrom maxSubstream key

def UNRELIABLE_SALT1 : Bytes := [0x18, 0xd8, 0x23, 0x34, 0x37, 0xe4, 0xe3, 0xfe]
def UNRELIABLE_SALT2 : Bytes := [0x23, 0x3e, 0x60, 0x01, 0x23, 0xcd, 0xab, 0x80]

/-- `init_unreliable_key` -/
def initUnreliableKey (key : Bytes) : Bytes := md5 (key ++ UNRELIABLE_SALT1) ++ md5 (key ++ UNRELIABLE_SALT2)

/-- `key[i] = (key[i] + v) & 0xFF` (IndexError when the key is too short is not modelled: the key is always 32 bytes) -/
def addAt (key : Bytes) (i v : Nat) : Bytes :=
  match key[i]? with
  | some x => key.set i (b8 (x.toNat + v))
  | none => key

/-- `make_unreliable_key` -/
def makeUnreliableKey (ukey : Bytes) (packetId sessionId : Nat) : Bytes :=
  addAt (addAt (addAt ukey 0 packetId) 1 (packetId / 256)) 31 sessionId

/-! ## zlib framing -/

/-- `ZlibCompression.compress` given `z = zlib.compress(data)`; `bytes([ratio])` raises ValueError above 255 -/
def compressFrame (data z : Bytes) : Except Err Bytes :=
  let ratio := data.length / z.length + 1
  if z.length = 0 then .error .other          -- ZeroDivisionError: zlib never returns an empty string
  else if ratio ≥ 256 then .error .value
  else .ok (u8 ratio ++ z)

/-- `ZlibCompression.decompress` given `inflated = zlib.decompress(data[1:])` (`none` = zlib.error).
    The ratio-mismatch branch of the code builds its message with `"%i … %i" %ratio, data[0]`, which raises
    TypeError (not enough arguments for format string) instead of the intended ValueError. -/
def decompressFrame (data : Bytes) (inflated : Option Bytes) : Except Err Bytes :=
  match data with
  | [] => .error .index
  | r :: body =>
    if r.toNat = 0 then .ok body
    else
      match inflated with
      | none => .error .other
      | some dec =>
        if body.length = 0 then .error .other
        else if dec.length / body.length + 1 ≠ r.toNat then .error .type
        else .ok dec

/-! ## RC4 with a running position, per substream -/

/-- `ARC4.new(key)`: pycryptodome rejects keys outside 1..256 bytes -/
def rc4New (key : Bytes) : Except Err Rc4 :=
  if key.length = 0 ∨ key.length > 256 then .error .value else .ok (rc4Ksa key)

structure PayState where
  rc4 : Bool                    -- `prudp.transport == UDP` (RC4Encryption) or DummyEncryption
  zlib : Bool                   -- `prudp.compression != COMPRESSION_NONE`
  enc : List Rc4                -- reliable_encryption[i].rc4enc
  dec : List Rc4                -- reliable_encryption[i].rc4dec
  unreliableKey : Bytes

/-- `PayloadEncoder(settings)` -/
def PayState.init (transport compression maxSubstream : Nat) : PayState :=
  let k := rc4Ksa DEFAULT_KEY
  { rc4 := transport = TRANSPORT_UDP, zlib := compression ≠ 0,
    enc := List.replicate (maxSubstream + 1) k, dec := List.replicate (maxSubstream + 1) k,
    unreliableKey := List.replicate 0x20 0 }

/-- `set_session_key`. With RC4 an empty (or > 256 byte) key raises ValueError before anything is changed. -/
def PayState.setSessionKey (s : PayState) (key : Bytes) : Except Err PayState :=
  if s.rc4 then
    match rc4New key with
    | .error e => .error e
    | .ok _ =>
      let ks := (substreamKeys key (s.enc.length - 1)).map rc4Ksa
      .ok { s with enc := ks, dec := ks, unreliableKey := initUnreliableKey key }
  else .ok { s with unreliableKey := initUnreliableKey key }

/-- `PayloadEncoder.encode(packet)`; `z` = `zlib.compress(packet.payload)` (ignored unless compression is on) -/
def PayState.encode (s : PayState) (type flags substream packetId sessionId : Nat) (payload z : Bytes) :
    Except Err Bytes × PayState :=
  if type = TYPE_DATA ∧ !payload.isEmpty then
    match (if s.zlib then compressFrame payload z else .ok payload) with
    | .error e => (.error e, s)
    | .ok data =>
      if hasReliable flags then
        if !s.rc4 then
          if substream < s.enc.length then (.ok data, s) else (.error .index, s)
        else
          match s.enc[substream]? with
          | none => (.error .index, s)
          | some st =>
            let (out, st') := rc4Apply st data
            (.ok out, { s with enc := s.enc.set substream st' })
      else if !s.rc4 then (.ok data, s)
      else (.ok (Crypto.rc4 (makeUnreliableKey s.unreliableKey packetId sessionId) data), s)
  else (.ok payload, s)

/-- `PayloadEncoder.decode(packet)`; `inflate` maps the decrypted body to `zlib.decompress` of it -/
def PayState.decode (s : PayState) (type flags substream packetId sessionId : Nat) (payload : Bytes)
    (inflate : Bytes → Option Bytes) : Except Err Bytes × PayState :=
  if type = TYPE_DATA ∧ !payload.isEmpty then
    let (r, s') : Except Err Bytes × PayState :=
      if hasReliable flags then
        if !s.rc4 then
          if substream < s.dec.length then (.ok payload, s) else (.error .index, s)
        else
          match s.dec[substream]? with
          | none => (.error .index, s)
          | some st =>
            let (out, st') := rc4Apply st payload
            (.ok out, { s with dec := s.dec.set substream st' })
      else if !s.rc4 then (.ok payload, s)
      else (.ok (Crypto.rc4 (makeUnreliableKey s.unreliableKey packetId sessionId) payload), s)
    match r with
    | .error e => (.error e, s')
    | .ok data =>
      if s.zlib then (decompressFrame data (inflate (data.drop 1)), s') else (.ok data, s')
  else (.ok payload, s)

/-! ## Kerberos envelope and the connection request / response -/

/-- `KerberosEncryption(key).encrypt(buffer)`: RC4 then HMAC-MD5 over the ciphertext -/
def kerbEncrypt (key data : Bytes) : Except Err Bytes :=
  match rc4New key with
  | .error e => .error e
  | .ok st =>
    let enc := (rc4Apply st data).1
    .ok (enc ++ hmacMd5 key enc)

/-- `KerberosEncryption(key).decrypt(buffer)` -/
def kerbDecrypt (key buffer : Bytes) : Except Err Bytes :=
  let data := buffer.take (buffer.length - 16)
  let mac := buffer.drop (buffer.length - 16)
  if mac ≠ hmacMd5 key data then .error .value
  else
    match rc4New key with
    | .error e => .error e
    | .ok st => .ok (rc4Apply st data).1

/-- nex `stream.buffer(data)` -/
def nexBuffer (data : Bytes) : Bytes := u32le data.length ++ data

/-- nex `stream.pid(v)` for `nex.pid_size` 4 / 8 -/
def nexPid (pidSize pid : Nat) : Bytes := if pidSize = 8 then u64le pid else u32le pid

/-- the plaintext inside the request: pid, cid, connection check -/
def connectionRequestBody (pidSize pid cid check : Nat) : Bytes := nexPid pidSize pid ++ u32le cid ++ u32le check

/-- `build_connection_request` with credentials (without: `b""`) -/
def buildConnectionRequest (pidSize pid cid check : Nat) (sessionKey ticket : Bytes) : Except Err Bytes :=
  if ticket.length ≥ 4294967296 then .error .struct
  else if (if pidSize = 8 then pid ≥ 18446744073709551616 else pid ≥ 4294967296) then .error .struct
  else if cid ≥ 4294967296 ∨ check ≥ 4294967296 then .error .struct
  else
    match kerbEncrypt sessionKey (connectionRequestBody pidSize pid cid check) with
    | .error e => .error e
    | .ok enc => .ok (nexBuffer ticket ++ nexBuffer enc)

/-- the server's answer to a valid request (`process_login_request`) -/
def connectionResponse (check : Nat) : Bytes := u32le 4 ++ u32le ((check + 1) % 4294967296)

/-- `check_connection_response`: `some check` = the client has credentials -/
def checkConnectionResponse (check : Option Nat) (data : Bytes) : Except Err Unit :=
  match check with
  | some cc =>
    if data.length ≠ 8 then .error .value
    else if n32le (data.take 4) ≠ 4 then .error .value
    else if n32le (data.drop 4) ≠ (cc + 1) % 4294967296 then .error .value
    else .ok ()
  | none => if !data.isEmpty then .error .value else .ok ()

end Nx.Prudp
