import NxModel.Prudp.Packet
/-!
# PRUDP option TLVs — mirrors `encode_options` / `decode_options` (prudp.py 44-92)

A Python `dict` of options is an association list in insertion order.
-/
namespace Nx.Prudp
open Nx

def OPTION_SUPPORT : Nat := 0
def OPTION_CONNECTION_SIG : Nat := 1
def OPTION_FRAGMENT_ID : Nat := 2
def OPTION_UNRELIABLE_SEQ_ID : Nat := 3
def OPTION_MAX_SUBSTREAM_ID : Nat := 4
def OPTION_CONNECTION_SIG_LITE : Nat := 128

/-- a value stored in the options dict (`none` = Python `None`, e.g. an unset connection signature) -/
inductive OptVal where
  | int (n : Nat)
  | bytes (b : Bytes)
  | none
  deriving DecidableEq, Repr

abbrev Opts := List (Nat × OptVal)

/-- struct format of an option value: `I`, `B`, `H`, `16s` -/
inductive OptFmt where
  | I | B | H | S16
  deriving DecidableEq, Repr

/-- the `OPTIONS` table: type ↦ (size, format) -/
def optInfo : Nat → Option (Nat × OptFmt)
  | 0 => some (4, .I)
  | 1 => some (16, .S16)
  | 2 => some (1, .B)
  | 3 => some (2, .H)
  | 4 => some (1, .B)
  | 128 => some (16, .S16)
  | _ => Option.none

def optSize (k : Nat) : Option Nat := (optInfo k).map (·.1)

/-- `struct.pack("16s", b)`: truncated or zero-padded to 16 bytes -/
def pad16 (b : Bytes) : Bytes := (b ++ List.replicate 16 0).take 16

/-- bytes of one `struct.pack("<BB%s", k, size, v)`; nothing where Python raises -/
def encodeOption (k : Nat) (v : OptVal) : Bytes :=
  match optInfo k with
  | Option.none => []
  | some (size, fmt) =>
    match fmt, v with
    | .I, .int n => u8 k ++ u8 size ++ u32le n
    | .B, .int n => u8 k ++ u8 size ++ u8 n
    | .H, .int n => u8 k ++ u8 size ++ u16le n
    | .S16, .bytes b => u8 k ++ u8 size ++ pad16 b
    | _, _ => []

/-- the exception `struct.pack` / `OPTIONS[k]` raises for one entry -/
def encodeOptionErr (k : Nat) (v : OptVal) : Option Err :=
  match optInfo k with
  | Option.none => some .key
  | some (_, fmt) =>
    match fmt, v with
    | .I, .int n => if n < 4294967296 then Option.none else some .struct
    | .B, .int n => if n < 256 then Option.none else some .struct
    | .H, .int n => if n < 65536 then Option.none else some .struct
    | .S16, .bytes _ => Option.none
    | _, _ => some .struct

/-- `encode_options` (total) -/
def encodeOptions : Opts → Bytes
  | [] => []
  | (k, v) :: r => encodeOption k v ++ encodeOptions r

/-- first exception raised by `encode_options`, in dict order -/
def encodeOptionsErr : Opts → Option Err
  | [] => Option.none
  | (k, v) :: r =>
    match encodeOptionErr k v with
    | some e => some e
    | Option.none => encodeOptionsErr r

def encodeOptionsChecked (o : Opts) : Except Err Bytes :=
  match encodeOptionsErr o with
  | some e => .error e
  | Option.none => .ok (encodeOptions o)

/-- read one option value (`struct.unpack("<"+format, stream.read(length))` with `length` = table size) -/
def rdOptVal (fmt : OptFmt) (r : Bytes) : Except Err (OptVal × Bytes) :=
  match fmt with
  | .I => (rdU32 r).map fun (n, r) => (.int n, r)
  | .B => (rdU8 r).map fun (n, r) => (.int n, r)
  | .H => (rdU16 r).map fun (n, r) => (.int n, r)
  | .S16 => (rd 16 r).map fun (b, r) => (.bytes b, r)

/-- the `while not stream.eof()` loop of `decode_options`; `seen` = keys already in the dict -/
def decodeOptionsLoop : Nat → List Nat → Bytes → Except Err Opts
  | 0, _, _ => .error .other
  | fuel + 1, seen, data =>
    if data.isEmpty then .ok []
    else
      match rdU8 data with
      | .error e => .error e
      | .ok (t, r) =>
        match rdU8 r with
        | .error e => .error e
        | .ok (l, r) =>
          match optInfo t with
          | Option.none => .error .value
          | some (size, fmt) =>
            if l ≠ size then .error .value
            else if seen.contains t then .error .value
            else
              match rdOptVal fmt r with
              | .error e => .error e
              | .ok (v, r) =>
                match decodeOptionsLoop fuel (t :: seen) r with
                | .error e => .error e
                | .ok rest => .ok ((t, v) :: rest)

/-- `decode_options` -/
def decodeOptions (data : Bytes) : Except Err Opts := decodeOptionsLoop (data.length + 1) [] data

/-- `options[k]` -/
def Opts.get (o : Opts) (k : Nat) : Option OptVal := List.lookup k o

def Opts.keys (o : Opts) : List Nat := o.map (·.1)

/-- `set(options) == {k₁, …}` -/
def Opts.keysEq (o : Opts) (expected : List Nat) : Bool :=
  expected.all (fun k => o.keys.contains k) && o.keys.all (fun k => expected.contains k)

/-- `options[k]` where the code uses the value as an int -/
def Opts.getInt (o : Opts) (k : Nat) : Except Err Nat :=
  match o.get k with
  | some (.int n) => .ok n
  | some _ => .error .type
  | Option.none => .error .key

/-- `options[k]` where the code stores the value as bytes -/
def Opts.getBytes (o : Opts) (k : Nat) : Except Err Bytes :=
  match o.get k with
  | some (.bytes b) => .ok b
  | some _ => .error .type
  | Option.none => .error .key

end Nx.Prudp
