import NxModel.Nex.RmcServer
/-!
# What encoding a handler's RESULT does when a value has the wrong type (C11)

The generated `handle_<method>` validates only the *top level* of what the user's method returned
(`isinstance(response, T)` / `hasattr(response, field)`); every other position of the result — fields of
a multi-value `RMCResponse`, elements of lists, keys and values of maps, attributes of returned
structures — is checked by nothing but the encoder itself (`nintendo/nex/streams.py` `StreamOut`,
`anynet.streams.StreamOut`, `common.Structure.encode`, `common.DataHolder.encode`): a value the encoder
cannot write raises, and the class of that exception decides the error response (`RmcServer.react`).

This file models that dynamic typing: `check slot v` = the exception (if any) raised when the Python
value `v` is written at a position declared `slot`. Values are a finite universe of *kinds*
(`Atom`, `Val`) — enough to express every builtin scalar, text, bytes, the NEX value classes, flat
lists / tuples / dicts and opaque objects. Nothing in the encoder catches exceptions, so the exception of
the first failing position is the exception of the whole result (containers propagate it: `check` of
`list` / `map`; enclosing structures and response fields are transparent and not modelled).

Approximations (stated, exercised only away from them): `float`/`double` slots convert a Python `int`
through a C double — the overflow thresholds below are exact except within one double-ulp of the
boundary; a `stationurl` slot writes `str(value)`, whose text is modelled only for `str` values (other
values are assumed to have a short, encodable `str()`).
-/
namespace Nx.RmcResult
open Nx Nx.RmcServer

/-- the Python exception classes the response validation / encoder raises -/
inductive PyExc where
  | typeError | valueError | structError | overflowError | attributeError | unicodeError | runtimeError
  deriving DecidableEq, Repr

/-- how the `except` clauses of `handle_request` classify it (only `TypeError` has its own code here) -/
def PyExc.cls : PyExc → Exc
  | .typeError => .typeError
  | _ => .other

/-- `type(e).__name__` -/
def PyExc.name : PyExc → String
  | .typeError => "TypeError" | .valueError => "ValueError" | .structError => "error"
  | .overflowError => "OverflowError" | .attributeError => "AttributeError"
  | .unicodeError => "UnicodeEncodeError" | .runtimeError => "RuntimeError"

inductive FloatClass where
  | f32      -- finite, representable magnitude for `struct.pack("<f")`
  | big      -- finite, but too large for the `f` format
  | special  -- inf / nan
  deriving DecidableEq, Repr

/-- scalar Python values (by kind) -/
inductive Atom where
  | none
  | bool (b : Bool)
  | int (i : Int)
  | float (c : FloatClass)
  | str (cps : List Nat)                    -- code points
  | bytes (d : List Nat) (mutable : Bool)   -- `bytes` / `bytearray`
  | datetime | result | stationurl          -- instances of `common.DateTime` / `Result` / `StationURL`
  | data                                    -- instance of a `common.Data` subclass (its `encode` succeeds)
  | structure                               -- instance of another `common.Structure` subclass (its `encode` succeeds)
  | opaque                                  -- object of a class with none of `__len__`, `__index__`, `__float__`,
                                            --  `__add__`, `encode`, `value`, `code`, `items`
  deriving DecidableEq, Repr

inductive SeqKind where
  | list | tuple
  deriving DecidableEq, Repr

inductive Val where
  | atom (a : Atom)
  | seq (k : SeqKind) (elems : List Atom)
  | dict (items : List (Atom × Atom))
  deriving DecidableEq, Repr

/-- declared type of a position = the `StreamOut` method the generated code calls for it -/
inductive Slot where
  | u8 | u16 | u32 | u64 | s8 | s16 | s32 | s64
  | pid (size8 : Bool)
  | float | double | bool | string | buffer | qbuffer
  | result | datetime | stationurl | variant
  | anydata | struct                         -- `output.anydata(x)` / `output.add(x)`
  | list (e : Slot)
  | map (k v : Slot)
  deriving DecidableEq, Repr

/-! ## scalars -/

/-- what `struct.pack`'s integer formats / `bytes([v])` accept as an integer (`bool` is an `int`) -/
def asInt : Val → Option Int
  | .atom (.bool b) => some (if b then 1 else 0)
  | .atom (.int i) => some i
  | _ => none

def atomInt : Atom → Option Int
  | .bool b => some (if b then 1 else 0)
  | .int i => some i
  | _ => none

/-- `struct.pack("<I", v)` & co: anything that is not an int in range is a `struct.error` -/
def packInt (lo hi : Int) (v : Val) : Option PyExc :=
  match asInt v with
  | some i => if lo ≤ i ∧ i ≤ hi then none else some .structError
  | none => some .structError

/-- `bytes([v])`: a non-integer is a `TypeError`, an integer outside `range(256)` a `ValueError` -/
def packU8 (v : Val) : Option PyExc :=
  match asInt v with
  | some i => if 0 ≤ i ∧ i ≤ 255 then none else some .valueError
  | none => some .typeError

/-- `struct.pack("<f"|"<d", v)`; `limit` = first integer magnitude that no longer converts (a `struct.error`;
    only a *float* too large for `f` is an `OverflowError`) -/
def packFloat (single : Bool) (v : Val) : Option PyExc :=
  match v with
  | .atom (.float c) => if single ∧ c = .big then some .overflowError else none
  | _ =>
    match asInt v with
    | some i =>
      let limit : Int := if single then 2 ^ 128 - 2 ^ 103 else 2 ^ 1024 - 2 ^ 970
      if -limit < i ∧ i < limit then none else some .structError   -- CPython wraps the int conversion's OverflowError
    | none => some .structError

def isSurrogate (c : Nat) : Bool := decide (0xD800 ≤ c) && decide (c ≤ 0xDFFF)

def utf8Len (c : Nat) : Nat := if c < 0x80 then 1 else if c < 0x800 then 2 else if c < 0x10000 then 3 else 4

def utf8Total : List Nat → Nat
  | [] => 0
  | c :: r => utf8Len c + utf8Total r

/-- `StreamOut.string` on a `str`: `(s + "\0").encode("utf8")`, then `u16(len(data))` -/
def textCheck (cps : List Nat) : Option PyExc :=
  if cps.any isSurrogate then some .unicodeError
  else if utf8Total cps + 1 > 65535 then some .structError
  else none

/-- `StreamOut.string`: `None` is the empty string; anything but a `str` fails in `string + "\0"` -/
def stringCheck : Val → Option PyExc
  | .atom .none => none
  | .atom (.str cps) => textCheck cps
  | _ => some .typeError

/-- first element that `bytearray(iterable)` rejects -/
def bytesFromAtoms : List Atom → Option PyExc
  | [] => none
  | a :: r =>
    match atomInt a with
    | none => some .typeError
    | some i => if 0 ≤ i ∧ i ≤ 255 then bytesFromAtoms r else some .valueError

/-- `StreamOut.buffer` / `qbuffer`: `len(data)`, the length prefix, then `bytearray[a:b] = data` -/
def bufferCheck (q : Bool) : Val → Option PyExc
  | .atom (.bytes d _) => if q ∧ d.length > 65535 then some .structError else none
  | .atom (.str cps) => if q ∧ cps.length > 65535 then some .structError else some .typeError
  | .atom _ => some .typeError                    -- no `len()`
  | .seq _ elems => if q ∧ elems.length > 65535 then some .structError else bytesFromAtoms elems
  | .dict items => if q ∧ items.length > 65535 then some .structError else bytesFromAtoms (items.map (·.1))

/-- `StreamOut.variant` -/
def variantCheck : Val → Option PyExc
  | .atom .none => none
  | .atom (.bool _) => none
  | .atom (.int i) =>
    if i < 0 then (if -9223372036854775808 ≤ i then none else some .structError)
    else (if i ≤ 18446744073709551615 then none else some .structError)
  | .atom (.float _) => none
  | .atom (.str cps) => textCheck cps
  | .atom .datetime => none
  | _ => some .typeError

/-- `StreamOut.add(x)` = `x.encode(stream)`: a `str` has an `encode` that rejects the argument -/
def structCheck : Val → Option PyExc
  | .atom .data => none
  | .atom .structure => none
  | .atom (.str _) => some .typeError
  | _ => some .attributeError

/-- what iterating the value yields (`for x in value`), for the values that have a `len()` -/
def iterOf : Val → Option (List Atom)
  | .atom (.str cps) => some (cps.map fun c => .str [c])
  | .atom (.bytes d _) => some (d.map fun (b : Nat) => Atom.int (Int.ofNat b))
  | .atom _ => none
  | .seq _ elems => some elems
  | .dict items => some (items.map (·.1))

def firstSome {α : Type} : List (Option α) → Option α
  | [] => none
  | some x :: _ => some x
  | none :: r => firstSome r

/-- the exception (if any) raised when `v` is written at a position declared `slot` -/
def check : Slot → Val → Option PyExc
  | .u8, v => packU8 v
  | .u16, v => packInt 0 65535 v
  | .u32, v => packInt 0 4294967295 v
  | .u64, v => packInt 0 18446744073709551615 v
  | .s8, v => packInt (-128) 127 v
  | .s16, v => packInt (-32768) 32767 v
  | .s32, v => packInt (-2147483648) 2147483647 v
  | .s64, v => packInt (-9223372036854775808) 9223372036854775807 v
  | .pid size8, v => if size8 then packInt 0 18446744073709551615 v else packInt 0 4294967295 v
  | .float, v => packFloat true v
  | .double, v => packFloat false v
  | .bool, _ => none                               -- `1 if value else 0`
  | .string, v => stringCheck v
  | .buffer, v => bufferCheck false v
  | .qbuffer, v => bufferCheck true v
  | .result, v => if v = .atom .result then none else some .attributeError      -- `result.code()`
  | .datetime, v => if v = .atom .datetime then none else some .attributeError  -- `datetime.value()`
  | .stationurl, v =>                              -- `self.string(str(url))`
    match v with
    | .atom (.str cps) => textCheck cps
    | _ => none
  | .variant, v => variantCheck v
  | .anydata, v => structCheck v                   -- `DataHolder.encode`: class name, then `substream.add(data)`
  | .struct, v => structCheck v
  | .list e, v =>                                  -- `u32(len(list))`, then every element in order
    match iterOf v with
    | none => some .typeError
    | some elems => firstSome (elems.map fun a => check e (.atom a))
  | .map k vs, v =>                                -- `u32(len(map))`, then `map.items()`
    match v with
    | .dict items => firstSome (items.map fun kv => (check k (.atom kv.1)).orElse fun _ => check vs (.atom kv.2))
    | _ => if (iterOf v).isSome then some .attributeError else some .typeError

/-! ## the generated validation around it -/

/-- `T` of `isinstance(response, T)` in a single-value handler -/
inductive TopType where
  | list | bool | int | str | bytes | dict | result | datetime | data
  | cls          -- a generated structure class (no value of the universe is an instance)
  deriving DecidableEq, Repr

def isInstance : TopType → Val → Bool
  | .list, .seq .list _ => true
  | .bool, .atom (.bool _) => true
  | .int, .atom (.bool _) => true
  | .int, .atom (.int _) => true
  | .str, .atom (.str _) => true
  | .bytes, .atom (.bytes _ false) => true
  | .dict, .dict _ => true
  | .result, .atom .result => true
  | .datetime, .atom .datetime => true
  | .data, .atom .data => true
  | _, _ => false

/-- where in the result the value sits -/
inductive Where where
  | top (t : TopType)        -- the whole result of a single-value method: `isinstance` first
  | inner (required : Bool)  -- anywhere else; `required` = an attribute that the structure's `check_required` tests for `None`
  deriving DecidableEq, Repr

def resultCheck : Where → Slot → Val → Option PyExc
  | .top t, s, v => if isInstance t v then check s v else some .runtimeError
  | .inner req, s, v => if req ∧ v = .atom .none then some .valueError else check s v

/-- what the encoding part of the generated handler does with a result that differs from a well-typed one in
    exactly this position (`observed` = the bytes written when nothing fails) -/
def encOf (c : Option PyExc) (observed : Bytes) : HandleResult :=
  match c with
  | some e => .raised e.cls
  | none => .returned observed

/-! ## the property's own notion of "wrongly typed" (independent of `check`)

`incompat slot v = some c`: `v` is of a type that a position declared `slot` cannot hold, and `c` is the class of
the Python exception a handler returning it must be answered with. Deliberately *not* total: values the
encoder duck-types (a `bool` for an integer, a `tuple` for a list, anything for `bool` / `stationurl`) are
left to the correspondence. `incompat_sound` (NxProofs) proves `check` rejects every such value with that class. -/

def isIntLike : Val → Bool
  | .atom (.bool _) => true
  | .atom (.int _) => true
  | _ => false

def intRange : Slot → Option (Int × Int)
  | .u8 => some (0, 255) | .u16 => some (0, 65535) | .u32 => some (0, 4294967295)
  | .u64 => some (0, 18446744073709551615)
  | .s8 => some (-128, 127) | .s16 => some (-32768, 32767) | .s32 => some (-2147483648, 2147483647)
  | .s64 => some (-9223372036854775808, 9223372036854775807)
  | .pid size8 => some (0, if size8 then 18446744073709551615 else 4294967295)
  | _ => none

def incompat (s : Slot) (v : Val) : Option Exc :=
  match intRange s with
  | some (lo, hi) =>
    match asInt v with
    | none => some (if s = .u8 then .typeError else .other)
    | some i => if lo ≤ i ∧ i ≤ hi then none else some .other
  | none =>
    match s with
    | .float | .double =>
      (match v with
       | .atom (.float _) => none
       | _ => if isIntLike v then none else some .other)
    | .string =>
      (match v with
       | .atom .none => none
       | .atom (.str _) => none
       | _ => some .typeError)
    | .buffer | .qbuffer =>
      (match v with
       | .atom (.bytes _ _) => none
       | .atom (.str cps) => if s = .qbuffer ∧ cps.length > 65535 then some .other else some .typeError
       | .atom _ => some .typeError
       | _ => none)
    | .result => if v = .atom .result then none else some .other
    | .datetime => if v = .atom .datetime then none else some .other
    | .variant =>
      (match v with
       | .atom .none | .atom (.bool _) | .atom (.int _) | .atom (.float _) | .atom (.str _) | .atom .datetime => none
       | _ => some .typeError)
    | .anydata | .struct =>
      (match v with
       | .atom .data | .atom .structure => none
       | .atom (.str _) => some .typeError
       | _ => some .other)
    | .list _ => if (iterOf v).isSome then none else some .typeError
    | .map _ _ =>
      (match v with
       | .dict _ => none
       | _ => if (iterOf v).isSome then some .other else some .typeError)
    | _ => none

end Nx.RmcResult
