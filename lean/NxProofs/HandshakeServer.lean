import NxProofs.Negotiation
import NxProofs.Sys
/-!
# C01 / C06 — the server's half of `Established`, for every configuration

`Established` (NxProofs/Sys.lean) is what the end-to-end theorems start from; the L1 driver evaluates it on the two model
endpoints after every replayed real handshake (`est`), and the kernel on closed witnesses. Here the SERVER's half is a theorem
about the model for every environment, every CONNECT packet and every ticket key: the connection object `process_connect`
registers for a CONNECT from an unknown peer is `Conn.new …` with the negotiated parameters, logged in if the server has a
key, after `serve()` — so, on every substream the settings allow, its receive window is empty at id 2 (substream 0: the
CONNECT took id 1) or 1, its queue and fragment buffer are empty, it is open, its send counters are at 1, both cipher
positions are 0, no retransmission timer is pending and it is CONNECTED.
-/
namespace Nx.L1
open Nx Nx.Prudp Nx.Chan Nx.Crypto

/-- the connection object the server creates for a CONNECT from an unknown peer, before the login step and `serve()` -/
def serverBase (env : Env) (rnd : Rnd) (up : Bool) (s : ServerStream) (p : Packet) (addr : Addr) : Conn :=
  { Conn.new env p.version rnd.initialUnrelId rnd.connectionCheck rnd.localSessionId s.addr s.port s.type addr p.sourcePort p.sourceType with
    maxSub := p.maxSubstreamId, supFuncs := p.supportedFunctions, minorVer := p.minorVersion,
    remoteSignature := p.connectionSignature, remoteSessionId := some p.sessionId, linkUp := up }

/-- **what `process_connect` registers** for a peer it did not know -/
theorem server_registered_conn (env : Env) (now : Time) (rnd : Rnd) (up : Bool) (s : ServerStream) (p : Packet) (addr : Addr)
    (hnew : clientLookup (addr, p.sourcePort, p.sourceType) s.clients = none) (c' : Conn)
    (hreg : clientLookup (addr, p.sourcePort, p.sourceType) (s.processConnect env now rnd up p addr).s.clients = some c') :
    (s.key = none ∧ c' = (serverBase env rnd up s p addr).serve now) ∨
    ∃ pid cid sk, s.key ≠ none ∧ c' = ((serverBase env rnd up s p addr).login pid cid sk).serve now := by
  unfold ServerStream.processConnect at hreg
  simp only [] at hreg
  by_cases h1 : p.signature ≠ env.packetSig (select env.cfg.sel p.version) p [] (env.connSig (select env.cfg.sel p.version) addr)
  · rw [if_pos h1] at hreg; rw [hnew] at hreg; cases hreg
  · rw [if_neg h1] at hreg
    by_cases h2 : (!hasNeedAck p.flags) = true ∨ p.packetId ≠ 1 ∨ p.fragmentId ≠ 0 ∨ p.substreamId ≠ 0
    · rw [if_pos h2] at hreg; rw [hnew] at hreg; cases hreg
    · rw [if_neg h2] at hreg
      by_cases h3 : p.maxSubstreamId > s.maxSub ∨ p.minorVersion > s.minorVer ∨
          (p.supportedFunctions ^^^ (p.supportedFunctions &&& s.supFuncs)) ≠ 0
      · rw [if_pos h3] at hreg; rw [hnew] at hreg; cases hreg
      · rw [if_neg h3] at hreg
        simp only [hnew, Option.isNone_none, if_true] at hreg
        cases hk : s.key with
        | none =>
          simp only [ServerStream.loginStep, hk] at hreg
          rw [clientLookup_set_same] at hreg; cases hreg; exact Or.inl ⟨rfl, rfl⟩
        | some key =>
          simp only [ServerStream.loginStep, hk] at hreg
          cases hl : env.loginRequest p.payload key now with
          | error e =>
            simp only [hl] at hreg
            rw [hnew] at hreg; cases hreg
          | ok v =>
            obtain ⟨pid, cid, sk, resp⟩ := v
            simp only [hl] at hreg
            rw [clientLookup_set_same] at hreg; cases hreg; exact Or.inr ⟨pid, cid, sk, by simp, rfl⟩

/-- the state of the fields `Established` speaks about, for a connection object fresh from `Conn.new` (possibly logged in)
    after `serve()` -/
structure ServerFresh (c : Conn) (sub : Nat) (up : Bool) : Prop where
  win : c.windows[sub]? = some { next := if sub = 0 then 2 else 1, packets := [] }
  q : c.queues[sub]? = some []
  fb : c.fragBufs[sub]? = some []
  eof : c.eof = false
  link : c.linkUp = up
  ctr : c.counters[sub]? = some 1
  enc : (c.relCiphers[sub]?).map (·.encPos) = some 0
  dec : (c.relCiphers[sub]?).map (·.decPos) = some 0
  idle : resendsOf c = []
  st : c.state = STATE_CONNECTED

theorem serve_fresh (c : Conn) (now : Time) (sub n : Nat) (up : Bool) (hn : sub < n)
    (hw : c.windows = List.replicate n { next := 1, packets := [] }) (hq : c.queues = List.replicate n [])
    (hf : c.fragBufs = List.replicate n []) (he : c.eof = false) (hl : c.linkUp = up) (hc : c.counters = List.replicate n 1)
    (hr : ∃ keys : List Bytes, keys.length = n ∧ c.relCiphers = keys.map (fun k => { key := k })) :
    ServerFresh (c.serve now) sub up := by
  obtain ⟨keys, hkl, hrk⟩ := hr
  have hpos : 0 < n := by omega
  refine ⟨?_, ?_, ?_, he, hl, ?_, ?_, ?_, ?_, rfl⟩
  · show (setAt c.windows 0 _)[sub]? = _
    rw [hw]
    by_cases h0 : sub = 0
    · subst h0
      simp only [setAt, if_true]
      rw [List.getElem?_set_self (by simpa using hpos)]
      simp [replicate_get _ _ _ hpos, seqNext]
    · simp only [setAt, h0, if_false]
      rw [List.getElem?_set_ne (by omega)]
      exact replicate_get _ _ _ hn
  · show c.queues[sub]? = _
    rw [hq]; exact replicate_get _ _ _ hn
  · show c.fragBufs[sub]? = _
    rw [hf]; exact replicate_get _ _ _ hn
  · show c.counters[sub]? = _
    rw [hc]; exact replicate_get _ _ _ hn
  · show (c.relCiphers[sub]?).map (·.encPos) = some 0
    rw [hrk, List.getElem?_map]
    have : sub < keys.length := by omega
    rw [List.getElem?_eq_getElem this]; rfl
  · show (c.relCiphers[sub]?).map (·.decPos) = some 0
    rw [hrk, List.getElem?_map]
    have : sub < keys.length := by omega
    rw [List.getElem?_eq_getElem this]; rfl
  · simp [resendsOf, Conn.serve, Sched.repeat, actPacket]

/-- **the server's half of `Established`**: whatever the environment, the CONNECT packet and the ticket key, the connection
    registered for an unknown peer is, on every substream the settings allow, a fresh receiver and a fresh sender -/
theorem server_half_established (env : Env) (now : Time) (rnd : Rnd) (up : Bool) (s : ServerStream) (p : Packet) (addr : Addr)
    (hnew : clientLookup (addr, p.sourcePort, p.sourceType) s.clients = none) (c' : Conn)
    (hreg : clientLookup (addr, p.sourcePort, p.sourceType) (s.processConnect env now rnd up p addr).s.clients = some c')
    (sub : Nat) (hsub : sub ≤ env.s.maxSubstreamId) : ServerFresh c' sub up := by
  have hn : sub < env.s.maxSubstreamId + 1 := by omega
  rcases server_registered_conn env now rnd up s p addr hnew c' hreg with ⟨_, h⟩ | ⟨pid, cid, sk, _, h⟩
  · rw [h]
    exact serve_fresh _ now sub _ up hn rfl rfl rfl rfl rfl rfl
      ⟨List.replicate (env.s.maxSubstreamId + 1) [0x43, 0x44, 0x26, 0x4D, 0x4C], by simp, by simp [serverBase, Conn.new]⟩
  · rw [h]
    exact serve_fresh _ now sub _ up hn rfl rfl rfl rfl rfl rfl
      ⟨keyChain (env.s.maxSubstreamId + 1) sk, keyChain_length _ _, by simp [Conn.login, serverBase, Conn.new]⟩

/-- the cipher setting of the registered connection is the transport's, and without a ticket key its substream keys are the
    default ones -/
theorem server_ciphers (env : Env) (now : Time) (rnd : Rnd) (up : Bool) (s : ServerStream) (p : Packet) (addr : Addr)
    (hnew : clientLookup (addr, p.sourcePort, p.sourceType) s.clients = none) (c' : Conn)
    (hreg : clientLookup (addr, p.sourcePort, p.sourceType) (s.processConnect env now rnd up p addr).s.clients = some c') :
    c'.cipherOn = (env.s.transport == TRANSPORT_UDP) ∧
    (s.key = none → c'.relCiphers = (List.replicate (env.s.maxSubstreamId + 1) [0x43, 0x44, 0x26, 0x4D, 0x4C]).map (fun k => { key := k })) := by
  rcases server_registered_conn env now rnd up s p addr hnew c' hreg with ⟨_, h⟩ | ⟨pid, cid, sk, hk, h⟩
  · rw [h]; exact ⟨rfl, fun _ => by simp [Conn.serve, serverBase, Conn.new]⟩
  · rw [h]; exact ⟨rfl, fun hn => absurd hn hk⟩

/-- the client's half, as far as `Established` needs it (what the client holds when its `handshake()` returns: the SYN took no
    id of substream 0, the CONNECT took id 1) -/
structure ClientReady (c : Conn) (sub : Nat) : Prop where
  ctr : c.counters[sub]? = some (if sub = 0 then 2 else 1)
  win : c.windows[sub]? = some { next := 1, packets := [] }
  q : c.queues[sub]? = some []
  fb : c.fragBufs[sub]? = some []
  live : c.eof = false ∧ c.linkUp = true
  enc : (c.relCiphers[sub]?).map (·.encPos) = some 0
  dec : (c.relCiphers[sub]?).map (·.decPos) = some 0
  idle : ∀ p ∈ resendsOf c, relevant sub p = false

/-- **the two halves give `Established` in both directions**: a client that is ready, the connection the server registered
    (on a live link), equal substream keys and cipher setting -/
theorem established_of_halves (sub : Nat) (c cs : Conn) (hc : ClientReady c sub) (hs : ServerFresh cs sub true)
    (hk : (c.relCiphers[sub]?).map StreamCipher.key = (cs.relCiphers[sub]?).map StreamCipher.key) (hon : cs.cipherOn = c.cipherOn) :
    Established sub (if sub = 0 then 2 else 1) c cs ∧ Established sub 1 cs c := by
  have opt : ∀ (l : List StreamCipher) (f : StreamCipher → Nat), (l[sub]?).map f = some 0 → ∃ x, l[sub]? = some x ∧ f x = 0 := by
    intro l f h
    cases hx : l[sub]? with
    | none => rw [hx] at h; cases h
    | some x => rw [hx] at h; exact ⟨x, rfl, by simpa using h⟩
  constructor
  · exact { lt := by split <;> omega, ctr := hc.ctr, akey := opt _ _ hc.enc, bkey := opt _ _ hs.dec, same := hk, con := hon,
            win := hs.win, q := hs.q, fb := hs.fb, live := ⟨hs.eof, hs.link⟩, idle := Or.inr hc.idle }
  · exact { lt := by omega, ctr := hs.ctr, akey := opt _ _ hs.enc, bkey := opt _ _ hc.dec, same := hk.symm, con := hon.symm,
            win := hc.win, q := hc.q, fb := hc.fb, live := hc.live, idle := Or.inl hs.idle }

end Nx.L1
