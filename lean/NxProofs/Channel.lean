import NxProofs.Window
import NxProofs.Frag
/-! the L2 channel: receiver state is a function of the released prefix of the sender's log; safety and completeness -/
namespace Nx.Chan
open Nx

/-- what the theorems need from the payload transformation (RC4 after optional compression):
    decoding at the position where a fragment was encoded returns it, and a non-empty fragment never
    encodes to the empty string (the code skips decoding of empty payloads) -/
structure CipherOk (c : Cipher) : Prop where
  dec_enc : ∀ p x, c.dec p (c.enc p x) = x
  enc_ne : ∀ p x, x ≠ [] → c.enc p x ≠ []

theorem consume_closed (c : Cipher) (r : Core) (l : List Wire) (h : r.closed = true) : Core.consume c r l = r := by
  cases l with
  | nil => rfl
  | cons w ws => simp [Core.consume, h]

theorem consume_append (c : Cipher) (a b : List Wire) : ∀ r : Core,
    Core.consume c r (a ++ b) = Core.consume c (Core.consume c r a) b := by
  induction a with
  | nil => intro r; rfl
  | cons w ws ih =>
    intro r
    by_cases hc : r.closed = true
    · rw [consume_closed c r _ hc, consume_closed c r _ hc, consume_closed c r _ hc]
    · simp only [List.cons_append, Core.consume, hc, Bool.false_eq_true, if_false]
      cases w.kind with
      | data fid => simp only [ih]
      | ping => simp only [ih]
      | disconnect =>
        simp only []
        rw [consume_closed c _ b rfl]

theorem out_prefix (c : Cipher) (l : List Wire) : ∀ r : Core, r.reasm.out <+: (Core.consume c r l).reasm.out := by
  induction l with
  | nil => intro r; exact List.prefix_refl _
  | cons w ws ih =>
    intro r
    by_cases hc : r.closed = true
    · rw [consume_closed c r _ hc]; exact List.prefix_refl _
    · simp only [Core.consume, hc, Bool.false_eq_true, if_false]
      cases w.kind with
      | data fid =>
        simp only []
        refine List.IsPrefix.trans ?_ (ih _)
        simp only [Reasm.absorb]
        split
        · exact List.prefix_append _ _
        · exact List.prefix_refl _
      | ping => exact ih r
      | disconnect => exact List.prefix_refl _

theorem consume_wiresOf (c : Cipher) (hc : CipherOk c) :
    ∀ (fs : List Frag) (id pos : Nat) (re : Reasm), (∀ f ∈ fs, f.data ≠ []) →
      Core.consume c ⟨pos, re, false⟩ (wiresOf c id pos fs) =
        ⟨pos + wiresLen (wiresOf c id pos fs), absorbFrags re fs, false⟩ := by
  intro fs
  induction fs with
  | nil => intro id pos re _; simp [wiresOf, wiresLen, Core.consume, absorbFrags]
  | cons f fs ih =>
    intro id pos re hne
    have hf : f.data ≠ [] := hne f (List.mem_cons_self)
    have hfe : f.data.isEmpty = false := by cases h : f.data with
      | nil => exact absurd h hf
      | cons _ _ => rfl
    have hce : (c.enc pos f.data).isEmpty = false := by
      cases h : c.enc pos f.data with
      | nil => exact absurd h (hc.enc_ne pos _ hf)
      | cons _ _ => rfl
    simp only [wiresOf, hfe, Bool.false_eq_true, if_false, Core.consume, hce, hc.dec_enc, wiresLen]
    rw [ih _ _ _ (fun g hg => hne g (List.mem_cons_of_mem _ hg))]
    simp [absorbFrags, Nat.add_assoc]

theorem wiresOf_length (c : Cipher) : ∀ (fs : List Frag) (id pos : Nat), (wiresOf c id pos fs).length = fs.length := by
  intro fs; induction fs with
  | nil => intro _ _; rfl
  | cons f fs ih => intro id pos; simp [wiresOf, ih]

theorem iterSeq_idOf (start : Nat) : ∀ (k n : Nat), iterSeq k (idOf start n) = idOf start (n + k) := by
  intro k
  induction k with
  | zero => intro n; rfl
  | succ k ih =>
    intro n
    simp only [iterSeq]
    have : seqNext (idOf start n) = idOf start (n + 1) := by unfold seqNext idOf; omega
    rw [this, ih]; congr 1; omega

theorem wiresOf_ids (c : Cipher) (start : Nat) : ∀ (fs : List Frag) (n pos k : Nat) (h : k < (wiresOf c (idOf start n) pos fs).length),
    ((wiresOf c (idOf start n) pos fs)[k]).id = idOf start (n + k) := by
  intro fs
  induction fs with
  | nil => intro n pos k h; simp [wiresOf] at h
  | cons f fs ih =>
    intro n pos k h
    cases k with
    | zero => simp [wiresOf]
    | succ k =>
      simp only [wiresOf, List.getElem_cons_succ]
      have hs : seqNext (idOf start n) = idOf start (n + 1) := by unfold seqNext idOf; omega
      simp only [hs]
      rw [ih (n + 1)]
      congr 1; omega

/-- `Core.consume` never looks at sequence ids: the wires of the same fragments under other ids are consumed alike -/
theorem consume_wiresOf_id (c : Cipher) : ∀ (fs : List Frag) (id id' pos : Nat) (r : Core),
    Core.consume c r (wiresOf c id pos fs) = Core.consume c r (wiresOf c id' pos fs) := by
  intro fs
  induction fs with
  | nil => intro _ _ _ _; rfl
  | cons f fs ih =>
    intro id id' pos r
    by_cases hcl : r.closed = true
    · rw [consume_closed c r _ hcl, consume_closed c r _ hcl]
    · simp only [wiresOf, Core.consume, hcl, Bool.false_eq_true, if_false]
      exact ih _ _ _ _

theorem wiresLen_wiresOf_id (c : Cipher) : ∀ (fs : List Frag) (id id' pos : Nat),
    wiresLen (wiresOf c id pos fs) = wiresLen (wiresOf c id' pos fs) := by
  intro fs
  induction fs with
  | nil => intro _ _ _; rfl
  | cons f fs ih => intro id id' pos; simp only [wiresOf, wiresLen]; rw [ih]

/-- invariant of the sender: ids follow the log index; while the connection is open, processing the whole log and then the
    fragments still to be emitted yields exactly `sent` (no partial message, cipher positions equal); after `disconnect()`
    the log closes the receiver and yields a prefix of `sent` — all of it if no `send` was in progress -/
structure SndInv (c : Cipher) (start : Nat) (s : Sender) : Prop where
  ids : ∀ j (h : j < s.log.length), (s.log[j]).id = idOf start j
  next : s.nextId = idOf start s.log.length
  frs : ∀ f ∈ s.pending, f.data ≠ []
  live : s.closing = false → Core.consume c core0 (s.log ++ wiresOf c s.nextId s.encPos s.pending) =
    ⟨s.encPos + wiresLen (wiresOf c s.nextId s.encPos s.pending), ⟨[], s.sent⟩, false⟩
  dead : s.closing = true → (Core.consume c core0 s.log).closed = true ∧
    (Core.consume c core0 s.log).reasm.out <+: s.sent ∧
    (s.clean = true → s.pending = [] ∧ Core.consume c core0 s.log = ⟨s.encPos, ⟨[], s.sent⟩, true⟩)

theorem ids_append {start : Nat} {L N : List Wire} (hL : ∀ j (h : j < L.length), (L[j]).id = idOf start j)
    (hN : ∀ k (h : k < N.length), (N[k]).id = idOf start (L.length + k)) :
    ∀ j (h : j < (L ++ N).length), ((L ++ N)[j]).id = idOf start j := by
  intro j h
  by_cases hj : j < L.length
  · rw [List.getElem_append_left hj]; exact hL j hj
  · have hj' : L.length ≤ j := Nat.le_of_not_lt hj
    rw [List.getElem_append_right hj']
    rw [hN]; congr 1; omega

theorem bool_false_of_not_true {b : Bool} (h : ¬ b = true) : b = false := by cases b <;> simp_all

/-- while the connection is open the log alone has not closed the receiver -/
theorem sndInv_log_open {c : Cipher} {start : Nat} {s : Sender} (h : SndInv c start s) (hcl : s.closing = false) :
    (Core.consume c core0 s.log).closed = false := by
  have hl := h.live hcl
  rw [consume_append] at hl
  cases hc : (Core.consume c core0 s.log).closed with
  | false => rfl
  | true =>
    rw [consume_closed c _ _ hc] at hl
    rw [hl] at hc; cases hc

/-- what the whole log yields is a prefix of what the application passed to `send` -/
theorem sndInv_out {c : Cipher} {start : Nat} {s : Sender} (h : SndInv c start s) :
    (Core.consume c core0 s.log).reasm.out <+: s.sent := by
  cases hcl : s.closing with
  | true => exact (h.dead hcl).2.1
  | false =>
    have hl := h.live hcl
    rw [consume_append] at hl
    have := out_prefix c (wiresOf c s.nextId s.encPos s.pending) (Core.consume c core0 s.log)
    rw [hl] at this
    exact this

/-- with no `send` in progress (and, after `disconnect()`, none in progress when it was called) the log yields exactly `sent` -/
theorem sndInv_cons {c : Cipher} {start : Nat} {s : Sender} (h : SndInv c start s) (hp : s.pending = [])
    (hcl : s.closing = false ∨ s.clean = true) :
    Core.consume c core0 s.log = ⟨s.encPos, ⟨[], s.sent⟩, s.closing⟩ := by
  cases hc : s.closing with
  | false =>
    have hl := h.live hc
    rw [hp] at hl
    simpa [wiresOf, wiresLen] using hl
  | true =>
    rcases hcl with h1 | h1
    · rw [hc] at h1; cases h1
    · exact ((h.dead hc).2.2 h1).2

theorem consume_ping (c : Cipher) (r : Core) (id : Nat) : Core.consume c r [⟨id, .ping, []⟩] = r := by
  by_cases hcl : r.closed = true
  · exact consume_closed c r _ hcl
  · simp [Core.consume, hcl]

theorem sndInv_send (c : Cipher) (hc : CipherOk c) (size : Nat) (hs : 1 ≤ size) (start : Nat) (s : Sender)
    (m : Bytes) (h : SndInv c start s) : SndInv c start (s.send c size m) := by
  unfold Sender.send
  by_cases hg : (s.closing || !s.pending.isEmpty) = true
  · simpa [hg] using h
  · have hg' := bool_false_of_not_true hg
    simp only [Bool.or_eq_false_iff, Bool.not_eq_false'] at hg'
    have hcl' : s.closing = false := hg'.1
    have hp : s.pending = [] := by simpa using hg'.2
    simp only [hg, Bool.false_eq_true, if_false]
    refine ⟨?_, ?_, ?_, ?_, ?_⟩
    · apply ids_append h.ids
      intro k hk
      have := wiresOf_ids c start (split size m) s.log.length s.encPos k (by rw [← h.next]; exact hk)
      simpa [h.next] using this
    · simp only [List.length_append]
      rw [h.next, iterSeq_idOf]
    · intro f hf; rw [hp] at hf; cases hf
    · intro _
      simp only [hp, wiresOf, wiresLen, List.append_nil, Nat.add_zero]
      rw [consume_append, sndInv_cons h hp (Or.inl hcl'), hcl']
      rw [consume_wiresOf c hc _ _ _ _ (fun f hf => (split_sizes size hs m f hf).1)]
      rw [split_absorb size hs m]
      by_cases hm : m.isEmpty = true <;> simp [hm]
    · intro hcl; rw [hcl'] at hcl; cases hcl

theorem sndInv_begin (c : Cipher) (hc : CipherOk c) (size : Nat) (hs : 1 ≤ size) (start : Nat) (s : Sender)
    (m : Bytes) (h : SndInv c start s) : SndInv c start (s.begin size m) := by
  unfold Sender.begin
  by_cases hg : (s.closing || !s.pending.isEmpty) = true
  · simpa [hg] using h
  · have hg' := bool_false_of_not_true hg
    simp only [Bool.or_eq_false_iff, Bool.not_eq_false'] at hg'
    have hcl' : s.closing = false := hg'.1
    have hp : s.pending = [] := by simpa using hg'.2
    simp only [hg, Bool.false_eq_true, if_false]
    refine ⟨h.ids, h.next, fun f hf => (split_sizes size hs m f hf).1, ?_, ?_⟩
    · intro _
      show Core.consume c core0 (s.log ++ wiresOf c s.nextId s.encPos (split size m)) = _
      rw [consume_append, sndInv_cons h hp (Or.inl hcl'), hcl']
      rw [consume_wiresOf c hc _ _ _ _ (fun f hf => (split_sizes size hs m f hf).1)]
      rw [split_absorb size hs m]
      by_cases hm : m.isEmpty = true <;> simp [hm]
    · intro hcl; rw [hcl'] at hcl; cases hcl

theorem sndInv_frag (c : Cipher) (start : Nat) (s : Sender) (h : SndInv c start s) : SndInv c start (s.frag c) := by
  unfold Sender.frag
  cases hp : s.pending with
  | nil => simpa [hp] using h
  | cons f fs =>
    simp only []
    refine ⟨?_, ?_, ?_, ?_, ?_⟩
    · apply ids_append h.ids
      intro k hk
      simp at hk; subst hk
      simp [h.next]
    · simp only [List.length_append, List.length_cons, List.length_nil]
      rw [h.next]; unfold seqNext idOf; omega
    · intro g hg; exact h.frs g (by rw [hp]; exact List.mem_cons_of_mem _ hg)
    · intro hcl
      have hl := h.live hcl
      rw [hp] at hl
      simp only [wiresOf, wiresLen] at hl
      simp only [List.append_assoc, List.cons_append, List.nil_append]
      rw [hl]; simp [Nat.add_assoc]
    · intro hcl
      obtain ⟨h1, h2, h3⟩ := h.dead hcl
      have hcons : Core.consume c core0 (s.log ++ [⟨s.nextId, Kind.data f.fragId, if f.data.isEmpty then f.data else c.enc s.encPos f.data⟩]) =
          Core.consume c core0 s.log := by
        rw [consume_append, consume_closed c _ _ h1]
      rw [hcons]
      refine ⟨h1, h2, fun hcn => ?_⟩
      have := (h3 hcn).1
      rw [hp] at this; cases this

theorem sndInv_ping (c : Cipher) (start : Nat) (s : Sender) (h : SndInv c start s) : SndInv c start s.ping := by
  unfold Sender.ping
  have hcons : Core.consume c core0 (s.log ++ [⟨s.nextId, .ping, []⟩]) = Core.consume c core0 s.log := by
    rw [consume_append, consume_ping]
  refine ⟨?_, ?_, h.frs, ?_, ?_⟩
  · apply ids_append h.ids
    intro k hk
    simp at hk; subst hk
    simp [h.next]
  · simp only [List.length_append, List.length_cons, List.length_nil]
    rw [h.next]; unfold seqNext idOf; omega
  · intro hcl
    have hl := h.live hcl
    show Core.consume c core0 ((s.log ++ [⟨s.nextId, .ping, []⟩]) ++ wiresOf c (seqNext s.nextId) s.encPos s.pending) = _
    rw [consume_append, hcons, consume_wiresOf_id c _ (seqNext s.nextId) s.nextId, ← consume_append, hl,
      wiresLen_wiresOf_id c _ (seqNext s.nextId) s.nextId]
  · intro hcl
    show (Core.consume c core0 (s.log ++ [⟨s.nextId, .ping, []⟩])).closed = true ∧ _
    rw [hcons]; exact h.dead hcl

theorem sndInv_disconnect (c : Cipher) (start : Nat) (s : Sender) (h : SndInv c start s) :
    SndInv c start s.disconnect := by
  unfold Sender.disconnect
  by_cases hcl : s.closing = true
  · simpa [hcl] using h
  · have hcl' : s.closing = false := bool_false_of_not_true hcl
    simp only [hcl, Bool.false_eq_true, if_false]
    have hopen := sndInv_log_open h hcl'
    have hcons : Core.consume c core0 (s.log ++ [⟨s.nextId, .disconnect, []⟩]) =
        { Core.consume c core0 s.log with closed := true } := by
      rw [consume_append]; simp [Core.consume, hopen]
    refine ⟨?_, ?_, h.frs, ?_, ?_⟩
    · apply ids_append h.ids
      intro k hk
      simp at hk; subst hk
      simp [h.next]
    · simp only [List.length_append, List.length_cons, List.length_nil]
      rw [h.next]; unfold seqNext idOf; omega
    · intro hc; cases hc
    · intro _
      show (Core.consume c core0 (s.log ++ [⟨s.nextId, .disconnect, []⟩])).closed = true ∧ _
      rw [hcons]
      refine ⟨rfl, sndInv_out h, fun hcn => ?_⟩
      have hp : s.pending = [] := by simpa using hcn
      refine ⟨hp, ?_⟩
      rw [sndInv_cons h hp (Or.inl hcl'), hcl']

/-- invariant of the receiver relative to the sender's log -/
structure RcvInv (c : Cipher) (start : Nat) (ch : Chan) : Prop where
  le : ch.r.nrel ≤ ch.s.log.length
  win : ch.r.core.closed = false → SInv ch.s.log start ch.r.win ch.r.nrel
  core : ch.r.core = Core.consume c core0 (ch.s.log.take ch.r.nrel)

theorem winv_mono {L N : List Wire} {start : Nat} {w : Window Wire} {r : Nat} (h : WInv L start w r) :
    WInv (L ++ N) start w r := by
  refine ⟨by have := h.le; simp; omega, h.next, h.nodup, ?_⟩
  intro id p hp
  obtain ⟨j, h1, h2, h3, h4⟩ := h.ents id p hp
  refine ⟨j, h1, h2, ?_, h4⟩
  have hj : j < L.length := by
    cases hlt : decide (j < L.length) with
    | true => exact of_decide_eq_true hlt
    | false =>
      have : L.length ≤ j := Nat.le_of_not_lt (of_decide_eq_false hlt)
      rw [List.getElem?_eq_none this] at h3; cases h3
  rw [List.getElem?_append_left hj]; exact h3

theorem rcvInv_grow (c : Cipher) (start : Nat) (ch : Chan) (s' : Sender) (N : List Wire)
    (hlog : s'.log = ch.s.log ++ N) (h : RcvInv c start ch) : RcvInv c start { ch with s := s' } := by
  refine ⟨?_, ?_, ?_⟩
  · show ch.r.nrel ≤ s'.log.length
    rw [hlog]; have := h.le; simp; omega
  · intro hcl
    show SInv s'.log start ch.r.win ch.r.nrel
    rw [hlog]
    obtain ⟨hw, hn⟩ := h.win hcl
    exact ⟨winv_mono hw, hn⟩
  · show ch.r.core = Core.consume c core0 (s'.log.take ch.r.nrel)
    rw [hlog, List.take_append_of_le_length h.le]
    exact h.core

theorem rcvInv_arrive (c : Cipher) (start : Nat) (ch : Chan) (j : Nat) (w : Wire)
    (hs : SndInv c start ch.s) (h : RcvInv c start ch) (hw : ch.s.log[j]? = some w)
    (h1 : j < ch.r.nrel + 32768) (h2 : ch.r.nrel < j + 32768) :
    RcvInv c start { ch with r := ch.r.arrive c w } ∧ ch.r.nrel ≤ (ch.r.arrive c w).nrel := by
  unfold Receiver.arrive
  by_cases hcl : ch.r.core.closed = true
  · simp only [hcl, if_true]
    exact ⟨⟨h.le, h.win, h.core⟩, Nat.le_refl _⟩
  · have hcl' : ch.r.core.closed = false := by cases hh : ch.r.core.closed <;> simp_all
    simp only [hcl, Bool.false_eq_true, if_false]
    have hjlt : j < ch.s.log.length := by
      cases hlt : decide (j < ch.s.log.length) with
      | true => exact of_decide_eq_true hlt
      | false =>
        have : ch.s.log.length ≤ j := Nat.le_of_not_lt (of_decide_eq_false hlt)
        rw [List.getElem?_eq_none this] at hw; cases hw
    have hid : w.id = idOf start j := by
      have := hs.ids j hjlt
      rw [List.getElem?_eq_getElem hjlt] at hw
      cases hw; exact this
    rw [hid]
    obtain ⟨r', hr', hS, hrel⟩ := update_spec ch.s.log start ch.r.win ch.r.nrel j w (h.win hcl') hw h2 h1
    have hr'le : r' ≤ ch.s.log.length := hS.1.le
    have hlen : ((ch.s.log.drop ch.r.nrel).take (r' - ch.r.nrel)).length = r' - ch.r.nrel := by
      simp; omega
    have hnl : ch.r.nrel + (ch.r.win.update (idOf start j) w).2.length = r' := by
      rw [hrel, hlen]; omega
    refine ⟨⟨?_, ?_, ?_⟩, ?_⟩
    · show ch.r.nrel + (ch.r.win.update (idOf start j) w).2.length ≤ ch.s.log.length
      rw [hnl]; exact hr'le
    · intro _
      show SInv ch.s.log start (ch.r.win.update (idOf start j) w).1
        (ch.r.nrel + (ch.r.win.update (idOf start j) w).2.length)
      rw [hnl]; exact hS
    · show Core.consume c ch.r.core (ch.r.win.update (idOf start j) w).2 =
        Core.consume c core0 (ch.s.log.take (ch.r.nrel + (ch.r.win.update (idOf start j) w).2.length))
      rw [hnl, hrel, h.core, ← consume_append]
      congr 1
      have : r' = ch.r.nrel + (r' - ch.r.nrel) := by omega
      conv => rhs; rw [this, List.take_add]
    · show ch.r.nrel ≤ ch.r.nrel + (ch.r.win.update (idOf start j) w).2.length
      omega

/-- both invariants hold in every state reachable under the half-window hypothesis -/
theorem inv_run (c : Cipher) (hc : CipherOk c) (size : Nat) (hsz : 1 ≤ size) (start : Nat) :
    ∀ (ops : List Op) (ch : Chan), SndInv c start ch.s → RcvInv c start ch → runOk c size ch ops = true →
      SndInv c start (run c size ch ops).s ∧ RcvInv c start (run c size ch ops) := by
  intro ops
  induction ops with
  | nil => intro ch hs hr _; exact ⟨hs, hr⟩
  | cons op ops ih =>
    intro ch hs hr hok
    simp only [runOk, Bool.and_eq_true] at hok
    obtain ⟨hop, hrest⟩ := hok
    simp only [run, List.foldl_cons]
    apply ih _ ?_ ?_ hrest
    · cases op with
      | send m => exact sndInv_send c hc size hsz start ch.s m hs
      | begin m => exact sndInv_begin c hc size hsz start ch.s m hs
      | frag => exact sndInv_frag c start ch.s hs
      | ping => exact sndInv_ping c start ch.s hs
      | disconnect => exact sndInv_disconnect c start ch.s hs
      | arrive j =>
        simp only [step]
        split <;> exact hs
    · cases op with
      | send m =>
        simp only [step]
        by_cases hcl : (ch.s.closing || !ch.s.pending.isEmpty) = true
        · have : ch.s.send c size m = ch.s := by simp [Sender.send, hcl]
          rw [this]; exact hr
        · exact rcvInv_grow c start ch _ (wiresOf c ch.s.nextId ch.s.encPos (split size m)) (by simp [Sender.send, hcl]) hr
      | begin m =>
        simp only [step]
        exact rcvInv_grow c start ch _ [] (by unfold Sender.begin; split <;> simp) hr
      | frag =>
        simp only [step]
        cases hp : ch.s.pending with
        | nil =>
          have : ch.s.frag c = ch.s := by simp [Sender.frag, hp]
          rw [this]; exact hr
        | cons f fs =>
          exact rcvInv_grow c start ch _ [⟨ch.s.nextId, .data f.fragId, if f.data.isEmpty then f.data else c.enc ch.s.encPos f.data⟩]
            (by simp [Sender.frag, hp]) hr
      | ping =>
        simp only [step]
        exact rcvInv_grow c start ch _ [⟨ch.s.nextId, .ping, []⟩] (by simp [Sender.ping]) hr
      | disconnect =>
        simp only [step]
        by_cases hcl : ch.s.closing = true
        · have : ch.s.disconnect = ch.s := by simp [Sender.disconnect, hcl]
          rw [this]; exact hr
        · exact rcvInv_grow c start ch _ [⟨ch.s.nextId, .disconnect, []⟩] (by simp [Sender.disconnect, hcl]) hr
      | arrive j =>
        simp only [step]
        cases hw : ch.s.log[j]? with
        | none => exact hr
        | some w =>
          simp only [opOk, Bool.or_eq_true, decide_eq_true_eq] at hop
          have hjlt : j < ch.s.log.length := by
            cases hlt : decide (j < ch.s.log.length) with
            | true => exact of_decide_eq_true hlt
            | false =>
              have : ch.s.log.length ≤ j := Nat.le_of_not_lt (of_decide_eq_false hlt)
              rw [List.getElem?_eq_none this] at hw; cases hw
          cases hop with
          | inl h12 => exact (rcvInv_arrive c start ch j w hs hr hw h12.1 h12.2).1
          | inr h => omega

theorem inv_init (c : Cipher) (start : Nat) (h : start < 65536) :
    SndInv c start (init start).s ∧ RcvInv c start (init start) := by
  refine ⟨⟨?_, ?_, ?_, ?_, ?_⟩, ⟨?_, ?_, ?_⟩⟩
  · intro j h; simp [init] at h
  · simp [init, idOf]; omega
  · intro f hf; simp [init] at hf
  · intro _; simp [init, Core.consume, core0, wiresOf, wiresLen]
  · intro h; simp [init] at h
  · simp [init]
  · intro _; exact sinv_init _ start h
  · simp [init, Core.consume]

/-- `n` turns of the fragment loop -/
def fragN (c : Cipher) : Nat → Sender → Sender
  | 0, s => s
  | n + 1, s => fragN c n (s.frag c)

theorem fragN_all (c : Cipher) : ∀ (fs : List Frag) (s : Sender), s.pending = fs →
    fragN c fs.length s =
      { s with nextId := iterSeq fs.length s.nextId, encPos := s.encPos + wiresLen (wiresOf c s.nextId s.encPos fs),
               log := s.log ++ wiresOf c s.nextId s.encPos fs, pending := [] } := by
  intro fs
  induction fs with
  | nil => intro s hp; cases s; simp_all [fragN, iterSeq, wiresOf, wiresLen]
  | cons f fs ih =>
    intro s hp
    have hfr : (s.frag c).pending = fs := by simp [Sender.frag, hp]
    simp only [List.length_cons, fragN]
    rw [ih _ hfr]
    simp [Sender.frag, hp, iterSeq, wiresOf, wiresLen, Nat.add_assoc]

/-- **the one-step `send` is `begin` followed by one `frag` per fragment** (on an open connection with no other `send` of
    the substream in progress) -/
theorem send_eq_begin_frags (c : Cipher) (size : Nat) (s : Sender) (m : Bytes) (hcl : s.closing = false) (hp : s.pending = []) :
    s.send c size m = fragN c (split size m).length (s.begin size m) := by
  have hb : (s.begin size m).pending = split size m := by simp [Sender.begin, hcl, hp]
  rw [fragN_all c _ _ hb]
  simp [Sender.send, Sender.begin, hcl, hp, wiresOf_length]

/-- **delivered is a prefix of sent**, in every state that satisfies the two invariants -/
theorem delivered_prefix_sent (c : Cipher) (start : Nat) (ch : Chan) (hS : SndInv c start ch.s) (hR : RcvInv c start ch) :
    ch.r.core.reasm.out <+: ch.s.sent := by
  have hlog : ch.s.log = ch.s.log.take ch.r.nrel ++ ch.s.log.drop ch.r.nrel := (List.take_append_drop _ _).symm
  have h1 := sndInv_out hS
  rw [hlog, consume_append, ← hR.core] at h1
  exact (out_prefix c (ch.s.log.drop ch.r.nrel) ch.r.core).trans h1

end Nx.Chan
