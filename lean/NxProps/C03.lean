import NxProofs.PrudpChecked
import NxProofs.PrudpSound
/-!
# C03 — PRUDP packet codecs are lossless and independent of framing

Model: `NxModel/Prudp/{Packet,Options,V0,V1,Lite,Select}.lean` (mirrors prudp.py 66-534; tied to the code by
`harness/corr_C03.py`). Statements only; proofs in `NxProofs/Prudp*.lean`.

`V0WF c p` / `V1WF p` / `LiteWF p` are the property's quantifier made explicit: field ranges (4-bit ports and stream
types for v0/v1, 8-bit ports for lite, type < 16 (< 8 with v0 flags_version 0), flags < 2^12 (< 2^5), 8-bit session /
fragment / substream, 16-bit ids, supported_functions < 2^24, payload < 2^16 where a size field carries it, signature
length = signature_size, connection signature 4 / 16 bytes where carried) and *fields the encoding does not carry are at
the value the decoder produces* (e.g. substream in v0/lite, fragment id in non-DATA v0/v1, `version` = 0 / 1 / None).
The v0 theorems are parametric in `V0Cfg`: one statement covers the 2×2×2 variants and every access key.

The bytes→packet→bytes direction for *arbitrary* accepted bytes (`decode b = ok [p] → encode p = b`) is false as stated
for v0 (negative-length corner, see `v0_negative_length_corner`) and for v1/lite when options arrive in another order;
it is proved for v1 in the form that is true (`v1_encode_decode`: accepted bytes = encoding of the decoded packet with
its options in arrival order; = `v1Encode p` when that is the emission order) and for option blocks
(`options_encode_decode`); not proved for v0 and lite. The property itself only speaks about re-encoding a decoded
*encoding*, which is `*_reencode` below.
-/
namespace Nx.C03
open Nx Nx.Prudp

/-! ## decode ∘ encode = id (every field), per encoding -/

/-- v0, all 8 variants and every access key: type, flags, ports, stream types, session, sequence and fragment ids,
    both signatures and payload survive -/
theorem v0_decode_encode (c : V0Cfg) (p : Packet) (h : V0WF c p) : v0Decode c (v0Encode c p) = .ok [p] :=
  v0Decode_encode c p h

/-- v1: additionally substream id and the negotiation options (minor version, supported functions, connection
    signature, max substream, initial unreliable id) -/
theorem v1_decode_encode (p : Packet) (h : V1WF p) : v1Decode (v1Encode p) = .ok [p] :=
  v1Decode_encode p h

/-- lite: one `decode` call on a fresh object returns the packet and leaves the buffer empty -/
theorem lite_decode_encode (p : Packet) (h : LiteWF p) : liteFeed [] (liteEncode p) = (.ok [p], []) :=
  liteFeed_encode p h

/-! ## re-encoding the decoded packet yields identical bytes -/

theorem v0_reencode (c : V0Cfg) (p : Packet) (h : V0WF c p) :
    (v0Decode c (v0Encode c p)).map (fun qs => qs.flatMap (v0Encode c)) = .ok (v0Encode c p) := by
  rw [v0Decode_encode c p h]; simp [Except.map]

theorem v1_reencode (p : Packet) (h : V1WF p) :
    (v1Decode (v1Encode p)).map (fun qs => qs.flatMap v1Encode) = .ok (v1Encode p) := by
  rw [v1Decode_encode p h]; simp [Except.map]

theorem lite_reencode (p : Packet) (h : LiteWF p) :
    (liteFeed [] (liteEncode p)).1.map (fun qs => qs.flatMap liteEncode) = .ok (liteEncode p) := by
  rw [liteFeed_encode p h]; simp [Except.map]

/-! ## bytes → packet → bytes (v1) -/

/-- every datagram the v1 decoder accepts is exactly the encoding of the packet it yields, with the option dict `o` in
    the order the options arrived; `o` has the key set `verify_options` demands and in-range values -/
theorem v1_encode_decode {b rest : Bytes} {p : Packet} (h : v1DecodeOne b = .ok (p, rest)) :
    ∃ o : Opts, v1VerifyOptions p.type o = true ∧ OptsWF o ∧ b = v1EncodeWith p o ++ rest :=
  v1DecodeOne_sound h

/-- … which is the encoder's own output when the options are in emission order (canonical bytes) -/
theorem v1_encode_decode_canonical (p : Packet) : v1EncodeWith p (v1Options p) = v1Encode p :=
  v1EncodeWith_canonical p

/-! ## the total encoders are the code's encoders on well-formed packets (no exception is raised) -/

theorem v0_encode_no_exception (c : V0Cfg) (p : Packet) (h : V0WF c p) : v0EncodeChecked c p = .ok (v0Encode c p) :=
  v0EncodeChecked_wf c p h

theorem v1_encode_no_exception (p : Packet) (h : V1WF p) : v1EncodeChecked p = .ok (v1Encode p) :=
  v1EncodeChecked_wf p h

theorem lite_encode_no_exception (p : Packet) (h : LiteWF p) : liteEncodeChecked p = .ok (liteEncode p) :=
  liteEncodeChecked_wf p h

/-! ## several packets in one datagram decode to the same sequence -/

/-- v0 needs `FLAG_HAS_SIZE` on every packet but the last (without it a packet's payload extends to the checksum
    at the end of the datagram) -/
theorem v0_concat (c : V0Cfg) (ps : List Packet) (hwf : ∀ p ∈ ps, V0WF c p) (hs : v0SizedButLast ps) :
    v0Decode c (ps.flatMap (v0Encode c)) = .ok ps :=
  v0Decode_concat c ps hwf hs

theorem v1_concat (ps : List Packet) (hwf : ∀ p ∈ ps, V1WF p) : v1Decode (ps.flatMap v1Encode) = .ok ps :=
  v1Decode_concat ps hwf

theorem lite_concat (ps : List Packet) (hwf : ∀ p ∈ ps, LiteWF p) :
    liteFeed [] (ps.flatMap liteEncode) = (.ok ps, []) :=
  liteFeed_concat ps hwf

/-! ## a lite byte stream decodes to the same packets however it is cut into chunks -/

/-- For every list of well-formed packets, every `tail` that is empty or a proper prefix of the encoding of a
    well-formed packet, and **every** partition `chunks` of the stream (empty chunks included): feeding the chunks
    one `decode` call at a time to a fresh object yields exactly the packets, and the buffer ends up holding exactly
    `tail`. (Deliberately about valid streams: after a framing error the code's behaviour does depend on the cut.) -/
theorem lite_chunking (ps : List Packet) (hwf : ∀ p ∈ ps, LiteWF p) (tail : Bytes)
    (ht : tail = [] ∨ ∃ p u, LiteWF p ∧ u ≠ [] ∧ tail ++ u = liteEncode p)
    (chunks : List Bytes) (hc : chunks.flatten = ps.flatMap liteEncode ++ tail) :
    liteFeedAll [] chunks = (.ok ps, tail) :=
  Nx.Prudp.lite_chunking ps hwf tail ht chunks hc

/-- the same statement from any reachable intermediate state: with a pending buffer, feeding chunk by chunk equals
    one call on the concatenation -/
theorem lite_chunks_equal_one_read (chunks : List Bytes) (buf : Bytes) (hb : LitePending buf)
    (hv : LiteValidPrefix (buf ++ chunks.flatten)) :
    liteFeedAll buf chunks = liteFeed [] (buf ++ chunks.flatten) :=
  liteFeedAll_eq_run chunks buf hb hv

/-! ## options -/

/-- a dict with distinct known keys and in-range values survives `decode_options ∘ encode_options`, order included -/
theorem options_roundtrip (o : Opts) (h : OptsWF o) : decodeOptions (encodeOptions o) = .ok o :=
  Nx.Prudp.options_roundtrip o h

/-- an unknown option type is rejected -/
theorem options_reject_unknown (fuel : Nat) (seen : List Nat) (t l : UInt8) (r : Bytes) (h : optInfo t.toNat = none) :
    decodeOptionsLoop (fuel + 1) seen (t :: l :: r) = .error .value :=
  decodeOptionsLoop_unknown fuel seen t l r h

/-- a length byte that differs from the table is rejected -/
theorem options_reject_length (fuel : Nat) (seen : List Nat) (t l : UInt8) (r : Bytes) (size : Nat) (fmt : OptFmt)
    (h : optInfo t.toNat = some (size, fmt)) (hl : l.toNat ≠ size) :
    decodeOptionsLoop (fuel + 1) seen (t :: l :: r) = .error .value :=
  decodeOptionsLoop_badlen fuel seen t l r size fmt h hl

/-- a second occurrence of a key after any well-formed block is rejected -/
theorem options_reject_duplicate (o : Opts) (k : Nat) (v : OptVal) (rest : Bytes) (ho : OptsWF o)
    (hk : k ∈ o.keys) (hv : OptEntryWF k v) :
    decodeOptions (encodeOptions o ++ (encodeOption k v ++ rest)) = .error .value :=
  decodeOptions_dup o k v rest ho hk hv

/-- whatever is accepted has pairwise distinct keys -/
theorem options_decoded_keys_distinct (d : Bytes) (o : Opts) (h : decodeOptions d = .ok o) : o.keys.Nodup :=
  (decodeOptionsLoop_keys _ [] d o h).1

/-- the other direction: whatever `decode_options` accepts is exactly the encoding of the dict it returns, and that
    dict is well-formed — an option block has one reading only -/
theorem options_encode_decode (d : Bytes) (o : Opts) (h : decodeOptions d = .ok o) : encodeOptions o = d ∧ OptsWF o :=
  decodeOptions_sound d o h

/-! ## encoding selection -/

/-- with `prudp.version = 2` on UDP, datagrams starting `EA D0 01` go to v1 and everything else to v0 -/
theorem select_by_magic (s : SelCfg) (data : Bytes) (ht : s.transport = TRANSPORT_UDP) (hv : s.version = 2) :
    analyze s data = if data.take 3 = [0xEA, 0xD0, 0x01] then .v1 else .v0 := by
  simp [analyze, ht, hv]

/-- otherwise by settings only: v0 for version 0, v1 for any other version on UDP, lite on TCP/WebSocket -/
theorem select_by_settings (s : SelCfg) (data : Bytes) (h : ¬ (s.transport = TRANSPORT_UDP ∧ s.version = 2)) :
    analyze s data = if s.transport = TRANSPORT_UDP then (if s.version = 0 then .v0 else .v1) else .lite := by
  simp [analyze, h, select]

/-- a v1 encoding is always recognised by its magic -/
theorem v1_encoding_has_magic (p : Packet) (x : Bytes) : (v1Encode p ++ x).take 3 = [0xEA, 0xD0, 0x01] := by
  simp [v1Encode, v1EncodeHeader, u8, b8]

/-! ## progress / termination (`decode_total_linear`): an iteration either fails or consumes ≥ 10 / 30 / 12 bytes, and
the loop bound (`len + 1` iterations) is never what decides the result -/

theorem v0_decode_progress {c : V0Cfg} {d r : Bytes} {p : Packet} (h : v0DecodeOne c d = .ok (p, r)) :
    r.length + 10 ≤ d.length :=
  v0DecodeOne_progress h

theorem v1_decode_progress {d r : Bytes} {p : Packet} (h : v1DecodeOne d = .ok (p, r)) : r.length + 30 ≤ d.length :=
  v1DecodeOne_progress h

theorem v0_decode_fuel_irrelevant (c : V0Cfg) (fuel : Nat) (d : Bytes) (h : d.length < fuel) :
    v0Loop c fuel d = v0Decode c d :=
  v0Loop_fuel c _ _ d h (by omega)

theorem v1_decode_fuel_irrelevant (fuel : Nat) (d : Bytes) (h : d.length < fuel) : v1Loop fuel d = v1Decode d :=
  v1Loop_fuel _ _ d h (by omega)

theorem lite_decode_fuel_irrelevant (fuel : Nat) (buf chunk : Bytes) (h : (buf ++ chunk).length < fuel) :
    liteLoop fuel (buf ++ chunk) = liteFeed buf chunk :=
  liteLoop_fuel _ _ _ h (by omega)

/-! ## the v0 negative-length corner, as the code behaves: a 10-byte datagram (flags_version 0, checksum_version 1,
no HAS_SIZE, no room for a checksum after the fixed fields) is *accepted* — `stream.read(-1)` moves the cursor back and
the last header byte doubles as the checksum — and re-encoding the decoded packet gives 11 different bytes. So
"re-encode = identity" holds for encodings (`v0_reencode`), not for every accepted datagram. -/
theorem v0_negative_length_corner :
    let c : V0Cfg := { signatureVersion := 0, checksumVersion := 1, flagsVersion := 0, accessKey := [] }
    let d : Bytes := [0x11, 0x22, 0x03, 0x05, 1, 2, 3, 4, 0x09, 0x4E]
    let p : Packet := { type := 3, flags := 0, version := some 0, sourceType := 1, sourcePort := 1, destType := 2,
                        destPort := 2, sessionId := 5, packetId := 0x4E09, signature := some [1, 2, 3, 4], payload := [] }
    v0Decode c d = .ok [p] ∧ (v0Encode c p).length = 11 ∧ v0Encode c p ≠ d := by
  decide

/-! ## non-vacuity: the hypotheses are satisfiable at non-trivial points -/

def exV0 : Packet :=
  { type := 2, flags := 0xB, version := some 0, sourceType := 10, sourcePort := 15, destType := 10, destPort := 1,
    sessionId := 0xFE, packetId := 0xFFFF, fragmentId := 0xFF, signature := some [1, 2, 3, 4], payload := [9, 8, 7] }
def exV0Syn : Packet :=
  { type := 0, flags := 0x204, version := some 0, sourceType := 15, sourcePort := 15, destType := 15, destPort := 15,
    sessionId := 0xFF, packetId := 0x8000, connectionSignature := some [0xA, 0xB, 0xC, 0xD], signature := some [0, 0, 0, 0] }
def exV1 : Packet :=
  { type := 1, flags := 0x206, version := some 1, sourceType := 10, sourcePort := 15, destType := 10, destPort := 1,
    sessionId := 0x80, packetId := 0xFFFF, substreamId := 3, connectionSignature := some (List.replicate 16 0xAB),
    initialUnreliableId := 0xFFFF, maxSubstreamId := 0xFF, supportedFunctions := 0xFFFFFF, minorVersion := 0xFF,
    signature := some (List.replicate 16 0x11), payload := [1, 2] }
def exLite : Packet :=
  { type := 1, flags := 0x6, version := none, sourceType := 15, sourcePort := 0xFF, destType := 10, destPort := 0x80,
    packetId := 1, fragmentId := 0x7F, connectionSignature := some [], supportedFunctions := 0x800000, minorVersion := 4,
    signature := some (List.replicate 16 0x22), payload := [5] }

example : V0WF { flagsVersion := 1, checksumVersion := 0, accessKey := [0x72, 0x69] } exV0 := by decide
example : V0WF { flagsVersion := 1 } exV0Syn := by decide
example : v0SizedButLast [exV0, exV0Syn] := ⟨by decide, trivial⟩
example : V1WF exV1 := by decide
example : LiteWF exLite := by decide
example : v0Decode { flagsVersion := 1, checksumVersion := 0, accessKey := [0x72, 0x69] }
    (v0Encode { flagsVersion := 1, checksumVersion := 0, accessKey := [0x72, 0x69] } exV0) = .ok [exV0] := by decide
example : v1Decode (v1Encode exV1) = .ok [exV1] := by decide
example : liteFeedAll [] [(liteEncode exLite).take 5, [], (liteEncode exLite).drop 5 ++ [0x80, 0]] = (.ok [exLite], [0x80, 0]) := by
  decide
example : OptsWF [(4, .int 255), (0, .int 0xFFFFFFFF), (128, .bytes (List.replicate 16 7))] := by
  refine ⟨by decide, ?_⟩
  intro kv h
  simp at h
  rcases h with rfl | rfl | rfl <;> simp [OptEntryWF]
example : LitePending ((liteEncode exLite).take 20) :=
  Or.inr ⟨exLite, (liteEncode exLite).drop 20, by decide, by decide, by simp⟩
example : analyze { transport := 0, version := 2 } [0xEA, 0xD0, 0x01, 0] = .v1 := by decide
example : analyze { transport := 0, version := 2 } [0xEA, 0xD0, 0x00, 0] = .v0 := by decide

end Nx.C03
