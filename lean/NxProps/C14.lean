import NxProofs.Schema
import NxProofs.Rmc
import NxProofs.RmcClient
/-!
# C14 — values survive a client → server → client round trip through any generated method

Model: the schema interpreter of C13 (`NxModel/Nex/Schema.lean`) composed with the RMC framing of C09
(`NxModel/Nex/Rmc.lean`). The PRUDP layer underneath is C01's subject; here a message handed to the RMC layer
is the message the peer's RMC layer receives. Statements only; proofs in `NxProofs/Schema.lean`, `NxProofs/Rmc.lean`.
Several calls in flight at once on one connection: which response a caller is handed is decided by the call-matching
machine of `NxModel/Nex/RmcClient.lean` (C10's model, `NxProofs/RmcClient.lean`); `rpc_concurrent_own_result`
composes it with the response leg.

`forward_compat` needs "revisions ascending" — for every `nex.version` the number the generated `max_version`
returns bounds every reachable `revision` block (`Items.revAscending`, a kernel-checked generated obligation per
versioned structure). It FAILS today for `MatchmakeSession` (`revision 1,2,3` followed by `nex 40000 { revision 0 }`:
from NEX 4.0 on `max_version` is 0 although revision-1..3 blocks are reachable); `forward_compat_counterexample`
proves the negation on the same shape, the check reproduces it on the real class (known finding).
-/
namespace Nx.C14
open Nx Nx.Schema

/-- **forward compatibility**, one hierarchy level, any hooks: with structure headers on, a header announcing
    any revision `v' ≥ max_version` and any bytes `x` appended *inside* the length-prefixed body decode to the same
    attributes, and the rest of the message is untouched -/
theorem forward_compat (env : Env) (cfg : Cfg) (ver : Nat) (leaf : Items × List Val) (d : StructDef)
    {E : EncHook} {D : DecHook} {V : VisHook} (H : HookRT E D V) (hh : cfg.structHeader = true)
    (vs vs' : List Val) (b : Bytes) (henc : encClass E env cfg ver leaf d vs = .ok (b, vs'))
    (hb : revsBelow ver cfg.nexVersion d.items = true) :
    ∃ body, b = u8 ver ++ u32le body.length ++ body ∧
      ∀ (v' : Nat) (x r : Bytes), ver ≤ v' → v' < 256 → body.length + x.length < 4294967296 →
        decClass D env cfg d (u8 v' ++ u32le (body.length + x.length) ++ (body ++ x) ++ r)
          = .ok ((visItems V cfg ver d.items vs).1, r) :=
  forward_compat_class env cfg ver leaf d H hh vs vs' b henc hb

/-- the generated obligation `rev_ascending_<Struct>` gives the hypothesis of `forward_compat` for every
    `nex.version` at once (only the gate thresholds are enumerated by the checker) -/
theorem revisions_ascending_sound {it : Items} (h : it.revAscending = true) (nex : Nat) :
    revsBelow (maxVersion nex it) nex it = true ∧ maxVersion nex it < 256 :=
  revAscending_sound h nex

/-- forward compatibility of a whole instance of a versioned structure without base class, as
    `Structure.encode` / `Structure.decode` see it -/
theorem forward_compat_struct (env : Env) (cfg : Cfg) (f : Nat) (c : Name) (d : StructDef)
    (hl : lookup env c = some d) (hp : d.parent = none) (hh : cfg.structHeader = true)
    (hasc : d.items.revAscending = true) (vs vs' : List Val) (b : Bytes)
    (henc : encObj env cfg (f + 1) c vs = .ok (b, vs')) :
    ∃ body, b = u8 (effMaxVersion env cfg.nexVersion (f + 1) c) ++ u32le body.length ++ body ∧
      ∀ (v' : Nat) (x r : Bytes), effMaxVersion env cfg.nexVersion (f + 1) c ≤ v' → v' < 256 →
        body.length + x.length < 4294967296 →
        decObj env cfg (f + 1) c (u8 v' ++ u32le (body.length + x.length) ++ (body ++ x) ++ r)
          = .ok ((visObj env cfg (f + 1) c vs).1, r) :=
  forward_compat_root env cfg f c d hl hp hh hasc vs vs' b henc

/-- without ascending revisions the property is false: the shape of `MatchmakeSession` at NEX 4.0 writes
    revision 0; the same bytes announced as revision 1 with one trailing byte no longer decode -/
theorem forward_compat_counterexample :
    Ex.session.items.revAscending = false
    ∧ encObj Ex.env Ex.cfgNew 8 77 [.int 7, .str [0x41], .list [.int 1], .int 99, .str [0x42]]
        = .ok ([0, 8, 0, 0, 0, 7, 0, 0, 0, 2, 0, 65, 0] ++ ([0, 9, 0, 0, 0] ++ [1, 0, 0, 0, 1, 2, 0, 66, 0]), [])
    ∧ decObj Ex.env Ex.cfgNew 8 77
        ([0, 8, 0, 0, 0, 7, 0, 0, 0, 2, 0, 65, 0] ++ ([1, 10, 0, 0, 0] ++ ([1, 0, 0, 0, 1, 2, 0, 66, 0] ++ [0xAA])) ++ [9])
        = .error .overflow := by
  refine ⟨by decide, by rfl, by rfl⟩

/-- request leg: what the generated client hands to the RMC layer, framed, parsed by the peer's RMC layer and
    decoded by the generated server, is the visible argument list — with the protocol id, method id and call id
    it was sent with -/
theorem rpc_roundtrip_request {env : Env} {cfg : Cfg} {fuel : Nat} {p : ProtoDef} {m : MethodDef} {args : List Val}
    {pi mi : Nat} {body : Bytes} (h : clientRequest env cfg fuel p m args = .ok (pi, mi, body))
    (callId : Nat) (hwf : (Rmc.Spec.request pi callId mi body).WF) :
    ∃ wire msg, Rmc.encode (Rmc.ofSpec (.request pi callId mi body)) = .ok wire ∧ Rmc.decode wire = .ok msg
      ∧ msg.mode = 0 ∧ msg.protocol = p.id ∧ msg.method = some m.id ∧ msg.callId = callId
      ∧ serverRequest env cfg fuel m msg.body = .ok (visArgs env cfg fuel m.request args) := by
  obtain ⟨h1, h2, h3⟩ := clientRequest_ok h
  refine ⟨_, _, Rmc.encode_ofSpec _ hwf, Rmc.decode_specEncode _ hwf, rfl, h1, by rw [← h2]; rfl, rfl, ?_⟩
  have := serverRequest_of_client h3 []
  simpa [Rmc.ofSpec] using this

/-- response leg: what the generated server wrote, framed as a success response and parsed by the caller's RMC
    layer, is decoded by the generated client to the visible results (and the call id is the request's) -/
theorem rpc_roundtrip_response {env : Env} {cfg : Cfg} {fuel : Nat} {m : MethodDef} {res : List Val} {body : Bytes}
    (h : serverResponse env cfg fuel m res = .ok body) (protocol callId : Nat)
    (hwf : (Rmc.Spec.success protocol callId m.id body).WF) :
    ∃ wire msg, Rmc.encode (Rmc.ofSpec (.success protocol callId m.id body)) = .ok wire ∧ Rmc.decode wire = .ok msg
      ∧ msg.mode = 1 ∧ msg.callId = callId ∧ msg.error = -1
      ∧ clientResponse env cfg fuel m msg.body = .ok (visArgs env cfg fuel m.response res) := by
  refine ⟨_, _, Rmc.encode_ofSpec _ hwf, Rmc.decode_specEncode _ hwf, rfl, rfl, rfl, ?_⟩
  exact clientResponse_of_server (serverResponse_ok h)

/-- **several calls in flight on one connection**: `ops` is ANY interleaving of `request()` sections, received
    datagrams, closures and resumptions of suspended callers on one `RMCClient` (fewer than 2^32 − 1 calls, so that
    the wrapping call id counter cannot collide). If every response that carries a call id under which caller `t`'s
    request went out is the server's answer to that request (success, body = what the generated server wrote for the
    values `res` its implementation returned for `t`'s arguments), then `t`, when it completes, is told "closed",
    or was response-less, or is handed exactly that body — whatever the other callers sent and received in between —
    and the generated client decodes it to the visible results `res` -/
theorem rpc_concurrent_own_result {env : Env} {cfg : Cfg} {fuel : Nat} {m : MethodDef} {res : List Val} {body : Bytes}
    (h : serverResponse env cfg fuel m res = .ok body)
    (ops : List RmcClient.Op) (hn : RmcClient.nCalls ops < 4294967295) (t : Nat) (o : RmcClient.Outcome)
    (hdone : RmcClient.Out.done t o ∈ (RmcClient.run RmcClient.init ops).2)
    (hans : ∀ id msg, RmcClient.Out.sent t id ∈ (RmcClient.run RmcClient.init ops).2 →
        RmcClient.Op.recvResponse msg ∈ ops → msg.callId = id → msg.error = -1 ∧ msg.body = body) :
    o = .closed ∨ o = .none ∨
      (o = .body body ∧ clientResponse env cfg fuel m body = .ok (visArgs env cfg fuel m.response res)) := by
  have hd : RmcClient.distinctLive RmcClient.init ops = true :=
    RmcClient.distinctLive_of_small RmcClient.init ops (by simp [RmcClient.init]) (by simp [RmcClient.init]; omega)
  have href := (RmcClient.run_refines (RmcClient.rel_init 1) ops hd).2
  have hspec : RmcClient.Out.done t o ∈ (RmcClient.CallSpec.run RmcClient.CallSpec.init ops).2 := by
    have : RmcClient.Out.done t o ∈ RmcClient.obs (RmcClient.run RmcClient.init ops).2 := RmcClient.mem_obs.mpr ⟨hdone, rfl⟩
    exact href ▸ this
  rcases RmcClient.spec_run_hist RmcClient.CallSpec.init ops [] [] (by intro c hc; cases hc) t o hspec
    with e | e | ⟨id, msg, s1, s2, s3, s4⟩
  · exact .inl e
  · exact .inr (.inl e)
  · refine .inr (.inr ?_)
    have hs : RmcClient.Out.sent t id ∈ (RmcClient.run RmcClient.init ops).2 := by
      have h' : RmcClient.Out.sent t id ∈ (RmcClient.CallSpec.run RmcClient.CallSpec.init ops).2 := by simpa using s1
      have : RmcClient.Out.sent t id ∈ RmcClient.obs (RmcClient.run RmcClient.init ops).2 := href ▸ h'
      exact (RmcClient.mem_obs.mp this).1
    obtain ⟨he, hb⟩ := hans id msg hs (by simpa using s2) s3
    refine ⟨?_, clientResponse_of_server (serverResponse_ok h)⟩
    rw [s4]; unfold RmcClient.outcomeOf; simp [he, hb]

/-- methods the definition marks unsupported, methods a server class leaves unimplemented and unknown method
    ids all end in `Core::NotImplemented` -/
theorem not_supported {p : ProtoDef} {impl : Name → Bool} {id : Nat} :
    (findMethodById p id = none → dispatch p impl id = .notImplemented)
    ∧ (∀ m, findMethodById p id = some m → m.supported = false → dispatch p impl id = .notImplemented)
    ∧ (∀ m, findMethodById p id = some m → impl m.name = false → dispatch p impl id = .notImplemented) :=
  ⟨dispatch_unknown, fun _ h hs => dispatch_unsupported h hs, fun _ h hi => dispatch_unimplemented h hi⟩

/-- and only those: a supported, implemented method runs -/
theorem supported_runs {p : ProtoDef} {impl : Name → Bool} {id : Nat} {m : MethodDef}
    (h : findMethodById p id = some m) (hs : m.supported = true) (hi : impl m.name = true) :
    dispatch p impl id = .run m :=
  dispatch_run h hs hi

/-- `RMCClient` switches structure headers on when the negotiated PRUDP minor version is ≥ 3, and otherwise
    leaves the settings alone; nothing else changes -/
theorem struct_header_auto (cfg : Cfg) (minor : Nat) :
    (minor ≥ 3 → (rmcClientCfg cfg minor).structHeader = true)
    ∧ (minor < 3 → rmcClientCfg cfg minor = cfg)
    ∧ (rmcClientCfg cfg minor).nexVersion = cfg.nexVersion ∧ (rmcClientCfg cfg minor).pidSize = cfg.pidSize :=
  ⟨rmcClientCfg_header cfg minor, rmcClientCfg_keep cfg minor, (rmcClientCfg_other cfg minor).1, (rmcClientCfg_other cfg minor).2⟩

/-! non-vacuity -/
example : Ex.conn.items.revAscending = true := by decide
example : lookup Ex.env 82 = some Ex.conn ∧ Ex.conn.parent = none := by decide
-- RVConnectionData-like value at nex 4.0 with headers: revision 1, 19-byte body
example : encObj Ex.env Ex.cfgNew 8 82 [.str Schema.prudpUrl, .int 5]
    = .ok ([1, 18, 0, 0, 0] ++ [8, 0, 0x70, 0x72, 0x75, 0x64, 0x70, 0x3A, 0x2F, 0, 5, 0, 0, 0, 0, 0, 0, 0], []) := by rfl
-- announced as revision 7 with two trailing bytes inside the body: same attributes, rest untouched
example : decObj Ex.env Ex.cfgNew 8 82
    ([7, 20, 0, 0, 0] ++ [8, 0, 0x70, 0x72, 0x75, 0x64, 0x70, 0x3A, 0x2F, 0, 5, 0, 0, 0, 0, 0, 0, 0] ++ [0xAA, 0xBB] ++ [9, 9])
    = .ok ([.str Schema.prudpUrl, .int 5], [9, 9]) := by rfl
-- strings are length-prefixed in BYTES (UTF-8 + terminator), not characters: "é" = C3 A9 is written with length 3
example : encObj Ex.env Ex.cfgNew 8 71 [.int 7, .str [0xC3, 0xA9]]
    = .ok ([0, 9, 0, 0, 0] ++ [7, 0, 0, 0, 3, 0, 0xC3, 0xA9, 0], []) := by rfl
-- two calls in flight, answered in the opposite order: each caller is handed the body carrying its own call id
example : (RmcClient.run RmcClient.init [.call false, .call false,
      .recvResponse { mode := 1, protocol := 21, method := some 1, callId := 2, error := -1, body := [2, 2] },
      .recvResponse { mode := 1, protocol := 21, method := some 1, callId := 1, error := -1, body := [1] },
      .wake 0, .wake 1]).2
    = [.sent 0 1, .sent 1 2, .set 1, .set 0, .done 0 (.body [1]), .done 1 (.body [2, 2])] := by decide
example : RmcClient.nCalls [.call false, .call false, .wake 0] < 4294967295 := by decide
example : (Rmc.Spec.request 21 1 1 [7, 0, 0, 0]).WF := by decide
example : dispatch Ex.proto (fun _ => true) 2 = .notImplemented ∧ dispatch Ex.proto (fun _ => true) 1 = .run Ex.meth
    ∧ dispatch Ex.proto (fun _ => false) 1 = .notImplemented ∧ dispatch Ex.proto (fun _ => true) 3 = .notImplemented := by decide
example : (rmcClientCfg Ex.cfgOld 3).structHeader = true ∧ (rmcClientCfg Ex.cfgOld 2).structHeader = false := by decide

end Nx.C14
