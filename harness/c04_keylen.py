"""C04 helper — forgeries that are right in everything but the SESSION KEY'S LENGTH (family `keylen`).

The forger has the access key, the connection signature (address-derived), both virtual ports and both session ids — everything an
observer of the handshake has — but not the session key. Instead of guessing a key of the right size it signs with the EMPTY key
(b"", what a connection holds before anybody logged in), with the default stream-cipher key b"CD&ML" (what the payload
ciphers hold before anybody logged in), with an all-zero key of the right length, an all-zero key of the other
standard length, and with the genuine key cut short / cut in half / extended by a zero byte (a key of another length that shares a
prefix with the real one: the MAC input differs, the packet was not produced with the connection's session key).

Packets: DATA reliable (next id and the one after), DATA unreliable (with and without NEED_ACK), DISCONNECT (reliable, forceful, forceful
with NEED_ACK), PING (reliable, unreliable with NEED_ACK), acknowledgements of DATA / PING / DISCONNECT and aggregate acks naming the
last id the receiver sent. On v0 only what signature_version 0 binds to the session key (every DATA-typed packet and DISCONNECT).

Injection points, towards the server AND towards the client (from the peer's genuine address):
  * the handshake window: from the instant the connection exists at the receiver (server: the CONNECT has just arrived; client: just
    BEFORE and just after the CONNECT acknowledgement arrives) through an idle period in which the receiver has not seen a single
    genuine non-handshake packet (scripts whose first phase is empty), at several instants of that period;
  * later: just before and just after every genuine reliable packet (first transmission and first retransmission), and, sent back to
    the packet's sender ahead of any genuine answer, acknowledgements of that very packet.
Scripts make either side the first to speak after the idle period (so that either side has unacknowledged packets of its own while it
has still received nothing genuine), and a fate that loses the FIRST transmission of every reliable non-handshake packet (identically
in the reference run) makes an accepted forged acknowledgement visible: the retransmission of the reference run is missing.
"""
import prudp_session as ps

WINDOW = (0.03125, 0.1875, 0.4375, 0.8125)      # instants of the idle handshake window (after the handshake packet's arrival)


def keys_for(sk):
    n = len(sk)
    ks = [("empty", b""), ("default-stream-key", b"CD&ML"), ("zero", bytes(n)), ("zero-other-length", bytes(16 if n != 16 else 32)), ("cut-1", sk[:-1]),
          ("half", sk[:n // 2]), ("plus-zero-byte", sk + b"\0")]
    seen, out = set(), []
    for name, k in ks:
        if k != sk and k not in seen:
            seen.add(k); out.append((name, k))
    return out


def menu(version):
    """(type, flags, payload?, id rule): n = receiver's next reliable id, n1 = the one after, u = some unreliable id, z = 0, a = the last
    reliable id the receiver itself sent (what an acknowledgement would name)"""
    m = [(2, 2 | 4 | 8, True, "n"), (2, 2 | 4 | 8, True, "n1"), (2, 4 | 8, True, "u"), (2, 8, True, "u"),
         (3, 2 | 4, False, "n"), (3, 0, False, "z"), (3, 4, False, "z"), (3, 1, False, "a"),
         (2, 1, False, "a"), (2, 0x200 | 1, False, "a"), (2, 0x200, False, "a")]
    if version != 0:
        m += [(4, 2 | 4, False, "n"), (4, 4, False, "u"), (4, 1, False, "a")]
    return m


def script(cfg, rng, shape):
    fs = cfg.fragment_size
    c1 = [("c", 0, rng.randbytes(2 * fs + 3)), ("c", 0, ("u", rng.randbytes(9)))]
    s1 = [("s", 0, rng.randbytes(fs + 2)), ("s", 0, ("u", rng.randbytes(5)))]
    both = [("s", 0, rng.randbytes(5)), ("c", 0, rng.randbytes(fs + 1))]
    if cfg.version == 0:
        # v0 unreliable ids start at 1 like the reliable ones: the acknowledgement of an unreliable datagram would cancel the timer of
        # the reliable packet with the same id (open finding D15 of C01) and, with the lossy fate, hide the rest of the session
        c1, s1 = c1[:1], s1[:1]
    if shape == "A":        # idle, then the client speaks first
        return [[], c1, s1, both]
    if shape == "B":        # idle, then the server speaks first
        return [[], s1, c1, both]
    return [c1 + s1, both]  # C: traffic right after the handshake


def lose_first_fate(cfg, s, D):
    """the first transmission of every reliable DATA / PING / DISCONNECT packet is lost (decided by content: the same in both runs)"""
    obs = ps.Observer(s, cfg)
    seen = {}
    def fate(tx):
        k = seen.get((tx.src, tx.data), 0)
        seen[(tx.src, tx.data)] = k + 1
        pk = obs.decode(tx.data)
        if k == 0 and pk and pk[0].type in (2, 3, 4) and pk[0].flags & 2 and not pk[0].flags & (1 | 0x200):
            return []
        return [D]
    return fate


def make_hook(cfg, s, out, inj, D, EPS):
    from nintendo.nex import prudp
    obs = ps.Observer(s, cfg)
    enc = prudp.PRUDPMessageSelector(s).select(cfg.version)
    st = {"last": {"c": 1, "s": 0}, "sid": {}, "connect": False, "cack": False, "seen": {}, "rot": 0}
    keys = []               # (the session exists only after setup: filled at the first transmission)
    items = menu(cfg.version)

    def forge(src_addr, hdr, sid, ptype, flags, pid, payload, sub, key):
        p = prudp.PRUDPPacket(ptype, flags)
        p.version = cfg.version
        p.source_type, p.source_port, p.dest_type, p.dest_port = hdr
        p.session_id = sid
        p.packet_id = pid & 0xFFFF
        p.fragment_id = 0
        p.substream_id = sub
        p.payload = payload
        try:
            p.signature = enc.calc_packet_signature(p, key, enc.calc_connection_signature(src_addr))
            return enc.encode(p)
        except Exception:
            return None

    def emit(d, src, dst, hdr, when, nid, where, n, which):
        """d: direction of the forged packets ('c' = towards the server); nid: the receiver's next reliable id at that instant"""
        other = "s" if d == "c" else "c"
        sid = st["sid"].get(d)
        if sid is None:
            return
        for kname, key in which:
            for ptype, flags, has_payload, rule in items:
                pid = {"n": nid, "n1": nid + 1, "u": 7, "z": 0, "a": st["last"][other]}[rule]
                sub = 0
                payload = b"forged!" if has_payload else b""
                if flags & 0x200:
                    if cfg.version != 0:
                        sub, payload = 1, bytes([0, 0]) + (pid & 0xFFFF).to_bytes(2, "little")
                    else:
                        payload = (pid & 0xFFFF).to_bytes(2, "little") * 2
                data = forge(src, hdr, sid, ptype, flags, pid, payload, sub, key)
                if data is not None:
                    inj(src, dst, data, when, ("forged", "key:" + kname, ptype, flags, n, where, d, data.hex()))

    def on_tx(tx):
        if not keys:
            keys.extend(keys_for(out.session_key))
        pk = obs.decode(tx.data)
        if not pk:
            return
        p = pk[0]
        d = "c" if tx.dst == ps.SERVER else "s"
        hdr = (p.source_type, p.source_port, p.dest_type, p.dest_port)
        if p.type == 0:
            return
        if p.type == 1:
            if d == "c" and not p.flags & 1 and not st["connect"]:
                st["connect"] = True
                st["sid"]["c"] = p.session_id
                emit("c", tx.src, tx.dst, hdr, D + EPS, 2, "just-after-connect", tx.n, keys)
                for k, w in enumerate(WINDOW):
                    emit("c", tx.src, tx.dst, hdr, D + w, 2, "window%d" % k, tx.n, keys)
            elif d == "s" and p.flags & 1 and not st["cack"]:
                st["cack"] = True
                st["sid"]["s"] = p.session_id
                emit("s", tx.src, tx.dst, hdr, D - EPS, 1, "just-before-connect-ack", tx.n, keys)
                emit("s", tx.src, tx.dst, hdr, D + EPS, 1, "just-after-connect-ack", tx.n, keys)
                for k, w in enumerate(WINDOW):
                    emit("s", tx.src, tx.dst, hdr, D + w, 1, "window%d" % k, tx.n, keys)
            return
        if p.flags & (1 | 0x200) or not p.flags & 2 or p.type not in (2, 3, 4):
            return
        k = st["seen"].get((tx.src, tx.data), 0)
        st["seen"][(tx.src, tx.data)] = k + 1
        if p.substream_id == 0 and k == 0:
            st["last"][d] = p.packet_id
        if k > 1:
            return
        # the same direction: the empty key always, the other keys in rotation
        st["rot"] += 1
        # (the empty key and the default stream-cipher key always - what a connection holds when nobody has logged in -, the others in rotation)
        which = keys[:2] + [keys[2 + st["rot"] % (len(keys) - 2)]] if len(keys) > 2 else keys
        emit(d, tx.src, tx.dst, hdr, D - EPS, p.packet_id, "before-genuine", tx.n, which)
        emit(d, tx.src, tx.dst, hdr, D + EPS, p.packet_id + 1, "after-genuine", tx.n, which)
        # back to the sender, ahead of any genuine answer: acknowledgements of this very packet
        other = "s" if d == "c" else "c"
        sid = st["sid"].get(other)
        if sid is None:
            return
        back = (p.dest_type, p.dest_port, p.source_type, p.source_port)
        for kname, key in keys:
            acks = [(p.type, 1, p.packet_id, b"", p.substream_id)]
            if p.type == 2:
                for fl in (0x200 | 1, 0x200):
                    if cfg.version != 0:
                        acks.append((2, fl, 0, bytes([p.substream_id, 0]) + p.packet_id.to_bytes(2, "little"), 1))
                    else:
                        acks.append((2, fl, p.packet_id, p.packet_id.to_bytes(2, "little") * 2, 0))
            if cfg.version == 0 and p.type == 4:
                continue        # a v0 PING acknowledgement involves no session key
            for ptype, flags, pid, payload, sub in acks:
                data = forge(tx.dst, back, sid, ptype, flags, pid, payload, sub, key)
                if data is not None:
                    inj(tx.dst, tx.src, data, EPS if k == 0 else 3 * EPS, ("forged", "key:" + kname, ptype, flags, tx.n, "ack-of-genuine", other, data.hex()))
    return on_tx
