/-!
# C20 — API inventory: data model and Bool checkers

The translators `tools/api_docs.py` (docs/reference/**/*.md) and `tools/api_actual.py`
(`ast` of the modules, cross-checked with `inspect`) emit two tables of *signatures*;
`harness/api_inventory.py` generates one Lean file per reference page whose obligations
`coversM documented actual = true` and `namesAgreeM documented actual = true` (a linear pass over
the sorted tables) are evaluated by the kernel (`decide +kernel`) and lifted by the lemmas in
`NxProofs/ApiInventory.lean` to `covers … = true` / `namesAgree … = true` (the quadratic `all/any`
statements) and from there to the quantified `CoversSpec` / `NamesSpec`.

Everything is Nat-coded (names are lists of code points, never `String`s: kernel
evaluation of `String` comparisons is very slow) and the checkers are plain `Bool`
functions.  No Mathlib (and nothing else) is imported.
-/
namespace Nx.Api

/-- an identifier / dotted module name as its Unicode code points -/
abbrev Name := List Nat

/-- kinds of documented entries -/
def kindDef : Nat := 0        -- `def`
def kindAsyncDef : Nat := 1   -- `async def`
def kindAsyncWith : Nat := 2  -- `async with` (an `@contextlib.asynccontextmanager`)
def kindClass : Nat := 3      -- `class`
def kindProperty : Nat := 4   -- only on the code side: a `@property` (never *callable* as documented)
def kindWith : Nat := 5       -- only on the code side: a `@contextlib.contextmanager`

/-- one parameter of a signature (`self` / `cls` never appear) -/
structure Param where
  name : Name
  hasDefault : Bool
  kwOnly : Bool
  deriving DecidableEq, Repr

/-- A signature.  Documented and actual signatures share the type:
`varArgs`/`varKw` say that `*args` / `**kwargs` is present; `onClass` says that the entry can be
called on the class itself (documented with `@classmethod`/`@staticmethod`; defined so). -/
structure Sig where
  module : Name
  cls : Name            -- `[]` for module-level entries
  kind : Nat
  name : Name
  onClass : Bool
  params : List Param
  varArgs : Bool
  varKw : Bool
  deriving DecidableEq, Repr

/-- signatures extracted from the code -/
abbrev ASig := Sig

def posParams (ps : List Param) : List Param := ps.filter (fun p => !p.kwOnly)
def kwParams (ps : List Param) : List Param := ps.filter (fun p => p.kwOnly)
def paramNames (ps : List Param) : List Name := ps.map (·.name)
/-- names of the positional(-or-keyword) parameters, in order -/
def posNames (s : Sig) : List Name := paramNames (posParams s.params)

/-- Equality of names as a plain structural `Bool` function over `Nat.beq` (which the kernel evaluates on
literals natively).  The derived `DecidableEq (List Nat)` builds proofs and is ~50× slower under
`decide +kernel`; `nameEq_iff` (NxProofs) shows this is the same equality. -/
def nameEq : Name → Name → Bool
  | [], [] => true
  | a :: as, b :: bs => Nat.beq a b && nameEq as bs
  | _, _ => false

/-- same module, class and name (the name is compared first: it decides fastest) -/
def sameKey (d a : Sig) : Bool := nameEq d.name a.name && nameEq d.cls a.cls && nameEq d.module a.module

/-- Positional acceptance.  `posOk ds as va kws`: the documented positional parameters `ds` laid over the
actual positional parameters `as`:
* position by position, a parameter documented with a default has one (the call that omits it must work;
  a default the documentation does not mention is harmless: the call that passes the argument still works);
* more documented than actual parameters are only accepted by `*args` (`va`);
* every further actual parameter must have a default, or be supplied by a documented keyword (`kws`)
  — otherwise the call *as documented* raises `TypeError: missing … required positional argument`. -/
def posOk : List Param → List Param → Bool → List Name → Bool
  | [], as, _, kws => as.all (fun p => p.hasDefault || kws.any (nameEq p.name))
  | _ :: _, [], va, _ => va
  | d :: ds, a :: as, va, kws => (!d.hasDefault || a.hasDefault) && posOk ds as va kws

/-- Keyword acceptance.  Every documented keyword-only parameter exists under that name as a keyword-only
parameter, or as a positional-or-keyword parameter not already bound positionally (`extra`), optional if
documented optional — or the callable takes `**kwargs`; and no actual keyword-only parameter without a default
is left undocumented. -/
def kwOk (dk ak extra : List Param) (varKw : Bool) : Bool :=
  dk.all (fun d => varKw || (ak ++ extra).any (fun p => nameEq p.name d.name && (!d.hasDefault || p.hasDefault)))
  && ak.all (fun p => p.hasDefault || dk.any (fun d => nameEq d.name p.name))

/-- the documented call shape is accepted by the actual callable -/
def callOk (d a : Sig) : Bool :=
  (!d.onClass || a.onClass)
  && posOk (posParams d.params) (posParams a.params) a.varArgs (paramNames (kwParams d.params))
  && kwOk (kwParams d.params) (kwParams a.params) ((posParams a.params).drop (posParams d.params).length) a.varKw
  && (!d.varArgs || a.varArgs) && (!d.varKw || a.varKw)

/-- `sigMatches d a` (the brief calls it `matches`, which is a Lean keyword): the documented entry `d` is
realised by the actual entry `a`: same module / class / name, same kind (`def` ≠ `async def` ≠ `async with`
≠ `class`), and — for callables — the documented call shape is accepted. -/
def sigMatches (d : Sig) (a : ASig) : Bool :=
  sameKey d a && Nat.beq d.kind a.kind && (Nat.beq d.kind kindClass || callOk d a)

/-- every documented signature is realised by some actual one (overloads documented twice are satisfied
by the one callable) -/
def covers (documented : List Sig) (actual : List ASig) : Bool :=
  documented.all (fun d => actual.any (sigMatches d))

/-- the stricter keyword reading: the documented positional parameter names are the code's, position by position -/
def namesOk : List Name → List Name → Bool → Bool
  | [], _, _ => true
  | _ :: _, [], va => va         -- documented parameters that only `*args` takes have no name to compare
  | d :: ds, a :: as, va => nameEq d a && namesOk ds as va

def namesMatch (d : Sig) (a : ASig) : Bool :=
  sameKey d a && namesOk (posNames d) (posNames a) a.varArgs

def namesAgree (documented : List Sig) (actual : List ASig) : Bool :=
  documented.all (fun d => actual.any (namesMatch d))

/-- Linear checker used for the kernel obligations.  One pass over both tables: the head of the documented
list is compared with the head of the actual list; on a match the documented entry is done (the actual entry
stays: overloads), otherwise the actual entry is dropped.  `true` implies the quadratic `all/any` statement
for *any* input order (`mergeAll_sound`); the translator emits both tables sorted by (class, name) so that the
pass also succeeds whenever the quadratic check does.  (The kernel spends ~0.1 ms per list step, so the
quadratic `covers` itself costs minutes on the large pages; this one costs `|D| + |A|` steps.) -/
def mergeAll (p : Sig → ASig → Bool) : Nat → List Sig → List ASig → Bool
  | _, [], _ => true
  | 0, _ :: _, _ => false
  | _ + 1, _ :: _, [] => false
  | n + 1, d :: ds, a :: as => if p d a then mergeAll p n ds (a :: as) else mergeAll p n (d :: ds) as

def coversM (documented : List Sig) (actual : List ASig) : Bool :=
  mergeAll sigMatches (documented.length + actual.length) documented actual

def namesAgreeM (documented : List Sig) (actual : List ASig) : Bool :=
  mergeAll namesMatch (documented.length + actual.length) documented actual

/-- failing-input search: the first documented signature no actual signature realises -/
def firstUncovered (documented : List Sig) (actual : List ASig) : Option Sig :=
  documented.find? (fun d => !actual.any (sigMatches d))

def firstNameMismatch (documented : List Sig) (actual : List ASig) : Option Sig :=
  documented.find? (fun d => !actual.any (namesMatch d))

/-- Python's binding of `k` positional arguments plus the keywords `kws` to positional parameters `ps`
(`va`: `*args` present): not too many arguments, and every unbound parameter has a default or is passed by keyword.
This is the *specification* `posOk` is proved against (`posOk_admits`). -/
def admitsPos (ps : List Param) (va : Bool) (kws : List Name) (k : Nat) : Bool :=
  (decide (k ≤ ps.length) || va) && (ps.drop k).all (fun p => p.hasDefault || kws.any (nameEq p.name))

end Nx.Api
